"""C12 — Compiled GP trees compute what the prefix tree denotes; printing round-trips (deap/gp.py)."""
import itertools
import os
import random
import re
import struct
import sys

from lib import Case
from deap import gp
from props import c11 as _c11

ANCHORS = [("deap/gp.py", ["PrimitiveTree.__str__", "PrimitiveTree.from_string", "Primitive.__init__", "Primitive.format",
                           "Terminal.__init__", "Terminal.format", "PrimitiveSetTyped.renameArguments",
                           "PrimitiveSetTyped.addTerminal", "PrimitiveSetTyped.addADF", "compile", "compileADF"])]
LEVEL = "partial"
RULE = ("every primitive set (untyped with 0/1/2 arguments incl. renamed arguments, named terminals (also as the single node "
        "of a zero-argument set), overlapping renamings (swap, 3-cycle, rename onto a freed name), negative constants, anonymous constants equal by == but of different type / sign of zero, "
        "ephemerals; strongly typed int/bool/float with a subclass pair and dyadic float constants; a two-level ADF family with 1- and 0-argument main sets, a zero-argument ADF set) x "
        "trees of height 0..6 from genFull/genGrow/genHalfAndHalf and from chains of the variation operators; for each tree: "
        "str vs strBuilder vs render, the source handed to eval vs compileSrc, re.split tokens vs tokens, from_string(str(t)) vs "
        "fromString, gp.compile(t)(*args) vs evalTree on an argument grid + random values; plus hand-made strings for the "
        "tokenizer / type checks of from_string. Non-trivial = distinct tree with more than one node")
EXHAUSTIVE = {"quick": False, "thorough": False}
TIME_BUDGET = {"quick": 50, "thorough": 800}
TRUSTED = ["CPython's eval of the generated source `lambda args: f(g(x), y)`: that a nested call expression evaluates to the "
           "callable bound to f applied to the values of its arguments, with lambda parameters shadowing pset.context — NOT "
           "modelled; the theorems reach the source text (compileSrc = 'lambda …: ' + render t) and the correspondence compares "
           "gp.compile(tree, pset)(*args) with the model's evalTree",
           "repr/eval round trip of int, bool and dyadic float literals (hypothesis on ParseEnv.ev in the theorems; the driver's "
           "literal reader is compared with Python on every printed constant)",
           "str.format with positional fields, re.split with a character class, collections.deque.extendleft",
           "IEEE-754 double +,-,*,< are the same operations in Lean's Float (float-typed trees)"]
ASSUMPTIONS = ["node texts (primitive names, argument names, named terminals, reprs of constants) are non-empty and contain no "
               "separator character ` \\t\\n\\r\\f\\v(),` — ints, floats, bools, identifiers",
               "the value of an ephemeral / constant has a Python type that is a subclass of its declared type",
               "float constants are normal doubles (the driver's decimal reader is exact there; subnormals are not generated)"]
MIN_CASES = 1000
CASE_TIMEOUT = 20
EXPLANATION = ("NOTE on `roundtrip`/`eval_roundtrip`: evalTree reads only kind, name and text of a node, so 'the re-parsed tree "
               "computes the same function' adds nothing beyond 'it prints identically with the same shape' in the model; the "
               "clause gets its content from the correspondence run, where the re-parsed tree is compiled by the real code. "
               "proof for the string builder (all arities), the tokenizer and the parser round trip incl. equal evaluation of the "
               "re-parsed tree and the ADF evaluation order; partial for 'the compiled callable': Python's evaluator is trusted, "
               "tied to evalTree by the differential run")

parse_all, Bad = _c11.parse_all, _c11.Bad
if hasattr(sys, "set_int_max_str_digits"):
    sys.set_int_max_str_digits(0)          # deep mul chains produce ints with thousands of digits


# ----------------------------------------------------------------------------------------------
# functions registered in the sets, with the model's op ids
# ----------------------------------------------------------------------------------------------

def f_add(a, b):
    return a + b


def f_sub(a, b):
    return a - b


def f_mul(a, b):
    return a * b


def f_neg(a):
    return -a


def f_max2(a, b):
    return max(a, b)


def f_max3(a, b, c):
    return max(a, b, c)


def f_ite(c, a, b):
    return a if c else b


def f_lt(a, b):
    return a < b


def f_and(a, b):
    return a and b


def f_not(a):
    return not a


def f_id(a):
    return a


def f_five():
    return 5


def f_dbl(a):
    return a + a


OPID = {f_dbl: "dbl", f_five: "five", f_add: "add", f_sub: "sub", f_mul: "mul", f_neg: "neg", f_max2: "max2", f_max3: "max3", f_ite: "ite",
        f_lt: "lt", f_and: "and", f_not: "not", f_id: "id"}


def e_int():
    return random.randint(-9, 9)


def e_flt():
    # short dyadics and long / non-dyadic / exponent-form doubles (repr must be the shortest round-trip text)
    return random.choice([0.25, -0.5, 1.5, 2.0, -3.75, 0.0625, 0.1234567891, 1e-17, 1.0 / 3.0, 0.1, 2.5e-05,
                          123456.789, 1e+16, 0.30000000000000004, -2.718281828459045, 6.02214076e+23])



def e_bool():
    return random.random() < 0.5


def e_small():
    return random.randint(-2, 2)


def e_fint():
    # floats that are == to small ints / to each other with another sign of zero
    return random.choice([1.0, -2.0, 0.0, -0.0, 2.0, 0.5, -1.0])


_uid = [0]


def uniq(name):
    _uid[0] += 1
    return "%s%d_%d" % (name, os.getpid(), _uid[0])


# ----------------------------------------------------------------------------------------------
# primitive sets
# ----------------------------------------------------------------------------------------------

TYPES = [object, int, bool, float]


def register_args(pset):
    """remember, BEFORE any renaming, which Terminal object stands for which argument position"""
    pset._argterms = [pset.mapping[a] for a in pset.arguments]
    return pset


def argmap_of(pset, tup):
    """argument values keyed by the identity of the argument terminals (position i <-> the terminal created for
    ARGi, whatever it is called now)"""
    return dict((id(t), v) for t, v in zip(pset._argterms, tup))


class PS(object):
    def __init__(self, key, pset):
        self.key, self.pset = key, pset
        assert hasattr(pset, "_argterms"), "register_args(pset) must be called when the set is created"

    def tid(self, t):
        return TYPES.index(t)

    def node_tok(self, n):
        if isinstance(n, gp.Primitive):
            return "%s:%d:%s:p:" % (n.name, self.tid(n.ret), ".".join(str(self.tid(a)) for a in n.args))
        if type(n) is gp.MetaEphemeral:
            return "%s:%d::e:" % (n.name, self.tid(n.ret))
        kind = "e" if type(type(n)) is gp.MetaEphemeral else "t"
        # the text the MODEL prints for a terminal comes from its VALUE (str of a symbolic name, Python's own repr of
        # a constant), never from Terminal.format(): a change of the printer is then a disagreement
        return "%s:%d::%s:%s" % (n.name, self.tid(n.ret), kind, term_text(n))

    def nodes_tok(self, l):
        return ",".join(self.node_tok(n) for n in l) if len(l) else "-"

    def sub_tok(self):
        n = len(TYPES)
        return ",".join("%d.%d" % (a, b) for a in range(n) for b in range(n) if issubclass(TYPES[a], TYPES[b]))

    def mapping_tok(self):
        m = self.pset.mapping
        return ";".join("%s=%s" % (enc(k), self.node_tok(v)) for k, v in m.items()) if m else "-"

    def funs_tok(self):
        out = []
        for k, v in self.pset.context.items():
            if callable(v) and v in OPID:
                out.append("%s=%s" % (enc(k), OPID[v]))
        return ",".join(out) if out else "-"

    def vars_tok(self):
        out = []
        for k, v in self.pset.context.items():
            if k != "__builtins__" and not callable(v):
                out.append("%s=%s" % (enc(k), val_tok(v)))
        return ",".join(out) if out else "-"

    def args_tok(self):
        # the name under which the terminal of argument i prints, by POSITION (equals pset.arguments[i] unless
        # renameArguments paired names and positions wrongly — then the model disagrees with the compiled lambda)
        a = [t.value for t in self.pset._argterms]
        return ",".join(enc(x) for x in a) if a else "-"


def term_text(n):
    return n.value if isinstance(n.value, str) else repr(n.value)


def enc(s):
    if s == "":
        return "-"
    return "".join(c if (c.isalnum() and ord(c) < 128) or c in "_.-" else "%%%02x" % ord(c) for c in s)


def val_tok(v):
    if isinstance(v, bool):
        return "b1" if v else "b0"
    if isinstance(v, int):
        return "i%d" % v
    if isinstance(v, float):
        return "f%d" % struct.unpack("<Q", struct.pack("<d", v))[0]
    return "?" + enc(repr(v))       # not a value of the modelled signature (the oracle reports it)


def untyped(key, nargs, prims, consts, named=(), eph=True, rename=None):
    """an untyped set named MAIN"""
    p = register_args(gp.PrimitiveSet("MAIN", nargs))
    for f, ar, name in prims:
        p.addPrimitive(f, ar, name=name)
    for c in consts:
        p.addTerminal(c)
    for name, v in named:
        p.addTerminal(v, name=name)
    if eph:
        p.addEphemeralConstant(uniq("E"), e_int)
    if rename:
        p.renameArguments(**rename)
    return PS(key, p)


def b_u2():
    return untyped("u2", 2, [(f_add, 2, "add"), (f_sub, 2, "sub"), (f_mul, 2, "mul"), (f_neg, 1, "neg"),
                             (f_max2, 2, "max"), (f_ite, 3, "if_then_else")], [1, -1], [("three", 3)])


def b_u2x():
    # the twin of u2: same name, same argument names, same vocabulary — but `max` and `three` are bound differently
    return untyped("u2x", 2, [(f_add, 2, "add"), (f_sub, 2, "sub"), (f_mul, 2, "mul"), (f_neg, 1, "neg"),
                              (f_sub, 2, "max"), (f_ite, 3, "if_then_else")], [1, -1], [("three", 30)])


def b_u2m():
    # anonymous constants that are equal by == but differ in type / sign of zero: 1 vs 1.0 vs True, 0.0 vs -0.0
    p = register_args(gp.PrimitiveSet("MAIN", 2))
    for f, ar, name in [(f_add, 2, "add"), (f_sub, 2, "sub"), (f_neg, 1, "neg"), (f_max2, 2, "max"),
                        (f_ite, 3, "if_then_else"), (f_lt, 2, "lt")]:
        p.addPrimitive(f, ar, name=name)
    p.addEphemeralConstant(uniq("MI"), e_small)
    p.addEphemeralConstant(uniq("MF"), e_fint)
    p.addEphemeralConstant(uniq("MB"), e_bool)
    return PS("u2m", p)


def b_u2r():
    return untyped("u2r", 2, [(f_add, 2, "add"), (f_mul, 2, "mul"), (f_neg, 1, "neg"), (f_sub, 2, "sub"), (f_ite, 3, "ite")], [0, -2],
                   [("ten", 10)], rename={"ARG1": "x", "ARG0": "xy"})       # keywords NOT in positional order


ASYM = [(f_sub, 2, "sub"), (f_add, 2, "add"), (f_neg, 1, "neg"), (f_ite, 3, "ite"), (f_lt, 2, "lt")]


def b_u2s():
    # overlapping renaming: the two arguments exchange their names
    return untyped("u2s", 2, ASYM, [1, -2], rename={"ARG0": "ARG1", "ARG1": "ARG0"})


def b_u3c():
    # overlapping renaming: a 3-cycle rotation of the names
    return untyped("u3c", 3, ASYM, [0, 3], rename={"ARG0": "ARG1", "ARG1": "ARG2", "ARG2": "ARG0"})


def b_u3f():
    # overlapping renaming: ARG2 takes the name ARG0 frees in the same call (keywords not in positional order)
    return untyped("u3f", 3, ASYM, [1, -1], [("ten", 10)], rename={"ARG2": "ARG0", "ARG0": "z"})


def b_u0():
    # zero arguments: compile returns a value; `seven` is a NAMED terminal (its .value is the name)
    return untyped("u0", 0, [(f_add, 2, "add"), (f_mul, 2, "mul"), (f_neg, 1, "neg"), (f_max3, 3, "max3")], [2, -3],
                   [("seven", 7)])


def b_u1():
    return untyped("u1", 1, [(f_lt, 2, "lt"), (f_ite, 3, "ite"), (f_and, 2, "and_"), (f_not, 1, "not_"), (f_add, 2, "add"),
                             (f_sub, 2, "sub")], [0, 1, True], eph=False, rename={"ARG0": "n"})


def typed(key, ins, ret, rename=None):
    p = register_args(gp.PrimitiveSetTyped("MAIN", ins, ret))
    p.addPrimitive(f_add, [int, int], int, name="addI")
    p.addPrimitive(f_mul, [int, int], int, name="mulI")
    p.addPrimitive(f_neg, [int], int, name="negI")
    p.addPrimitive(f_max3, [int, int, int], int, name="max3I")
    p.addPrimitive(f_lt, [int, int], bool, name="ltI")
    p.addPrimitive(f_ite, [bool, int, int], int, name="iteI")
    p.addPrimitive(f_and, [bool, bool], bool, name="andB")
    p.addPrimitive(f_not, [bool], bool, name="notB")
    p.addPrimitive(f_lt, [float, float], bool, name="ltF")
    p.addPrimitive(f_add, [float, float], float, name="addF")
    p.addPrimitive(f_mul, [float, float], float, name="mulF")
    p.addPrimitive(f_neg, [float], float, name="negF")
    p.addPrimitive(f_ite, [bool, float, float], float, name="iteF")
    p.addPrimitive(f_five, [], int, name="five")             # a zero-argument primitive: prints `five()`
    p.addTerminal(0.1, float)
    p.addTerminal(1.0 / 3.0, float)
    p.addTerminal(1, int)
    p.addTerminal(-2, int)
    p.addTerminal(True, bool)
    p.addTerminal(False, bool)
    p.addTerminal(0.5, float)
    p.addTerminal(-1.25, float)
    p.addTerminal(0.75, float, name="q")
    p.addEphemeralConstant(uniq("EI"), e_int, int)
    p.addEphemeralConstant(uniq("EF"), e_flt, float)
    p.addEphemeralConstant(uniq("EB"), e_bool, bool)
    if rename:
        p.renameArguments(**rename)
    return PS(key, p)


BUILDERS = {"u2": b_u2, "u2r": b_u2r, "u0": b_u0, "u1": b_u1,
            "ti": lambda: typed("ti", [int, float], int),
            "tf": lambda: typed("tf", [float, int, bool], float, rename={"ARG2": "flag", "ARG0": "a"}),
            "tb": lambda: typed("tb", [], bool),
            "tf0": lambda: typed("tf0", [], float),          # zero-argument typed set whose root may be the named `q`
            "u2m": b_u2m, "u2s": b_u2s, "u3c": b_u3c, "u3f": b_u3f}
PSNAMES = sorted(BUILDERS)
BUILDERS["u2x"] = b_u2x
_cache = {}


def get_ps(key):
    if key not in _cache:
        _cache[key] = BUILDERS[key]()
    return _cache[key]


def adf_family(nmain=1):
    """main (with `nmain` arguments; 0 = compileADF returns a value) calls ADF1 and ADF2; ADF1 calls ADF2"""
    # names only have to be unique within ONE set: every set of the family binds `scale` and `k` differently
    a2 = register_args(gp.PrimitiveSet("ADF2", 2))
    a2.addPrimitive(f_add, 2, name="add")
    a2.addPrimitive(f_mul, 2, name="mul")
    a2.addPrimitive(f_dbl, 1, name="scale")
    a2.addTerminal(7, name="k")
    a2.addTerminal(-1)
    a1 = register_args(gp.PrimitiveSet("ADF1", 2))
    a1.addPrimitive(f_sub, 2, name="sub")
    a1.addPrimitive(f_neg, 1, name="neg")
    a1.addPrimitive(f_id, 1, name="scale")
    a1.addTerminal(-3, name="k")
    a1.addADF(a2)
    a1.addTerminal(2)
    a1.renameArguments(ARG0="u")
    m = register_args(gp.PrimitiveSet("MAIN", nmain))
    m.addPrimitive(f_add, 2, name="add")
    m.addPrimitive(f_max2, 2, name="max")
    m.addPrimitive(f_neg, 1, name="scale")
    m.addTerminal(10, name="k")
    m.addADF(a1)
    m.addADF(a2)
    m.addTerminal(1)
    m.addEphemeralConstant(uniq("EM"), e_int)
    return [PS("adf-main", m), PS("adf-1", a1), PS("adf-2", a2)]


_adf = {}


def get_adf0():
    if "zero" not in _adf:
        a0 = register_args(gp.PrimitiveSet("ADF0", 0))
        a0.addPrimitive(f_add, 2, name="add")
        a0.addPrimitive(f_mul, 2, name="mul")
        a0.addTerminal(2)
        a0.addTerminal(3)
        m = register_args(gp.PrimitiveSet("MAIN", 1))
        m.addPrimitive(f_add, 2, name="add")
        m.addPrimitive(f_neg, 1, name="neg")
        m.addADF(a0)
        m.addTerminal(1)
        _adf["zero"] = [PS("adf0-main", m), PS("adf0-0", a0)]
    return _adf["zero"]
ADF_HEIGHT_CAP = (3, 3, 3)


def get_adf(nmain=1):
    if nmain not in _adf:
        _adf[nmain] = adf_family(nmain)
    return _adf[nmain]


# ----------------------------------------------------------------------------------------------
# trees
# ----------------------------------------------------------------------------------------------

GEN = {"full": gp.genFull, "grow": gp.genGrow, "half": gp.genHalfAndHalf}
SIZE_CAP = 400


def make_tree(pset, g):
    """g = {mode, mn, mx, seed, ops: [...]}: a generated tree, then a chain of variation operators"""
    st = random.getstate()
    random.seed(g["seed"])
    try:
        for _ in range(20):
            t = gp.PrimitiveTree(GEN[g["mode"]](pset, g["mn"], g["mx"]))
            if len(t) <= SIZE_CAP:
                break
        else:
            t = gp.PrimitiveTree(gp.genGrow(pset, 0, 2))
        for op in g.get("ops", ()):
            if len(t) > SIZE_CAP:
                break
            if op == "cx":
                o = gp.PrimitiveTree(gp.genHalfAndHalf(pset, 1, 3))
                t, _ = gp.cxOnePoint(t, o)
            elif op == "cxlb":
                o = gp.PrimitiveTree(gp.genHalfAndHalf(pset, 1, 3))
                t, _ = gp.cxOnePointLeafBiased(t, o, 0.3)
            elif op == "mutu":
                t, = gp.mutUniform(t, expr=lambda pset, type_: gp.genHalfAndHalf(pset, 0, 2, type_), pset=pset)
            elif op == "mutn":
                t, = gp.mutNodeReplacement(t, pset)
            elif op == "mute":
                t, = gp.mutEphemeral(t, "all")
            elif op == "muti":
                t, = gp.mutInsert(t, pset)
            elif op == "muts":
                t, = gp.mutShrink(t)
    finally:
        random.setstate(st)
    return t


def interp(nodes, ctx, argmap):
    """the statement's direct evaluation of the prefix tree with the set's functions / terminals / arguments"""
    def go(i):
        n = nodes[i]
        if isinstance(n, gp.Primitive):
            vals, j = [], i + 1
            for _ in range(n.arity):
                v, j = go(j)
                vals.append(v)
            return ctx[n.name](*vals), j
        if type(type(n)) is gp.MetaEphemeral:
            return n.value, i + 1
        if id(n) in argmap:                       # the terminal of an argument, whatever its (re)name
            return argmap[id(n)], i + 1
        if isinstance(n.value, str):              # symbolic: a named terminal
            return ctx[n.value], i + 1
        return n.value, i + 1
    v, j = go(0)
    if j != len(nodes):
        raise Bad("orphan nodes")
    return v


def arg_values(t, rng, k):
    """k values of Python type t: a small grid first, then random ones"""
    if t is bool:
        return [False, True]
    if t is float:
        base = [0.0, 1.0, -0.5, 2.25]
        return base + [rng.choice([-1, 1]) * rng.randint(0, 64) / 16.0 for _ in range(k)]
    base = [-2, -1, 0, 1, 2]
    return base + [rng.randint(-50, 50) for _ in range(k)]


def arg_tuples(in_types, rng, cap=24):
    if not in_types:
        return [()]
    cols = [arg_values(t, rng, 2) for t in in_types]
    allt = list(itertools.product(*cols))
    if len(allt) > cap:
        allt = rng.sample(allt, cap)
    return allt


def tuples_tok(tuples):
    return ";".join(",".join(val_tok(v) for v in t) if t else "-" for t in tuples)


def same_value(a, b):
    """same Python type and same value; floats by bit pattern (0.0 vs -0.0 differ, NaN equals itself)"""
    if type(a) is not type(b):
        return False
    if isinstance(a, float):
        return struct.pack("<d", a) == struct.pack("<d", b)
    return a == b


def capture_compile(tree, pset):
    """gp.compile, also returning the source string it evaluated"""
    seen = []
    real = eval

    def spy(code, g=None, l=None):
        seen.append(code)
        return real(code, g, l)
    gp.eval = spy
    try:
        f = gp.compile(tree, pset)
    finally:
        del gp.eval
    return f, (seen[0] if seen else None)


def call(f, pset, args):
    return f(*args) if len(pset.arguments) > 0 else f


# ----------------------------------------------------------------------------------------------
# evaluate
# ----------------------------------------------------------------------------------------------

def lit_types(ps):
    return "%d.%d.%d" % (ps.tid(int), ps.tid(bool), ps.tid(float))


def tree_case(d, ps, tree, rng, tagprefix):
    pset = ps.pset
    lines, expect, orc = [], [], None
    nodes = ps.nodes_tok(tree)
    s = str(tree)
    lines.append("C12 str %s" % nodes)
    expect.append(enc(s))
    lines.append("C12 render %s" % nodes)
    expect.append(enc(s))
    f, src = capture_compile(tree, pset)
    if src is not None:
        lines.append("C12 src %s %s" % (ps.args_tok(), nodes))
        expect.append(enc(src))
    toks = [t for t in re.split("[ \t\n\r\f\v(),]", s) if t != ""]
    lines.append("C12 tokens %s" % enc(s))
    expect.append(",".join(enc(t) for t in toks))
    # --- every constant: the printed text must evaluate back to the value (oracle); the model reads Python's repr
    seen = set()
    for n in tree:
        if isinstance(n, gp.Primitive) or isinstance(n.value, str):
            continue
        key = (type(n.value).__name__, repr(n.value))
        if key in seen:
            continue
        seen.add(key)
        try:
            back_v = eval(n.format(), {"__builtins__": {}}, {})
        except Exception as e:  # noqa
            back_v = e
        if not same_value(back_v, n.value) and orc is None:
            orc = "the constant %r is printed as %r, which evaluates to %r" % (n.value, n.format(), back_v)
        lines.append("C12 lit %s" % enc(repr(n.value)))
        expect.append("%s %s" % (val_tok(n.value), enc(repr(n.value))))
    # --- compiled callable vs direct evaluation of the prefix tree (oracle) and vs the model ---
    in_types = list(pset.ins)
    tuples = arg_tuples(in_types, rng)
    got = []
    for tup in tuples:
        v = call(f, pset, tup)
        got.append(v)
        want = interp(list(tree), pset.context, argmap_of(pset, tup))
        if not same_value(v, want) and orc is None:
            orc = "compiled %s%r = %r but direct evaluation of the prefix tree gives %r" % (s, tup, v, want)
    lines.append("C12 ev %s %s %s %s %s" % (ps.funs_tok(), ps.vars_tok(), ps.args_tok(), nodes, tuples_tok(tuples)))
    expect.append(",".join(val_tok(v) for v in got))
    # --- round trip ---
    try:
        back = gp.PrimitiveTree.from_string(s, pset)
    except Exception as e:  # noqa
        back = None
        if orc is None:
            orc = "from_string(str(t)) raised %s: %s  [t = %s]" % (type(e).__name__, e, s)
    lines.append("C12 fs %s %s %s %s" % (ps.sub_tok(), ps.mapping_tok(), lit_types(ps), enc(s)))
    expect.append(ps.nodes_tok(back) if back is not None else "none")
    if back is not None and orc is None:
        if str(back) != s:
            orc = "from_string(str(t)) prints %r instead of %r" % (str(back), s)
        elif len(back) != len(tree):
            orc = "from_string(str(t)) has %d nodes instead of %d" % (len(back), len(tree))
        elif [n.arity for n in back] != [n.arity for n in tree]:
            orc = "from_string(str(t)) has different arities"
        else:
            fb = gp.compile(back, pset)
            for tup, v in zip(tuples, got):
                w = call(fb, pset, tup)
                if not same_value(v, w):
                    orc = "from_string(str(t)) computes %r instead of %r at %r  [t = %s]" % (w, v, tup, s)
                    break
    try:
        h = parse_all(list(tree))
        height = _c11.t_height(h)
    except Bad:
        height = -1
    tag = "%s/%s/h=%d%s" % (tagprefix, d["ps"], min(height, 7), "/ops" if d.get("g", {}).get("ops") else "")
    return Case(d, lines, expect, orc, tag=tag, nontrivial=len(tree) > 1)


def evaluate(d):
    k = d["k"]
    rng = random.Random(d.get("seed", 0))
    if k == "tree":
        ps = get_ps(d["ps"])
        tree = make_tree(ps.pset, d["g"])
        return tree_case(d, ps, tree, rng, "tree")

    if k == "adf":
        fam = get_adf(d.get("nmain", 1))
        trees = []
        for ps, g, cap in zip(fam, d["gs"], ADF_HEIGHT_CAP):
            t = make_tree(ps.pset, g)
            if t.height > cap:           # nested mul-ADFs: the degree multiplies per level, keep the ints printable
                t = make_tree(ps.pset, dict(g, mn=0, mx=1, ops=[]))
            trees.append(t)
        psets = [ps.pset for ps in fam]
        f = gp.compileADF(trees, psets)
        if d.get("nmain", 1) == 0:
            tuples = [()]
        else:
            tuples = [(v,) for v in [-2, -1, 0, 1, 2, 3] + [rng.randint(-9, 9) for _ in range(4)]]
        got, orc = [], None

        def direct(level, args):
            ps = psets[level]
            ctx = dict(ps.context)
            for j in range(level + 1, len(psets)):
                ctx[psets[j].name] = (lambda jj: (lambda *a: direct(jj, a)))(j)
            return interp(list(trees[level]), ctx, argmap_of(ps, args))
        for tup in tuples:
            v = call(f, psets[0], tup)
            got.append(v)
            w = direct(0, tup)
            if not same_value(v, w) and orc is None:
                orc = "compileADF result %r at %r but evaluating the trees directly gives %r  [%s]" % (
                    v, tup, w, " | ".join(str(t) for t in trees))
        parts = []
        for ps, t in zip(fam, trees):
            parts.append("%s %s %s %s %s" % (enc(ps.pset.name), ps.args_tok(), ps.funs_tok(), ps.vars_tok(), ps.nodes_tok(t)))
        line = "C12 adf %s %s" % (tuples_tok(tuples), " ".join(parts))
        tag = "adf/main%d/%s" % (d.get("nmain", 1), "calls" if any(n.name.startswith("ADF") for n in trees[0]) else "plain")
        cases = Case(d, [line], [",".join(val_tok(v) for v in got)], orc, tag=tag, nontrivial=True)
        # each tree of the family also prints / parses / compiles on its own (ADF names are in the mapping)
        if orc is None and d.get("each", True):
            sub = tree_print_only(fam[0], trees[0])
            cases = Case(d, [line] + sub[0], [",".join(val_tok(v) for v in got)] + sub[1], sub[2], tag=tag, nontrivial=True)
        return cases

    if k == "adf0":
        # a zero-argument ADF set; the main tree calls `ADF0()`
        fam = get_adf0()
        psets = [ps.pset for ps in fam]
        trees = [make_tree(ps.pset, g) for ps, g in zip(fam, d["gs"])]
        if not any(n.name == "ADF0" for n in trees[0]):
            trees[0] = gp.PrimitiveTree.from_string("add(ADF0(), ARG0)", psets[0])
        tuples = [(v,) for v in (-2, 0, 3)]
        parts = ["%s %s %s %s %s" % (enc(ps.pset.name), ps.args_tok(), ps.funs_tok(), ps.vars_tok(), ps.nodes_tok(t))
                 for ps, t in zip(fam, trees)]
        line = "C12 adf %s %s" % (tuples_tok(tuples), " ".join(parts))
        a0 = interp(list(trees[1]), psets[1].context, {})
        want = [interp(list(trees[0]), dict(psets[0].context, ADF0=(lambda: a0)), argmap_of(psets[0], t)) for t in tuples]
        try:
            f = gp.compileADF(trees, psets)
            got = [f(*t) for t in tuples]
            orc = None if all(same_value(a, b) for a, b in zip(got, want)) else \
                "compileADF with a zero-argument ADF computes %r, the trees denote %r" % (got, want)
        except TypeError as e:
            orc = "compileADF with a zero-argument ADF: calling the compiled program raises %s" % e
        return Case(d, [line], [",".join(val_tok(v) for v in want)], orc, tag="adf0", nontrivial=True)

    if k == "adf-late":
        # the callable of individual A, called after individual B was compiled against the same sets, must
        # still compute A's trees
        fam = get_adf(1)
        psets = [ps.pset for ps in fam]

        def mk(gs):
            out = []
            for ps, g, cap in zip(fam, gs, ADF_HEIGHT_CAP):
                t = make_tree(ps.pset, g)
                if t.height > cap:
                    t = make_tree(ps.pset, dict(g, mn=0, mx=1, ops=[]))
                out.append(t)
            return out
        A, B = mk(d["gs"][:3]), mk(d["gs"][3:])

        def direct(level, args):
            ps = psets[level]
            ctx = dict(ps.context)
            for j in range(level + 1, len(psets)):
                ctx[psets[j].name] = (lambda jj: (lambda *a: direct(jj, a)))(j)
            return interp(list(A[level]), ctx, argmap_of(ps, args))
        fA = gp.compileADF(A, psets)
        tuples = [(v,) for v in [-2, -1, 0, 1, 2, 3] + [rng.randint(-9, 9) for _ in range(3)]]
        fB = gp.compileADF(B, psets)
        parts = []
        for trees in (A, B):
            for ps, t in zip(fam, trees):
                parts.append("%s %s %s %s %s" % (enc(ps.pset.name), ps.args_tok(), ps.funs_tok(), ps.vars_tok(),
                                                 ps.nodes_tok(t)))
        line = "C12 adfs %s %s" % (tuples_tok(tuples), " ".join(parts))
        exp = ",".join(val_tok(fA(*t)) for t in tuples) + "|" + ",".join(val_tok(fB(*t)) for t in tuples)
        orc = None
        for t in tuples:
            w, v = fA(*t), direct(0, t)
            if not same_value(v, w):
                orc = ("compiled callable of [%s] returns %r at %r after another individual [%s] was compiled; the value "
                       "of its trees is %r" % (" | ".join(map(str, A)), w, t, " | ".join(map(str, B)), v))
                break
        return Case(d, [line], [exp], orc, tag="adf-late", nontrivial=True)

    if k == "twin":
        # the same printed tree compiled against two distinct sets with the same name and vocabulary but different
        # bindings, one after the other: each callable must use ITS set's functions / terminals
        pa, pb = get_ps("u2"), get_ps("u2x")
        if d.get("swap"):
            pa, pb = pb, pa
        ta = make_tree(pa.pset, d["g"])
        s = str(ta)
        tb = gp.PrimitiveTree.from_string(s, pb.pset)
        tuples = arg_tuples(list(pa.pset.ins), rng, cap=10)
        lines, expect, orc = [], [], None
        fa = gp.compile(ta, pa.pset)
        fb = gp.compile(tb, pb.pset)
        for ps, tree, f in ((pa, ta, fa), (pb, tb, fb)):
            got = []
            for tup in tuples:
                v = f(*tup)
                got.append(v)
                want = interp(list(tree), ps.pset.context, argmap_of(ps.pset, tup))
                if not same_value(v, want) and orc is None:
                    orc = "compiled against set %s: %s%r = %r but direct evaluation with that set's bindings gives %r" % (
                        ps.key, s, tup, v, want)
            lines.append("C12 ev %s %s %s %s %s" % (ps.funs_tok(), ps.vars_tok(), ps.args_tok(), ps.nodes_tok(tree),
                                                  tuples_tok(tuples)))
            expect.append(",".join(val_tok(v) for v in got))
        uses = any(n.name in ("max", "three") for n in ta)
        return Case(d, lines, expect, orc, tag="twin/%s" % ("differs" if uses else "same"), nontrivial=uses)

    if k == "text":
        # hand-made strings: tokenizer and from_string type checks (correspondence) — no oracle claim
        ps = get_ps(d["ps"])
        s = d["s"]
        toks = [t for t in re.split("[ \t\n\r\f\v(),]", s) if t != ""]
        lines = ["C12 tokens %s" % enc(s)]
        expect = [",".join(enc(t) for t in toks) if toks else "-"]
        try:
            back = gp.PrimitiveTree.from_string(s, ps.pset)
            exp = ps.nodes_tok(back)
        except (TypeError, SyntaxError, AttributeError):
            exp = "none"
        lines.append("C12 fs %s %s %s %s" % (ps.sub_tok(), ps.mapping_tok(), lit_types(ps), enc(s)))
        expect.append(exp)
        return Case(d, lines, expect, None, tag="text/%s/%s" % (d["ps"], "ok" if exp != "none" else "rejected"),
                    nontrivial=exp != "none")
    raise ValueError(k)


def tree_print_only(ps, tree):
    nodes = ps.nodes_tok(tree)
    s = str(tree)
    lines = ["C12 str %s" % nodes, "C12 fs %s %s %s %s" % (ps.sub_tok(), ps.mapping_tok(), lit_types(ps), enc(s))]
    orc = None
    try:
        back = gp.PrimitiveTree.from_string(s, ps.pset)
        exp = ps.nodes_tok(back)
        if str(back) != s or len(back) != len(tree):
            orc = "from_string(str(t)) differs for the ADF main tree %s" % s
    except Exception as e:  # noqa
        exp = "none"
        orc = "from_string(str(t)) raised %s on %s" % (e, s)
    return lines, [enc(s), exp], orc


# ----------------------------------------------------------------------------------------------
# generate
# ----------------------------------------------------------------------------------------------

OPS = ["cx", "cxlb", "mutu", "mutn", "mute", "muti", "muts"]


def gen_desc(rng, mn, mx, mode, nops=0):
    return {"mode": mode, "mn": mn, "mx": mx, "seed": rng.randrange(1 << 30),
            "ops": [rng.choice(OPS) for _ in range(nops)]}


def mutate_text(rng, s):
    """decorate a printed tree with extra separators / break it"""
    r = rng.random()
    if r < 0.35:
        return "".join(c + (rng.choice([" ", "\t", "\n", "  ", "\r", "\f", "\v"]) if c in "(,)" and rng.random() < 0.5 else "") for c in s)
    if r < 0.5:
        return s.replace(", ", ",")
    toks = re.split("([ (),])", s)
    words = [i for i, t in enumerate(toks) if t not in ("", " ", "(", ")", ",")]
    if not words:
        return s
    i = rng.choice(words)
    toks[i] = rng.choice(["foo", "1", "0.5", "True", "-7", "2.50", "007", "x", "ARG0", "1.", toks[rng.choice(words)]])
    return "".join(toks)


def generate(tier, rng, mult):
    thorough = tier == "thorough"
    # every set x generator x every min <= max in 0..6 (sizes capped inside make_tree)
    for key in PSNAMES:
        for mn in range(0, 7):
            for mx in range(mn, 7):
                for mode in ("full", "grow", "half"):
                    if mode != "grow" and mx >= 5 and not thorough and rng.random() < 0.5:
                        continue
                    for _ in range(2 if thorough else 1):
                        yield {"k": "tree", "ps": key, "g": gen_desc(rng, mn, mx, mode), "seed": rng.randrange(1 << 30)}
    for _ in range((2000 if thorough else 150) * mult):
        yield {"k": "adf0", "gs": [gen_desc(rng, 1, 2, "full"), gen_desc(rng, 0, 2, "half")],
               "seed": rng.randrange(1 << 30)}
    for _ in range((3000 if thorough else 150) * mult):
        gs = [gen_desc(rng, rng.randint(0, 2), 2, rng.choice(["full", "grow", "half"])) for _ in range(6)]
        yield {"k": "adf-late", "gs": gs, "seed": rng.randrange(1 << 30)}
    for _ in range((3000 if thorough else 200) * mult):
        mx = rng.choice([1, 2, 2, 3, 4])
        yield {"k": "twin", "g": gen_desc(rng, rng.randint(0, mx), mx, rng.choice(["full", "grow", "half"]),
                                          nops=rng.choice([0, 0, 1, 2])),
               "swap": rng.random() < 0.5, "seed": rng.randrange(1 << 30)}
    n = (120000 if thorough else 4000) * mult
    for i in range(n):
        r = rng.random()
        if r < 0.55:
            key = rng.choice(PSNAMES)
            mx = rng.choice([0, 1, 2, 2, 3, 3, 4, 5, 6])
            mn = rng.randint(0, mx)
            yield {"k": "tree", "ps": key, "g": gen_desc(rng, mn, mx, rng.choice(["full", "grow", "half"]),
                                                          nops=rng.choice([0, 1, 1, 2, 3, 5])),
                   "seed": rng.randrange(1 << 30)}
        elif r < 0.75:
            gs = []
            for _ in range(3):
                mx = rng.choice([0, 1, 2, 2, 3, 4])
                gs.append(gen_desc(rng, rng.randint(0, mx), mx, rng.choice(["full", "grow", "half"]),
                                   nops=rng.choice([0, 0, 1, 2])))
            yield {"k": "adf", "gs": gs, "nmain": rng.choice([1, 1, 0]), "seed": rng.randrange(1 << 30)}
        else:
            key = rng.choice(PSNAMES)
            ps = get_ps(key)
            mx = rng.choice([0, 1, 2, 3])
            t = make_tree(ps.pset, gen_desc(rng, 0, mx, "half"))
            yield {"k": "text", "ps": key, "s": mutate_text(rng, str(t))}


def shrink(d):
    def smaller(g):
        if g.get("ops"):
            for i in range(len(g["ops"])):
                h = dict(g)
                h["ops"] = g["ops"][:i] + g["ops"][i + 1:]
                yield h
        for key in ("mx", "mn"):
            if g[key] > 0:
                h = dict(g)
                h[key] = g[key] - 1
                h["mn"] = min(h["mn"], h["mx"])
                yield h
    if d["k"] == "tree":
        for h in smaller(d["g"]):
            e = dict(d)
            e["g"] = h
            yield e
    if d["k"] == "twin":
        for h in smaller(d["g"]):
            e = dict(d)
            e["g"] = h
            yield e
    if d["k"] in ("adf", "adf-late"):
        for i, g in enumerate(d["gs"]):
            for h in smaller(g):
                e = dict(d)
                e["gs"] = d["gs"][:i] + [h] + d["gs"][i + 1:]
                yield e
    if d["k"] == "text" and len(d["s"]) > 1:
        for i in range(len(d["s"])):
            e = dict(d)
            e["s"] = d["s"][:i] + d["s"][i + 1:]
            yield e


def classify(desc, msg, known):
    return None
