"""C08 — HallOfFame and ParetoFront always equal the best of everything seen (deap/tools/support.py).

A case is a script of events on one archive that starts empty:
  ["u", [[slot, genome, values], ...]]   update(population); `slot` names a Python object that is
                                         created on first use and *modified in place* when it is
                                         submitted again with another content
  ["i", [slot, genome, values]]          insert(ind)            (api stream only)
  ["r", index]                           remove(index)          (api stream only)
  ["c"]                                  clear()                (api stream only)
Individuals are `creator` classes derived from `list` with a fitness, a class-declared mutable
attribute `strategy` (a list), a dict attribute `meta` and a scalar attribute `age`, all functions of
the genome; with `"nest": true` the genome [g0, g1, …] is held as the nested list [[g0], [g1, …]];
`"cont": "set"|"dict"` builds set-/dict-based individuals (genome = elements / k1,v1,k2,v2,… in insertion
order; the model sees the canonical sorted form); `"ctor"` is the call form of the constructor
(`pos`: HallOfFame(m, op) / ParetoFront(op); `kw`: similar=op; `kwall`: maxsize=m, similar=op).
After every event every object submitted so far is modified in place at every level (inner genome
lists, strategy, meta, fitness, then the outer list), and the archive must not notice.

streams:  main   the hypotheses of the reading hold (similarity reflexive + symmetric, hall of fame: an
                 equivalence with equal fitness inside a class): model == implementation and the whole
                 statement as oracle on the real archive
          viol   hypotheses violated (non-transitive / non-symmetric / irreflexive similarity, equal
                 genomes with different fitness): model == implementation and every clause that does not
                 need the violated hypothesis (size, order, mirror, copies; pairwise dissimilar / no twins
                 for symmetric similarities; all-kept-while-room for equivalences; antichain always)
          api    insert / remove (any index) / clear interleaved with updates: model == implementation
          heap   ("heap": true; fam heap) a main-stream history replayed through the HEAP-LEVEL model
                 (lean/DeapModel/Core/ArchiveHeap.lean: members are object graphs, insert = deepcopy): the caller's objects are
                 mirrored into the model's heap (harness/props/c08_heap.py), the in-place modifications after every update
                 ("mods": a random selection of [op, slot, a, b] on submitted objects - gene / inner-list edits, strategy, a new
                 strategy object, meta, age, fitness.values = ..., del fitness.values, a new Fitness object, a re-filled genome -
                 or, without "mods", the all-levels clobber of every submitted object) reach the model as write / alloc events,
                 and members and keys are compared after every update AND after every round of modifications
families: exh (all short histories of four small universes), rand, neartie (fitnesses a few 2^-40 apart),
          magnitude (values around 2^70 whose sums absorb small differences), bigbatch (populations of
          11-40 with many duplicates), wide (capacity 16-40 / Pareto fronts of >= 16 with ties on the
          first objective), container (set / dict individuals, equal sets in different insertion orders, dicts
          with equal keys), large (fam "large": Pareto archives of 16..129 members on a trade-off line with ties / duplicates,
          2-4 objectives of mixed weights, met by batches in which one individual dominates 16/17/32/33/64/65/128/129
          members (or all, or few) and is preceded / followed in the SAME batch by dominated, in-between, equal, twin and
          incomparable individuals, the batch cut into updates at random places; halls of fame of capacity 16..200 filled
          to m-1 / m / beyond and then hit by bulk evictions of 16..129 members; the statement recomputed by brute force
          from the full log (oracle_pf_large / oracle_hof_large: the same clauses as oracle_pf / oracle_hof, vectorised))
"""
import itertools
import operator
from fractions import Fraction as Fr

from lib import Case
from deap import base, creator, tools
from props import c08_heap as HP

ANCHORS = [("deap/tools/support.py", ["HallOfFame", "ParetoFront"])]
LEVEL = "proof"
RULE = ("exhaustive: every history of <=3 batches of <=2 individuals from 4 universes of 6 (quick tier: <=2 batches "
        "from all 6 and <=3 batches from 3 of them) incl. equal fitness with different genomes and similar-but-different genomes, "
        "1 and 2 objectives with mixed weight signs, capacity 1..3, HallOfFame and ParetoFront; random: 1-4 "
        "objectives, <=6 batches of <=5, empty batches, re-submission and in-place modification of submitted "
        "objects, 7 similarity operators; near-tie fitnesses (2^-40 apart), magnitudes 2^70, populations of 11-40 with "
        "duplicates, capacities 16-40 with first-objective ties; LARGE archives (144 quick / 1440 thorough histories + 16 fixed ones): Pareto fronts of 16..129 members "
        "(both sides of 16/17, 32/33, 64/65, 128/129) with one individual dominating 16..129 members at once followed / preceded in the same batch by "
        "dominated, in-between, equal-fitness, twin and incomparable individuals, halls of fame of capacity 16..200 with bulk evictions; flat and nested genomes, set- and dict-based individuals, "
        "mutable attributes; every call form of the constructors (positional / keyword similarity); heap stream: 1500 (quick) histories "
        "with in-place modifications of submitted objects at every level between the updates, replayed through the heap-level model "
        "(list individuals flat / nested, set individuals), members as identity-free terms and keys compared after every update and after every round of modifications. "
        "Non-trivial = distinct case with at least two non-empty updates (or an api script with >= 2 events)")
EXHAUSTIVE = {"quick": False, "thorough": True}
TIME_BUDGET = {"quick": 55, "thorough": 840}
MIN_CASES = 5000
TRUSTED = ["translator tie: the renderer harness/py2lean_c08.py (its docstring states every rendering rule: methods as state-passing definitions, "
           "exceptions as Option, for / break / continue / for-else as G8.forLoop, Python index arithmetic in Int, deepcopy as the model's copy parameter, "
           "bisect_right as Archive.bisectRight, rich comparisons / dominates as the C01 model) and lean/DeapModel/Core/GenPreludeC08.lean are trusted; 9 methods of "
           "HallOfFame / ParetoFront are regenerated from the current source on every run and kernel-checked equal to Core/Archive.lean (GenEq/C08.lean.tmpl, 10 theorems, "
           "for every state with len(keys) = len(items)); __init__ (keyword default) and __str__ are refused and listed",
           "bisect.bisect_right (C implementation) runs the loop of Lib/bisect.py that Core/Archive.lean transcribes "
           "(binary search; proved equal to the linear scan on the always-ascending key list: C08L.bisectRight_eq)",
           "copy.deepcopy: in the pure model (Core/Archive.lean) the deep copy is an object with a fresh id and the same genome/fitness; in the "
           "heap-level model (Core/ArchiveHeap.lean) it is Heap.clone, the model of copy.deepcopy with DEAP's hooks proved faithful and disjoint for C16 "
           "(C16.clone_equal / clone_disjoint); that CPython dispatches deepcopy of the individuals used here (creator classes on list / set with a Fitness, "
           "a class-declared list attribute, dict / list / scalar instance attributes) to those hooks is checked by the heap stream of this harness "
           "(members compared as whole object graphs, any sharing with a caller object visible) and by C16's own correspondence",
           "the similarity callable is a pure function of the two individuals' genome and fitness",
           "IEEE-754: value*weight of the dyadic inputs used (small, near-tie 2^-40, magnitude 2^70) is exact, so the Rat "
           "model and the float implementation agree"]
ASSUMPTIONS = ["capacity m >= 1 (m = 0 raises IndexError on the first non-empty update; modelled and compared, outside the statement)",
               "reading of 'distinct' (DESIGN.md section 6): similarity is reflexive, symmetric and ignores object identity, "
               "and for the hall-of-fame clause 'no distinct individual shown is strictly better than the worst member' "
               "similar individuals carry equal fitness (deterministic evaluation); C08.best_of_seen_needs_fit exhibits the "
               "history (an individual re-evaluated in place to a better fitness and shown again is rejected as similar to its "
               "old copy) on which the clause fails without it - DEAP's documented design, not counted as a finding",
               "for the Pareto archive 'distinct' = not (equal fitness and similar); all fitnesses shown to one Pareto archive "
               "have the same number of objectives; no NaN",
               "heap-level theorems (deep-copy clause): submitted individuals are acyclic object graphs within the recursion bound that meet the side "
               "conditions of DEAP's copy hooks (C16 CopyOK) and carry their fitness as an instance attribute; the similarity callable is a function of "
               "the two individuals' pure values and fitnesses; the caller holds no reference into the archive's own copies (writes go through the "
               "caller's objects - 'changes to the populations' - not through hof[i])"]
EXPLANATION = ("Theorems C08.* are proved for every history (list of batches), every capacity >= 1, every genome type and "
               "every linearly ordered scalar type, each clause under exactly the hypotheses it needs (SimSym / SimBase / "
               "SimHyp / equal numbers of objectives); the correspondence ties Core/Archive.lean to deap.tools.HallOfFame / "
               "ParetoFront after every update of every history explored, and the statement is evaluated on the real archive. "
               "The deep-copy clause ('as deep copies unaffected by later changes to the populations') is proved for the heap-level "
               "model Core/ArchiveHeap.lean, whose insert is C16's model of copy.deepcopy: C08.hof_/pf_members_fresh (members reach only "
               "objects allocated by the archive's own deepcopy calls, or immutable ones; nothing shared with any submitted individual or "
               "another member), C08.hof_/pf_unaffected_by_writes (no sequence of writes through the caller's objects, interleaved with "
               "further updates, changes what a member denotes; keys are the members' own fitness objects), C08.heap_hof_/heap_pf_refines "
               "(the heap-level archive denotes the pure archive run on the individuals as they were when shown, so every other C08 theorem "
               "transfers: heap_hof_best_of_seen, heap_pf_exact, ...).  The heap stream ties that model to the real objects: the caller's "
               "object graph is mirrored into the model's heap, every in-place modification reaches the model as a write, and members "
               "(whole object graphs) and keys are compared after every update and after every round of modifications; in the other streams "
               "the oracle modifies every submitted object at every level after every event and compares class, nested genome, fitness and attributes.")

BASE = 1000000

# similarity operators: name -> (reflexive, symmetric, equivalence)
SIM_PROPS = {"eq": (True, True, True), "fit": (True, True, True), "always": (True, True, True),
             "never": (False, True, False), "lt": (False, False, False)}


def translate(repo):
    """translator tie (lib._translated_obligations): Lean definitions regenerated from `repo`'s current deap/tools/support.py
    (HallOfFame / ParetoFront) + the committed theorems `Gen08.<Class>_<method> = <model>` of lean/DeapModel/GenEq/C08.lean.tmpl"""
    from props import c08_translate
    import json
    import os
    import lib
    tr = c08_translate.translate(repo)
    try:
        os.makedirs(os.path.join(lib.OUT, "evidence"), exist_ok=True)
        with open(os.path.join(lib.OUT, "evidence", "C08.translated.json"), "w") as fh:
            json.dump({"definitions": len(tr["definitions"]), "theorems": len(tr["theorems"]),
                       "refused": len(tr["refused"]), "problems": tr["problems"],
                       "methods": [dict(name=n, status=st, detail=d) for n, st, d in tr.get("table", [])],
                       "theorem_names": tr["theorems"]}, fh, indent=1)
            fh.write("\n")
    except OSError:
        pass
    return tr


def sim_props(name):
    if name in SIM_PROPS:
        return SIM_PROPS[name]
    if name.startswith("mod"):
        return (True, True, True)
    if name.startswith("near"):
        return (True, True, False)
    raise ValueError(name)


_sfc, _flc = {}, {}


def sfr(q):
    r = _sfc.get(q)
    if r is None:
        f = Fr(q)
        r = _sfc[q] = str(f.numerator) if f.denominator == 1 else "%d/%d" % (f.numerator, f.denominator)
    return r


def fl(v):
    """the double denoted by a rational token"""
    r = _flc.get(v)
    if r is None:
        r = _flc[v] = float(Fr(v))
    return r


def slist(xs):
    xs = list(xs)
    return ",".join(sfr(x) for x in xs) if xs else "-"


def ilist(xs):
    xs = list(xs)
    return ",".join(str(int(x)) for x in xs) if xs else "-"


_classes = {}


CONTAINERS = {"list": list, "set": set, "dict": dict}


def classes_for(weights, container="list"):
    key = (tuple(weights), container)
    if key not in _classes:
        n = len(_classes)
        fname, iname = "C08Fit%d" % n, "C08Ind%d" % n
        creator.create(fname, base.Fitness, weights=tuple(fl(w) for w in weights))
        creator.create(iname, CONTAINERS[container], fitness=getattr(creator, fname), strategy=list)
        _classes[key] = getattr(creator, iname)
    return _classes[key]


def canon_desc(container, genome):
    """canonical int list of a described genome: the protocol / model genome.  `genome` lists the elements in
    insertion order (set: elements; dict: k1, v1, k2, v2, ...)"""
    if container == "set":
        return sorted(set(genome))
    if container == "dict":
        dd = {}
        for k, v in zip(genome[0::2], genome[1::2]):
            dd[k] = v
        return [x for k in sorted(dd) for x in (k, dd[k])]
    return list(genome)


def canon(ind):
    """canonical int list of a live individual (list: flattened; set: sorted; dict: sorted items)"""
    if isinstance(ind, set):
        return sorted(ind)
    if isinstance(ind, dict):
        return [x for k in sorted(ind) for x in (k, ind[k])]
    return flat(ind)


def fill(o, container, genome, nested):
    """(re)build the content of `o` in place, inserting in the described order"""
    if container == "set":
        o.clear()
        for e in genome:
            o.add(e)
    elif container == "dict":
        o.clear()
        for k, v in zip(genome[0::2], genome[1::2]):
            o[k] = v
    else:
        o[:] = nest(genome) if nested else list(genome)


def nest(genome):
    """injective nested representation of a flat genome: [[g0], [g1, ...]]"""
    return [list(genome[:1]), list(genome[1:])]


def flat(ind):
    out = []
    for x in ind:
        if isinstance(x, list):
            out.extend(x)
        else:
            out.append(x)
    return out


def strat_of(genome):
    return [sum(genome) / 2.0, float(len(genome)), 0.25]


def age_of(genome):
    return 3 * sum(genome) + 1


def meta_of(genome):
    return {"g": list(genome), "tags": ["t%d" % len(genome)]}


def gsum(ind):
    return sum(canon(ind))


def sim_fun(name):
    """the callable handed to DEAP (works on individuals)"""
    if name == "eq":
        return operator.eq                      # the default of HallOfFame / ParetoFront
    if name == "fit":
        return lambda a, b: a.fitness == b.fitness
    if name == "never":
        return lambda a, b: False
    if name == "always":
        return lambda a, b: True
    if name == "lt":
        return lambda a, b: gsum(a) < gsum(b)
    if name.startswith("mod"):
        k = int(name[3:])
        return lambda a, b: gsum(a) % k == gsum(b) % k
    if name.startswith("near"):
        d = int(name[4:])
        return lambda a, b: abs(gsum(a) - gsum(b)) <= d
    raise ValueError(name)


def sim_content(name):
    """the same relation on recorded contents (genome tuple, weighted values) — used by the oracle"""
    if name == "eq":
        return lambda a, b: a[0] == b[0]
    if name == "fit":
        return lambda a, b: a[1] == b[1]
    if name == "never":
        return lambda a, b: False
    if name == "always":
        return lambda a, b: True
    if name == "lt":
        return lambda a, b: sum(a[0]) < sum(b[0])
    if name.startswith("mod"):
        k = int(name[3:])
        return lambda a, b: sum(a[0]) % k == sum(b[0]) % k
    if name.startswith("near"):
        d = int(name[4:])
        return lambda a, b: abs(sum(a[0]) - sum(b[0])) <= d
    raise ValueError(name)


def class_key(name, genome, wv):
    """canonical representative of the similarity class (equivalence similarities only)"""
    if name == "eq":
        return tuple(genome)
    if name == "fit":
        return tuple(wv)
    if name == "always":
        return 0
    if name.startswith("mod"):
        return sum(genome) % int(name[3:])
    return None


_frc, _wvc = {}, {}


def _fr(x):
    q = _frc.get(x)
    if q is None:
        q = _frc[x] = Fr(x)
    return q


def wvals(weights, values):
    key = (tuple(weights), tuple(values))
    r = _wvc.get(key)
    if r is None:
        r = _wvc[key] = tuple(Fr(v) * Fr(w) for v, w in zip(values, weights))
    return r


def exact(t):
    return tuple(_fr(x) for x in t)


def dominates(a, b):
    return all(x >= y for x, y in zip(a, b)) and any(x > y for x, y in zip(a, b))


def ind_token(slot, genome, wv):
    return "%d:%s:%s" % (slot, ilist(genome), slist(wv))


def state_token(arch, submitted_ids):
    items = []
    for it in arch.items:
        fresh = id(it) not in submitted_ids
        items.append("%s:%s:%s" % (ilist(canon(it)), slist(exact(it.fitness.wvalues)), "f" if fresh else "s"))
    keys = [slist(exact(k.wvalues)) for k in arch.keys]
    return "%s#%s" % (";".join(items) if items else "-", ";".join(keys) if keys else "-")


def content(arch):
    """(flat genome, weighted values) of the members, and the keys"""
    return [(tuple(canon(it)), exact(it.fitness.wvalues)) for it in arch.items], [exact(k.wvalues) for k in arch.keys]


def deep_snapshot(arch):
    """everything observable about the members, at every level"""
    return ([(type(it).__name__, repr(canon(it)) + repr(list(it) if isinstance(it, list) else None), exact(it.fitness.wvalues), repr(getattr(it, "strategy", None)),
              repr(getattr(it, "age", None)), repr(getattr(it, "meta", None))) for it in arch.items],
            [exact(k.wvalues) for k in arch.keys])


def structural(arch, m, kind, shown_contents):
    """clauses that hold without any hypothesis on the similarity operator"""
    items, keys = content(arch)
    n = len(items)
    if len(arch) != n or len(keys) != n:
        return "len(archive)=%d, %d items, %d keys" % (len(arch), n, len(keys))
    for j in range(n):
        if keys[j] != items[n - 1 - j][1]:
            return "parallel lists drifted: keys[%d]=%s but items[%d].fitness=%s" % (j, keys[j], n - 1 - j, items[n - 1 - j][1])
    if [x for x in arch] != arch.items or any(arch[i] is not arch.items[i] for i in range(n)) \
            or list(reversed(arch)) != arch.items[::-1]:
        return "iteration/indexing disagree with items"
    for i in range(n - 1):
        if items[i][1] < items[i + 1][1]:
            return "not best-first: item %d %s < item %d %s" % (i, items[i][1], i + 1, items[i + 1][1])
    if kind == "hof" and n > m:
        return "size %d exceeds capacity %d" % (n, m)
    for g, w in items:
        if (g, w) not in shown_contents:
            return "member (%s,%s) was never shown" % (g, w)
    if len(set(id(it) for it in arch.items)) != n:
        return "two members are the same object"
    return None


def copies(arch, IndC, nested, submitted):
    """members are deep copies: class, nested genome shape and attributes of the submitted individual,
    no identity shared with a submitted object at any level"""
    sub_ids = set()
    for s in submitted.values():
        sub_ids.add(id(s))
        sub_ids.add(id(s.fitness))
        sub_ids.add(id(getattr(s, "strategy", None)))
        sub_ids.add(id(getattr(s, "meta", None)))
        for x in s:
            if isinstance(x, list):
                sub_ids.add(id(x))
    sub_ids.discard(id(None))
    for it in arch.items:
        g = canon(it)
        if type(it) is not IndC:
            return "member has class %s, the submitted individual %s" % (type(it).__name__, IndC.__name__)
        if isinstance(it, list) and list(it) != (nest(g) if nested else g):
            return "member genome %r does not have the shape of the submitted genome" % (list(it),)
        if getattr(it, "strategy", None) != strat_of(g) or getattr(it, "age", None) != age_of(g) \
                or getattr(it, "meta", None) != meta_of(g):
            return "member attributes (strategy=%r age=%r meta=%r) differ from the submitted individual's" % (
                getattr(it, "strategy", None), getattr(it, "age", None), getattr(it, "meta", None))
        parts = [it, it.fitness, it.strategy, it.meta] + [x for x in it if isinstance(x, list)]
        if any(id(p) in sub_ids for p in parts):
            return "a member is (or shares a mutable part with) a submitted object, not a deep copy"
    return None


def oracle_hof(arch, m, sim, shown, fit_ok):
    """the hall-of-fame clauses, each only when the similarity has the properties its theorem needs"""
    refl, symm, equiv = sim_props(sim)
    simc = sim_content(sim)
    items, _ = content(arch)
    n = len(items)
    if symm:
        for i in range(n):
            for j in range(n):
                if i != j and simc(items[i], items[j]):
                    return "members %d and %d are similar" % (i, j)
    if equiv:
        mkeys = set(class_key(sim, g, w) for g, w in items)
        classes = set(class_key(sim, g, w) for g, w in shown)
        if len(classes) <= m and classes != mkeys:
            return "only %d distinct individuals were shown (capacity %d) but not all are kept" % (len(classes), m)
    if fit_ok and refl and symm:
        for x in shown:
            if not any(simc(x, it) for it in items):
                if n != m:
                    return "shown individual %s is not represented although the archive holds %d < %d" % (x, n, m)
                if x[1] > items[-1][1]:
                    return "shown individual %s is strictly better than the worst member %s and not represented" % (x, items[-1][1])
    return None


def oracle_pf(arch, sim, shown):
    refl, symm, equiv = sim_props(sim)
    simc = sim_content(sim)
    items, _ = content(arch)
    for _, a in items:
        for _, b in items:
            if dominates(a, b):
                return "member %s dominates member %s" % (a, b)
    if symm:
        for i in range(len(items)):
            for j in range(len(items)):
                if i != j and items[i][1] == items[j][1] and simc(items[i], items[j]):
                    return "members %d and %d are twins (equal fitness and similar)" % (i, j)
    if refl and symm:
        allw = set(w for _, w in shown)
        nondom = set(w for w in allw if not any(dominates(y, w) for y in allw))
        for g, w in items:
            if w not in nondom:
                return "member (%s,%s) is dominated by a fitness that was shown" % (g, w)
        for x in set(shown):
            if x[1] in nondom and not any(it[1] == x[1] and simc(x, it) for it in items):
                return "shown non-dominated individual %s has no member with equal fitness similar to it" % (x,)
    return None


def evaluate(d):
    kind, m, sim, stream = d["k"], d["m"], d["sim"], d["stream"]
    nested = bool(d.get("nest"))
    w = tuple(d["w"])
    container = d.get("cont", "list")
    IndC = classes_for(d["w"], container)
    simf = sim_fun(sim)
    # every documented call form of the constructors: HallOfFame(maxsize, similar=eq), ParetoFront(similar=eq)
    ctor = d.get("ctor", "kw")
    if sim == "eq" and d.get("default_sim"):
        arch = (tools.HallOfFame(m) if ctor != "kwall" else tools.HallOfFame(maxsize=m)) if kind == "hof" \
            else tools.ParetoFront()
    elif ctor == "pos":
        arch = tools.HallOfFame(m, simf) if kind == "hof" else tools.ParetoFront(simf)
    elif ctor == "kwall":
        arch = tools.HallOfFame(maxsize=m, similar=simf) if kind == "hof" else tools.ParetoFront(similar=simf)
    else:
        arch = tools.HallOfFame(m, similar=simf) if kind == "hof" else tools.ParetoFront(similar=simf)
    heap = bool(d.get("heap"))
    hw = HP.World(IndC) if heap else None     # heap stream: the caller's objects mirrored into the model's heap
    mods = d.get("mods")
    objs = {}             # slot -> live Python object
    submitted = {}        # id(obj) -> obj, everything ever handed to the archive
    shown = []            # contents (genome, wvalues) shown so far
    shown_set = set()
    toks, exp = [], []
    orc = None
    flags = set()
    n_upd = 0

    def materialise(entry):
        slot, genome, values = entry
        vals = tuple(fl(v) for v in values)
        if slot in objs:
            o = objs[slot]                          # in-place modification of a submitted object
            flags.add("resub")
        else:
            o = IndC()
            objs[slot] = o
        fill(o, container, genome, nested)
        cg = canon_desc(container, genome)
        o.fitness.values = vals
        o.strategy[:] = strat_of(cg)
        o.age = age_of(cg)
        o.meta = meta_of(cg)
        wv = exact(o.fitness.wvalues)
        if wv != wvals(w, values):
            raise AssertionError("inexact weighted values")
        return o, wv

    after = []
    for evno, ev in enumerate(d["ev"]):
        op = ev[0]
        if heap and op != "u":
            raise ValueError("the heap stream replays updates only")
        before = after
        try:
            if op == "u":
                pop, ptoks = [], []
                for entry in ev[1]:
                    o, wv = materialise(entry)
                    pop.append(o)
                    cg = tuple(canon_desc(container, entry[1]))
                    ptoks.append(ind_token(entry[0], cg, wv))
                    shown.append((cg, wv))
                    shown_set.add((cg, wv))
                if heap:
                    toks.extend(hw.sync(list(objs.values())))
                    toks.append(hw.update_token(pop))
                else:
                    toks.append("u=" + (";".join(ptoks) if ptoks else "-"))
                for o in pop:
                    submitted[id(o)] = o
                arch.update(pop)
                n_upd += 1 if pop else 0
            elif op == "i":
                o, wv = materialise(ev[1])
                cg = tuple(canon_desc(container, ev[1][1]))
                toks.append("i=" + ind_token(ev[1][0], cg, wv))
                shown.append((cg, wv))
                shown_set.add((cg, wv))
                submitted[id(o)] = o
                arch.insert(o)
            elif op == "r":
                toks.append("r=%d" % ev[1])
                arch.remove(ev[1])
            elif op == "c":
                toks.append("c")
                arch.clear()
            else:
                raise ValueError(op)
        except (IndexError, ZeroDivisionError) as e:
            exp.append("raise")
            flags.add("raise")
            if (m >= 1 or kind == "pf") and stream != "api" and orc is None:
                orc = "update raised %s: %s" % (type(e).__name__, e)
            break
        exp.append(hw.state(arch) if heap else state_token(arch, submitted))
        after = content(arch)[0]
        # ---- oracle on the real archive
        if orc is None and stream != "api":
            orc = structural(arch, m, kind, shown_set)
        if orc is None:
            orc = copies(arch, IndC, nested, submitted)
        # deep copies: modify every submitted object in place at every level; the archive must not change
        snap = deep_snapshot(arch)
        if mods is not None:
            # heap stream: the modifications the case describes (any level, any subset of the submitted objects)
            for mod in (mods[evno] if evno < len(mods) else []):
                o = objs.get(mod[1])
                if o is not None and id(o) in submitted:
                    HP.apply_mod(o, mod, container, nested, fill)
        for o in (submitted.values() if mods is None else ()):
            if container == "set":
                o.add(-991)
            elif container == "dict":
                o[-991] = 5
                for k in list(o):
                    o[k] = -7
            for x in (o if container == "list" else ()):
                if isinstance(x, list):
                    x.append(991)
                    x[0] = -991
            o.strategy.append(-1.0)
            o.strategy[0] = 123.0
            o.meta["g"] = "clobbered"
            o.meta["tags"].append("clobbered")
            o.age = -1
            o.fitness.values = tuple(-5.0 if x > 0 else 5.0 for x in o.fitness.weights)
            fill(o, container, [77, -77, 7, 7], nested)
        if heap:
            # the model is told what happened to the caller's objects and predicts the archive after it
            toks.extend(hw.sync(list(objs.values())))
            toks.append("q")
            exp.append(hw.state(arch))
        if orc is None and deep_snapshot(arch) != snap:
            orc = "archive content changed when the submitted individuals were modified in place"
        if orc is None and stream in ("main", "viol") and op == "u":
            large = d.get("fam") == "large" and stream == "main"
            if kind == "hof":
                orc = oracle_hof_large(arch, m, sim, shown) if large and sim_props(sim)[2] \
                    else oracle_hof(arch, m, sim, shown, fit_ok=(stream == "main"))
            else:
                orc = oracle_pf_large(arch, sim, shown) if large else oracle_pf(arch, sim, shown)
        # ---- branch tags
        if op == "u":
            gone = [x for x in before if x not in after]
            if len(after) < len(before) and kind == "pf":
                flags.add("shrink")
            if len(gone) >= 2:
                flags.add("multi-removal")
            elif gone:
                flags.add("evict")
            if kind == "hof" and len(after) == m:
                flags.add("full")
            if len(after) >= 16:
                flags.add("len>=16")
            if len(gone) > 16:
                flags.add("gone>16")
            ins = [x for x in after if x not in before]
            if len(ins) < len(set((tuple(canon_desc(container, e[1])), wvals(w, e[2])) for e in ev[1])):
                flags.add("reject")
            if not ev[1]:
                flags.add("empty-batch")
            if len(ev[1]) > 10:
                flags.add("batch>10")
    line = hw.line(kind, m, sim, container, toks) if heap else "C08 %s %d %s %s" % (kind, m, sim, " ".join(toks))
    tag = "%s/%s/%s/%s/%s/%s/%s" % (kind, stream, d.get("fam", "exh"), sim, container,
                                    "default" if d.get("default_sim") and sim == "eq" else ctor,
                                    "+".join(sorted(flags)) or "plain")
    nontrivial = (n_upd >= 2) or (stream == "api" and len(d["ev"]) >= 2)
    return Case(d, [line], [" ".join(exp)], orc, tag=tag, nontrivial=nontrivial)


# ----------------------------------------------------------------------------------------
# generators
# ----------------------------------------------------------------------------------------

# universe A: one objective, minimised; sim = eq; [0],[1] equal fitness / different genomes, [2],[1,1] likewise
UA = {"w": ["-1"], "sim": "eq",
      "inds": [([0], ["1"]), ([1], ["1"]), ([2], ["2"]), ([3], ["0"]), ([1, 1], ["2"]), ([4], ["3"])]}
# universe B: two objectives (max, min); [4] dominates everything, [2] and [3] dominate [0],[1]; [1,1] incomparable
UB = {"w": ["1", "-1"], "sim": "eq",
      "inds": [([0], ["1", "1"]), ([1], ["1", "1"]), ([2], ["2", "1"]), ([3], ["1", "0"]), ([1, 1], ["2", "2"]), ([4], ["3", "0"])]}
# universe C: similarity = genome sum modulo 3, fitness a function of the class; different genomes are similar
UC = {"w": ["2", "-1/2"], "sim": "mod3",
      "inds": [([0], ["1", "2"]), ([3], ["1", "2"]), ([1], ["1", "2"]), ([2, 2], ["1", "2"]), ([2], ["0", "4"]), ([1, 4], ["0", "4"])]}
# universe D: one objective maximised, weight 2; similarity = equal fitness
UD = {"w": ["2"], "sim": "fit",
      "inds": [([0], ["1"]), ([1], ["1"]), ([2], ["2"]), ([3], ["0"]), ([1, 1], ["2"]), ([4], ["3"])]}


def histories(inds, nb, bs):
    """all histories of exactly nb batches of <= bs individuals (indices into inds)"""
    batches = [()]
    for k in range(1, bs + 1):
        batches += list(itertools.product(range(len(inds)), repeat=k))
    return itertools.product(batches, repeat=nb)


def mk_case(kind, m, U, hist, stream="main", slots="fresh", default_sim=False, nested=False):
    ev = []
    next_slot = [0]
    by_ind = {}
    for b in hist:
        pop = []
        for i in b:
            g, v = U["inds"][i]
            if slots == "reuse":           # the same object is re-submitted
                s = by_ind.setdefault(i, len(by_ind))
            else:
                s = next_slot[0]
                next_slot[0] += 1
            pop.append([s, list(g), list(v)])
        ev.append(["u", pop])
    d = {"k": kind, "m": m, "sim": U["sim"], "w": list(U["w"]), "stream": stream, "fam": "exh", "ev": ev}
    if default_sim:
        d["default_sim"] = True
    if nested:
        d["nest"] = True
    return d


SUB3 = {"A": [0, 1, 2], "B": [0, 2, 4], "C": [0, 1, 4], "D": [0, 1, 2]}


def gen_exhaustive(tier, rng):
    thorough = tier == "thorough"
    for name, U in (("A", UA), ("B", UB), ("C", UC), ("D", UD)):
        full = U["inds"]
        if thorough:
            plans = [(full, 3, 2)]
        else:
            plans = [(full, 2, 2), ([full[i] for i in SUB3[name]], 3, 2)]
        for inds, nb, bs in plans:
            sub = dict(U, inds=inds)
            for hist in histories(inds, nb, bs):
                for m in (1, 2, 3):
                    yield mk_case("hof", m, sub, hist, slots=rng.choice(["fresh", "reuse"]),
                                  default_sim=(U["sim"] == "eq" and rng.random() < 0.5), nested=rng.random() < 0.3)
                yield mk_case("pf", 0, sub, hist, slots=rng.choice(["fresh", "reuse"]),
                              default_sim=(U["sim"] == "eq" and rng.random() < 0.5), nested=rng.random() < 0.3)


def rand_weight(rng):
    q = Fr(rng.choice([1, 1, 1, 2, 3, 5]), rng.choice([1, 1, 2, 4]))
    return sfr(q if rng.random() < 0.5 else -q)


def pow2_weight(rng):
    q = Fr(rng.choice([1, 1, 2, 4]), rng.choice([1, 1, 2]))
    return sfr(q if rng.random() < 0.5 else -q)


def rand_value(rng, lo=0, hi=3):
    return sfr(Fr(rng.randint(lo * 2, hi * 2), 2) if rng.random() < 0.2 else Fr(rng.randint(lo, hi)))


EPS = Fr(1, 2 ** 40)
BIG = 2 ** 70


def neartie_value(rng):
    return sfr(Fr(rng.randint(0, 2)) + rng.choice([-2, -1, 0, 0, 1, 2]) * EPS)


def build_history(rng, kind, sim, nobj, gpool, value_fn, free, nbatches, sizes, resub=0.35, vector=False):
    """batches drawn from a genome pool; fitness a function of the similarity class unless `free`"""
    table = {}

    def vec():
        return value_fn(rng, None) if vector else [value_fn(rng) for _ in range(nobj)]

    def fitness_of(g):
        if free:
            return vec()
        key = class_key(sim, g, None)
        if key not in table:
            table[key] = vec()
        return table[key]
    ev, nslots = [], 0
    for _ in range(nbatches):
        pop = []
        for _ in range(rng.choice(sizes)):
            g = rng.choice(gpool)
            if nslots and rng.random() < resub:
                s = rng.randrange(nslots)           # re-submission (maybe with a new content, in place)
            else:
                s = nslots
                nslots += 1
            same = [e for e in pop if e[0] == s]    # the same object twice in one population
            pop.append(list(same[0]) if same else [s, list(g), fitness_of(g)])
        ev.append(["u", pop])
    return ev


def small_pool(rng):
    # an empty genome now and then: an individual with len() == 0 is falsy (empty knapsack, empty route)
    return [[rng.randint(-2, 4) for _ in range(rng.choice([1, 1, 2, 3, 0]))] for _ in range(rng.randint(1, 8))]


def gen_random_main(rng, kind, fam="rand"):
    nobj = rng.choice([1, 1, 2, 2, 2, 3, 4])
    sims = ["eq", "eq", "mod2", "mod3", "mod5", "fit", "always"]
    if kind == "pf":
        sims += ["near1", "near2"]              # the Pareto theorems need no transitivity
    sim = rng.choice(sims)
    hi = rng.choice([1, 2, 3, 6])
    value_fn = lambda r: rand_value(r, 0, hi)
    vector = False
    w = [rand_weight(rng) for _ in range(nobj)]
    if fam == "neartie":
        nobj = rng.choice([2, 2, 3])
        w = [pow2_weight(rng) for _ in range(nobj)]
        value_fn = neartie_value
    elif fam == "magnitude":
        # some coordinates of magnitude 2^70 (one or two values per coordinate, fixed for the case), the others
        # small: float sums of the weighted values absorb the small coordinates
        nobj = rng.choice([2, 2, 3, 4])
        w = [rng.choice(["1", "-1"]) for _ in range(nobj)]
        big = [rng.random() < 0.5 for _ in range(nobj)]
        big[rng.randrange(nobj)] = True
        if all(big):
            big[rng.randrange(nobj)] = False
        bigvals = [[rng.choice([BIG, -BIG, 2 * BIG, BIG + 2 ** 20]) for _ in range(rng.choice([1, 1, 2]))] for _ in range(nobj)]
        vector = True
        value_fn = lambda r, _: [sfr(r.choice(bigvals[j])) if big[j] else sfr(r.randint(0, 3)) for j in range(nobj)]
    free = sim == "fit" or (kind == "pf" and (not sim_props(sim)[2] or rng.random() < 0.6))
    m = rng.choice([1, 1, 2, 2, 3, 3, 4, 5, 8]) if kind == "hof" else 0
    ev = build_history(rng, kind, sim, nobj, small_pool(rng), value_fn, free, rng.randint(1, 6),
                       [0, 1, 1, 2, 2, 3, 4, 5], vector=vector)
    return {"k": kind, "m": m, "sim": sim, "w": w, "stream": "main", "fam": fam, "nest": rng.random() < 0.5, "ev": ev}


def gen_bigbatch(rng, kind):
    """populations of 11-40 drawn from few genomes: many duplicates inside one population"""
    nobj = rng.choice([1, 2, 2])
    w = [rand_weight(rng) for _ in range(nobj)]
    sim = rng.choice(["eq", "eq", "mod5", "fit"])
    gpool = [[i] if rng.random() < 0.7 else [i, rng.randint(0, 2)] for i in range(rng.randint(2, 7))]
    m = rng.choice([1, 2, 2, 3, 3, 4, 5]) if kind == "hof" else 0
    free = sim == "fit" or (kind == "pf" and rng.random() < 0.5)
    ev = build_history(rng, kind, sim, nobj, gpool, lambda r: rand_value(r, 0, 6), free, rng.randint(1, 3),
                       [11, 12, 15, 20, 30, 40, 0, 3], resub=0.1)
    return {"k": kind, "m": m, "sim": sim, "w": w, "stream": "main", "fam": "bigbatch", "nest": rng.random() < 0.3, "ev": ev}


def gen_wide(rng, kind):
    """archives of 16-40 members with many ties on the first objective"""
    if kind == "hof":
        nobj = rng.choice([2, 3])
        w = [rand_weight(rng) for _ in range(nobj)]
        a, b, c = rng.randint(1, 9), rng.randint(1, 9), rng.randint(1, 9)
        fit = lambda i: [str(i % 3), str((i * a + c) % 11), str((i * b) % 4)][:nobj]
        m = rng.randint(16, 40)
        universe = list(range(80))
    else:
        nobj = 3
        w = [sfr(Fr(rng.choice([1, 2, 1]), rng.choice([1, 2]))) for _ in range(3)]
        pts = [(x, y, 20 - x - y) for x in range(3) for y in range(13)] + [(0, 0, 0), (1, 1, 1), (2, 5, 5)]
        fit = lambda i: [str(v) for v in pts[i % len(pts)]]
        m = 0
        universe = list(range(len(pts)))
    ev, nslots = [], 0
    for _ in range(rng.randint(3, 5)):
        pop = []
        for i in rng.sample(universe, rng.randint(10, 25)):
            pop.append([nslots, [i], fit(i)])
            nslots += 1
        ev.append(["u", pop])
    return {"k": kind, "m": m, "sim": "eq", "w": w, "stream": "main", "fam": "wide", "default_sim": rng.random() < 0.5, "ev": ev}


def gen_container(rng, kind, container):
    """set- and dict-based individuals (creator classes on `set` as in DEAP's knapsack example, on `dict`):
    equal sets built in different insertion orders (0, 8, 16, 24 collide in a small hash table, so equal sets
    iterate differently), dicts with the same keys and different values"""
    nobj = rng.choice([1, 2])
    w = [rand_weight(rng) for _ in range(nobj)]
    sim = rng.choice(["eq", "eq", "eq", "mod3"])
    if container == "set":
        pool = [rng.sample([0, 8, 16, 24, 1, 5, 3], rng.choice([1, 2, 2, 3])) for _ in range(rng.randint(2, 6))]
        pool.append([])                              # the empty knapsack: a falsy individual
    else:
        keys = rng.choice([[0], [0, 1], [0, 1], [2, 1, 0]])
        pool = [[x for k in keys for x in (k, rng.randint(0, 2))] for _ in range(rng.randint(2, 6))]
        pool.append([x for k in rng.choice([[0], [1, 2]]) for x in (k, rng.randint(0, 2))])
        pool.append([])
    m = rng.choice([1, 2, 2, 3, 3, 4, 6]) if kind == "hof" else 0
    free = kind == "pf" and rng.random() < 0.5
    table = {}
    ev, nslots = [], 0
    for _ in range(rng.randint(1, 5)):
        pop = []
        for _ in range(rng.choice([0, 1, 1, 2, 2, 3, 4])):
            g = list(rng.choice(pool))
            if container == "set":
                rng.shuffle(g)                       # same set, another insertion order
            else:
                pairs = list(zip(g[0::2], g[1::2]))
                rng.shuffle(pairs)
                g = [x for kv in pairs for x in kv]
            key = class_key(sim, canon_desc(container, g), None)
            if free or key not in table:
                vals = [rand_value(rng, 0, 3) for _ in range(nobj)]
                if not free:
                    table[key] = vals
            else:
                vals = table[key]
            if nslots and rng.random() < 0.25:
                s = rng.randrange(nslots)
            else:
                s = nslots
                nslots += 1
            same = [e for e in pop if e[0] == s]
            pop.append(list(same[0]) if same else [s, g, vals])
        ev.append(["u", pop])
    return {"k": kind, "m": m, "sim": sim, "w": w, "stream": "main", "fam": "container", "cont": container,
            "default_sim": rng.random() < 0.7, "ev": ev}


def gen_heap(rng, kind, i):
    """heap stream: a main-stream history (the reading's hypotheses hold, whole statement as oracle) replayed through
    the heap-level model, with in-place modifications of submitted objects at every level after every update:
    3 of 4 cases a random selection of operations on random submitted objects (gene / inner-list edits, strategy edits,
    a new strategy object, meta edits, scalar attribute, fitness re-assignment, fitness deletion, a new Fitness object,
    a re-filled genome), 1 of 4 the all-levels clobber of every submitted object that the other streams apply"""
    if i % 5 == 4:
        d = gen_container(rng, kind, "set")          # fitness a function of the class of the *canonical* genome
    else:
        d = gen_random_main(rng, kind, fam=("neartie" if i % 7 == 6 else "rand"))
        if d["sim"] == "eq":
            d["default_sim"] = rng.random() < 0.5
    d["fam"] = "heap"
    d["heap"] = True
    if i % 4 != 3:
        seen, mods = set(), []
        for ev in d["ev"]:
            seen.update(e[0] for e in ev[1])
            mods.append(HP.gen_mods(rng, len(seen)))
        d["mods"] = mods
    return d


HEAP_CORNERS = [
    # an admitted individual is re-evaluated in place (fitness.values = ...), then a newcomer is ranked against it:
    # the archive's keys must be the copies' fitness objects
    {"k": "hof", "m": 3, "sim": "eq", "w": ["1"], "stream": "main", "fam": "heap", "heap": True, "default_sim": True,
     "ev": [["u", [[0, [1], ["5"]], [1, [2], ["3"]]]], ["u", []], ["u", [[2, [3], ["4"]]]]],
     "mods": [[["fset", 0, 1, 1], ["gset", 0, 9, 0]], [], []]},
    {"k": "pf", "m": 0, "sim": "eq", "w": ["1", "1"], "stream": "main", "fam": "heap", "heap": True, "nest": True,
     "ev": [["u", [[0, [1, 2], ["5", "1"]], [1, [2], ["1", "5"]]]], ["u", [[2, [3], ["3", "3"]]]]],
     "mods": [[["fset", 0, 0, 0], ["fdel", 1, 0, 0], ["refill", 0, 4, 4]], [["fnew", 2, 1, 2], ["snew", 2, 1, 2]]]},
    # the same object shown again after its fitness object was replaced by a new one
    {"k": "hof", "m": 2, "sim": "mod3", "w": ["-1", "2"], "stream": "main", "fam": "heap", "heap": True, "cont": "set",
     "ev": [["u", [[0, [0, 8], ["1", "1"]]]], ["u", [[0, [1], ["0", "2"]], [1, [2, 5], ["2", "0"]]]]],
     "mods": [[["fnew", 0, 1, 3], ["meta", 0, 2, 2], ["age", 0, 5, 0]], [["all", 0, 0, 0]]]},
]


# ----------------------------------------------------------------------------------------
# large archives (fam "large"): Pareto fronts / halls of fame of 16..200 members, bulk domination / bulk eviction
# ----------------------------------------------------------------------------------------

def _dom_matrix(A, B):
    """brute force: M[i, j] = A[i] dominates B[j] (weighted values, maximisation); doubles compare exactly"""
    import numpy as np
    A = np.asarray(A, dtype=float).reshape(len(A), -1)
    B = np.asarray(B, dtype=float).reshape(len(B), -1)
    ge = (A[:, None, :] >= B[None, :, :]).all(-1)
    gt = (A[:, None, :] > B[None, :, :]).any(-1)
    return ge & gt


def oracle_pf_large(arch, sim, shown):
    """the clauses of oracle_pf, recomputed by brute force from the full log of everything shown, with the n^2
    dominance tests vectorised (the weighted values are doubles, compared exactly) and the members indexed by fitness"""
    refl, symm, equiv = sim_props(sim)
    simc = sim_content(sim)
    items, _ = content(arch)
    if items:
        ws = [[float(x) for x in w] for _, w in items]
        M = _dom_matrix(ws, ws)
        if M.any():
            i, j = [int(v[0]) for v in M.nonzero()]
            return "member %s dominates member %s" % (items[i][1], items[j][1])
    by_fit = {}
    for it in items:
        by_fit.setdefault(it[1], []).append(it)
    if symm:
        for group in by_fit.values():
            for i in range(len(group)):
                for j in range(len(group)):
                    if i != j and simc(group[i], group[j]):
                        return "members %s and %s are twins (equal fitness and similar)" % (group[i], group[j])
    if refl and symm:
        allw = sorted(set(w for _, w in shown))
        if allw:
            fl_all = [[float(x) for x in w] for w in allw]
            D = _dom_matrix(fl_all, fl_all)
            dominated = D.any(axis=0)
            nondom = set(w for w, dd in zip(allw, dominated) if not dd)
        else:
            nondom = set()
        for g, w in items:
            if w not in nondom:
                return "member (%s,%s) is dominated by a fitness that was shown" % (g, w)
        for x in set(shown):
            if x[1] in nondom and not any(simc(x, it) for it in by_fit.get(x[1], ())):
                return "shown non-dominated individual %s has no member with equal fitness similar to it" % (x,)
    return None


def oracle_hof_large(arch, m, sim, shown):
    """the clauses of oracle_hof for an EQUIVALENCE similarity with equal fitness inside a class (main stream):
    'similar' is 'same class key', so pairwise dissimilar = distinct keys and represented = key among the members'"""
    refl, symm, equiv = sim_props(sim)
    if not equiv:
        raise ValueError("oracle_hof_large needs an equivalence similarity")
    items, _ = content(arch)
    n = len(items)
    keys = [class_key(sim, g, w) for g, w in items]
    seen = {}
    for i, k in enumerate(keys):
        if k in seen:
            return "members %d and %d are similar" % (seen[k], i)
        seen[k] = i
    classes = set(class_key(sim, g, w) for g, w in shown)
    if len(classes) <= m and classes != set(keys):
        return "only %d distinct individuals were shown (capacity %d) but not all are kept" % (len(classes), m)
    for x in set(shown):
        if class_key(sim, x[0], x[1]) not in seen:
            if n != m:
                return "shown individual %s is not represented although the archive holds %d < %d" % (x, n, m)
            if x[1] > items[-1][1]:
                return "shown individual %s is strictly better than the worst member %s and not represented" % (x, items[-1][1])
    return None


THRESH = [16, 17, 32, 33, 64, 65, 128, 129]
LARGE_W = ["1", "-1", "2", "-2", "1/2", "-1/2", "1", "-1"]


def _unweight(w, wv):
    """the values whose weighted values are wv (weights are +-2^k: exact)"""
    return [sfr(Fr(x) / Fr(q)) for x, q in zip(wv, w)]


def _cut(rng, seq, pieces):
    """cut a list into `pieces` consecutive batches (some possibly empty)"""
    cuts = sorted(rng.randint(0, len(seq)) for _ in range(pieces - 1))
    out, a = [], 0
    for c in cuts + [len(seq)]:
        out.append(seq[a:c])
        a = c
    return out


def gen_large_pf(rng, i):
    """a Pareto archive of S members (S walks through 16/17, 32/33, 64/65, 128/129 and random sizes 17..120) on a
    trade-off line with duplicates of fitness (different genomes: kept) and of individuals (twins: rejected), then
    batches mixing individuals that dominate K members at once (K = 16/17/32/33/64/65/128/129 / everything / few),
    dominated ones, copies of the champion's fitness, individuals between champion and front, incomparable ones,
    in a random order inside the batch"""
    nobj = rng.choice([2, 2, 3, 4])
    w = [rng.choice(LARGE_W) for _ in range(nobj)]
    sim = rng.choice(["eq", "eq", "eq", "eq", "fit", "mod3", "near1"])
    S = THRESH[(i // 2) % len(THRESH)] if i % 2 == 0 else rng.randint(17, 120)
    ndup = rng.choice([0, 0, 1, 2, 3]) if sim in ("eq", "mod3", "near1") else 0
    N = S - ndup
    xmax = 2                                   # largest extra coordinate of a member
    nextg = [1000]

    def genome():
        nextg[0] += rng.choice([1, 1, 2, 7])
        return [nextg[0]]

    def extras(top=False):
        return [xmax if top else rng.randint(0, xmax) for _ in range(nobj - 2)]

    line = [[2 * j, 2 * (N - 1 - j)] + extras() for j in range(N)]
    members = [[genome(), wv] for wv in line]
    for _ in range(ndup):                      # equal fitness, another genome (dissimilar for eq / mod3 / near1: kept)
        g0, wv = rng.choice(members[:N])
        members.append([[g0[0] + 1201 + 12 * rng.randint(0, 40)], list(wv)])
    first = list(members)
    for _ in range(rng.choice([0, 2, 5])):     # the same individual again (twin), dominated stragglers
        g0, wv = rng.choice(members)
        first.append([list(g0), list(wv)])
        j = rng.randrange(N)
        first.append([genome(), [2 * j - 1, 2 * (N - 1 - j) - rng.choice([0, 1])] + [0] * (nobj - 2)])
    rng.shuffle(first)
    batches = _cut(rng, first, rng.choice([1, 1, 2, 3]))
    # ---- the batches that meet the large archive
    cur = [list(wv) for _, wv in members]      # fitnesses in the archive (an over-approximation after the first champion)

    def count_dom(p):
        return sum(1 for q in cur if all(a >= b for a, b in zip(p, q)) and p != q)

    def champion(K):
        """a point dominating exactly K current line members where possible"""
        hi = rng.randrange(N)
        lo = hi
        p = [2 * hi + 1, 2 * (N - 1 - lo) + 1] + extras(top=True)
        while count_dom(p) < K and (lo > 0 or hi < N - 1):
            if lo > 0 and (hi == N - 1 or rng.random() < 0.5):
                lo -= 1
            else:
                hi += 1
            p = [2 * hi + 1, 2 * (N - 1 - lo) + 1] + p[2:]
        return p

    kinds = ["champ", "few", "dominated", "between", "incomparable", "member-copy", "member-twin", "random"]
    for b in range(rng.choice([1, 2, 2, 3])):
        K = rng.choice([THRESH[(i // 3 + b) % len(THRESH)], THRESH[(i + b) % 4], S, rng.randint(17, max(17, S))])
        K = min(K, S)
        top = champion(K)
        tg = genome()
        pop = [[tg, top]]
        for _ in range(rng.choice([1, 2, 3, 5, 8])):
            kind = rng.choice(kinds + ["champ-copy", "champ-twin", "below-champ", "below-champ"])
            j = rng.randrange(N)
            if kind == "champ":
                pop.append([genome(), champion(rng.choice([K, 17, 16, 2]))])
            elif kind == "few":
                pop.append([genome(), champion(rng.choice([1, 2, 3]))])
            elif kind == "dominated":
                pop.append([genome(), [2 * j - rng.choice([0, 1]), 2 * (N - 1 - j) - 1] + [0] * (nobj - 2)])
            elif kind == "between" or kind == "below-champ":
                # dominated by the champion (or equal in some coordinates), dominating part of the old front
                d = rng.choice([0, 1, 2, 5])
                pop.append([genome(), [top[0] - d, top[1] - rng.choice([0, 1, 3])] + extras(top=rng.random() < 0.5)])
            elif kind == "incomparable":
                pop.append([genome(), [2 * j + 1, 2 * (N - 1 - j) - 1] + extras()])
            elif kind == "member-copy":
                pop.append([genome(), list(rng.choice(members)[1])])
            elif kind == "member-twin":
                g0, wv = rng.choice(members)
                pop.append([list(g0), list(wv)])
            elif kind == "champ-copy":
                pop.append([[tg[0] + 4 * 300], list(top)])
            elif kind == "champ-twin":
                pop.append([list(tg), list(top)])
            else:
                pop.append([genome(), [rng.randint(-1, 2 * N + 1), rng.randint(-1, 2 * N + 1)] + extras()])
        order = rng.choice(["champ-first", "champ-first", "shuffle", "champ-last"])
        rest = pop[1:]
        rng.shuffle(rest)
        if order == "champ-first":
            pop = [pop[0]] + rest
        elif order == "champ-last":
            pop = rest + [pop[0]]
        else:
            pop = [pop[0]] + rest
            rng.shuffle(pop)
        batches.extend(_cut(rng, pop, rng.choice([1, 1, 1, 2])))
        cur = [q for q in cur if not (all(a >= b for a, b in zip(top, q)) and top != q)] + [top]
    ev, slot = [], 0
    for bt in batches:
        pop = []
        for g, wv in bt:
            pop.append([slot, list(g), _unweight(w, wv)])
            slot += 1
        ev.append(["u", pop])
    return {"k": "pf", "m": 0, "sim": sim, "w": w, "stream": "main", "fam": "large", "default_sim": sim == "eq" and rng.random() < 0.5,
            "ev": ev}


def gen_large_hof(rng, i):
    """a hall of fame of capacity m (16/17, 32/33, 64/65, 128/129 and random 17..200) filled to m-1 / m / beyond, then
    batches that evict K members at once (K around the same thresholds, or everything), mixed with worse individuals,
    individuals similar to members, ties with the worst member, in a random order"""
    nobj = rng.choice([1, 1, 2, 3])
    w = [rng.choice(LARGE_W) for _ in range(nobj)]
    m = THRESH[(i // 2) % len(THRESH)] if i % 2 == 0 else rng.randint(17, 200)
    sim = rng.choice(["eq", "eq", "eq", "mod%d" % (2 * m + 1), "mod%d" % max(2, m - 1), "fit"])
    table = {}
    level = [0]                                 # fitness levels grow: later individuals tend to be better

    def fitness(g, better):
        key = class_key(sim, g, None) if sim != "fit" else tuple(g)
        if key not in table:
            first = level[0] + rng.randint(1, 3) if better else rng.randint(0, max(1, level[0]))
            table[key] = [first] + [rng.randint(0, 2) for _ in range(nobj - 1)]
        return table[key]

    nextg = [0]

    def fresh():
        nextg[0] += rng.choice([1, 1, 2])
        return [nextg[0]]

    used = []

    def individual(better):
        if used and rng.random() < 0.15:
            g = list(rng.choice(used))          # the same individual (or one similar to it) again
        else:
            g = fresh()
            used.append(g)
        return [g, fitness(g, better)]

    fill = m + rng.choice([-1, 0, 0, 1, 3])
    firstpop = [individual(rng.random() < 0.5) for _ in range(fill)]
    level[0] = max(v[0] for v in table.values())
    batches = _cut(rng, firstpop, rng.choice([1, 1, 2, 3]))
    for b in range(rng.choice([1, 2, 2, 3])):
        K = rng.choice([THRESH[(i // 3 + b) % len(THRESH)], THRESH[(i + b) % 4], m, m + 1, rng.randint(1, m)])
        K = min(K, m + 3)
        pop = [individual(True) for _ in range(K)]
        for _ in range(rng.choice([0, 2, 5, 10])):
            pop.append(individual(False))
        rng.shuffle(pop)
        level[0] = max(v[0] for v in table.values())
        batches.extend(_cut(rng, pop, rng.choice([1, 1, 2])))
    ev, slot = [], 0
    for bt in batches:
        pop = []
        for g, wv in bt:
            pop.append([slot, list(g), _unweight(w, wv)])
            slot += 1
        ev.append(["u", pop])
    return {"k": "hof", "m": m, "sim": sim, "w": w, "stream": "main", "fam": "large",
            "default_sim": sim == "eq" and rng.random() < 0.5, "ev": ev}


# the failing input of seeded/C08-r8m1 in its smallest form and its neighbours on both sides of the 16/17 boundary
def _line_case(size, tail):
    w = ["1", "1"]
    line = [[j, [j], [str(j), str(size - 1 - j)]] for j in range(size)]
    top = size + 10
    second = [[900, [900], [str(top), str(top)]]] + [[901 + k, [901 + k], [str(a), str(b)]] for k, (a, b) in enumerate(tail(top))]
    return {"k": "pf", "m": 0, "sim": "eq", "w": w, "stream": "main", "fam": "large", "default_sim": True,
            "ev": [["u", line], ["u", second]]}


LARGE_CORNERS = [_line_case(size, tail) for size in (16, 17, 18, 33)
                 for tail in (lambda t: [(t - 5, t - 5)], lambda t: [(t, t)], lambda t: [(t + 1, -1)],
                              lambda t: [(0, 0), (t - 1, t + 1)])]


def gen_random_viol(rng, kind):
    nobj = rng.choice([1, 2, 2, 3])
    w = [rand_weight(rng) for _ in range(nobj)]
    sim = rng.choice(["near1", "near2", "lt", "never", "eq", "mod2", "always"])
    m = rng.choice([1, 2, 3, 4]) if kind == "hof" else 0
    gpool = [[rng.randint(0, 4) for _ in range(rng.choice([1, 1, 2]))] for _ in range(rng.randint(2, 10))]
    ev = build_history(rng, kind, sim, nobj, gpool, lambda r: rand_value(r, 0, 2), True, rng.randint(1, 6),
                       [0, 1, 2, 3, 4, 5], resub=0.3)       # fitness unrelated to the genome
    return {"k": kind, "m": m, "sim": sim, "w": w, "stream": "viol", "fam": "rand", "nest": rng.random() < 0.3, "ev": ev}


def gen_random_api(rng, kind):
    nobj = rng.choice([1, 2, 3])
    w = [rand_weight(rng) for _ in range(nobj)]
    sim = rng.choice(["eq", "mod3", "near1", "fit"])
    m = rng.choice([0, 1, 2, 3, 4]) if kind == "hof" else 0
    ev, nslots = [], 0
    for _ in range(rng.randint(1, 8)):
        r = rng.random()
        if r < 0.45:
            pop = []
            for _ in range(rng.choice([0, 1, 2, 3])):
                pop.append([nslots, [rng.randint(0, 3)], [rand_value(rng, 0, 2) for _ in range(nobj)]])
                nslots += 1
            ev.append(["u", pop])
        elif r < 0.65:
            ev.append(["i", [nslots, [rng.randint(0, 3)], [rand_value(rng, 0, 2) for _ in range(nobj)]]])
            nslots += 1
        elif r < 0.93:
            ev.append(["r", rng.randint(-5, 4)])
        else:
            ev.append(["c"])
    return {"k": kind, "m": m, "sim": sim, "w": w, "stream": "api", "fam": "rand", "ev": ev}


CORNERS = [
    # similarity passed positionally to ParetoFront (the documented form ParetoFront([similar]))
    {"k": "pf", "m": 0, "sim": "mod3", "w": ["-1", "-1"], "stream": "main", "fam": "corner", "ctor": "pos",
     "ev": [["u", [[0, [0], ["1", "1"]]]], ["u", [[1, [3], ["1", "1"]]]]]},
    # equal sets whose elements were inserted in another order (0 and 8 collide): one member
    {"k": "hof", "m": 3, "sim": "eq", "w": ["1"], "stream": "main", "fam": "corner", "cont": "set", "default_sim": True,
     "ev": [["u", [[0, [0, 8], ["1"]]]], ["u", [[1, [8, 0], ["1"]]]]]},
    # dicts with the same keys and different values are distinct
    {"k": "hof", "m": 3, "sim": "eq", "w": ["1"], "stream": "main", "fam": "corner", "cont": "dict", "default_sim": True,
     "ev": [["u", [[0, [0, 1, 1, 2], ["1"]]]], ["u", [[1, [0, 7, 1, 9], ["2"]]]]]},
    {"k": "hof", "m": 0, "sim": "eq", "w": ["1"], "stream": "api", "fam": "corner", "ev": [["u", []], ["u", [[0, [1], ["1"]]]]]},
    # falsy individuals (len() == 0): an empty set / list shown twice is still one member
    {"k": "hof", "m": 2, "sim": "eq", "w": ["-1"], "stream": "main", "fam": "corner", "cont": "set", "default_sim": True,
     "ev": [["u", []], ["u", [[0, [], ["0"]], [1, [], ["0"]]]]]},
    {"k": "hof", "m": 3, "sim": "eq", "w": ["1"], "stream": "main", "fam": "corner", "default_sim": True,
     "ev": [["u", [[0, [], ["1"]]]], ["u", [[1, [], ["1"]], [2, [4], ["0"]]]], ["u", [[3, [], ["1"]]]]]},
    {"k": "pf", "m": 0, "sim": "eq", "w": ["1", "-1"], "stream": "main", "fam": "corner", "cont": "dict", "default_sim": True,
     "ev": [["u", [[0, [], ["1", "1"]]]], ["u", [[1, [], ["1", "1"]], [2, [0, 1], ["2", "2"]]]]]},
    {"k": "hof", "m": 1, "sim": "eq", "w": ["1"], "stream": "api", "fam": "corner", "ev": [["r", 0]]},
    {"k": "pf", "m": 0, "sim": "eq", "w": ["1", "1"], "stream": "main", "fam": "corner", "default_sim": True,
     "ev": [["u", [[0, [0], ["1", "1"]], [1, [1], ["0", "2"]], [2, [2], ["2", "0"]]]], ["u", [[3, [3], ["2", "2"]]]]]},
    # near-tie twins: same genome, fitnesses 2^-40 apart in opposite directions -> two members
    {"k": "pf", "m": 0, "sim": "eq", "w": ["1", "1"], "stream": "main", "fam": "corner", "default_sim": True,
     "ev": [["u", [[0, [5], ["1", "2"]], [1, [5], [sfr(1 + EPS), sfr(2 - EPS)]]]]]},
    # sums absorb the difference: (2^70, 1) dominates (2^70, 0)
    {"k": "pf", "m": 0, "sim": "eq", "w": ["1", "1"], "stream": "main", "fam": "corner",
     "ev": [["u", [[0, [1], [sfr(BIG), "0"]]]], ["u", [[1, [2], [sfr(BIG), "1"]]]]]},
    # the history of ASSUMPTIONS: an individual re-evaluated in place to a better fitness and shown again
    # (hypothesis 'similar => equal fitness' violated: viol stream, the best-of-seen clause is not demanded)
    {"k": "hof", "m": 2, "sim": "eq", "w": ["1"], "stream": "viol", "fam": "corner", "default_sim": True,
     "ev": [["u", [[0, [1], ["1"]], [1, [2], ["3"]]]], ["u", [[0, [1], ["5"]]]], ["u", [[2, [3], ["2"]]]]]},
]


def generate(tier, rng, mult):
    """Which families/streams run never depends on the seed: fixed counts per family, targeted families first
    (the time budget truncates from the end), then the exhaustive enumeration with the random cases spread inside."""
    for i, d in enumerate(_generate(tier, rng, mult)):
        if "ctor" not in d:
            d["ctor"] = CTOR_FORMS[i % 3]           # every call form of the constructors, in every stream
        yield d


CTOR_FORMS = ["pos", "kw", "kwall"]
NHEAP = 1500
NLARGE = 144


def _generate(tier, rng, mult):
    thorough = tier == "thorough"
    for d in CORNERS:
        yield d
    scale = (10 if thorough else 1) * mult
    # the heap stream carries the deep-copy clause (model == implementation incl. the in-place modifications): first
    for d in HEAP_CORNERS:
        yield d
    # large archives carry "dominates several members at once" / bulk eviction beyond what a small universe reaches
    for d in LARGE_CORNERS:
        yield d
    for i in range(NLARGE * scale):
        yield gen_large_hof(rng, i // 3) if i % 3 == 2 else gen_large_pf(rng, i - i // 3)
    for i in range(NHEAP * scale):
        yield gen_heap(rng, "pf" if i % 3 == 2 else "hof", i)
    for i in range(300 * scale):
        yield gen_container(rng, "pf" if i % 3 == 2 else "hof", "set" if i % 2 else "dict")
    for i in range(300 * scale):
        yield gen_random_main(rng, "pf" if i % 3 else "hof", fam="neartie")
    for i in range(200 * scale):
        yield gen_random_main(rng, "pf" if i % 3 else "hof", fam="magnitude")
    for i in range(200 * scale):
        yield gen_bigbatch(rng, "hof" if i % 4 else "pf")
    for i in range(100 * scale):
        yield gen_wide(rng, "hof" if i % 3 else "pf")
    nrand = (30000 if thorough else 4000) * mult
    ex = gen_exhaustive(tier, rng)
    every = 40 if thorough else 15
    produced = 0
    for i, d in enumerate(ex):
        yield d
        if i % every == 0 and produced < nrand:
            yield random_case(rng, produced)
            produced += 1
    while produced < nrand:
        yield random_case(rng, produced)
        produced += 1


def random_case(rng, i):
    """deterministic schedule: 60% main, 20% viol, 20% api; 60% hall of fame"""
    kind = "pf" if i % 5 in (1, 3) else "hof"
    r = (i // 5) % 5
    if r < 3:
        return gen_random_main(rng, kind)
    if r == 3:
        return gen_random_viol(rng, kind)
    return gen_random_api(rng, kind)


def shrink(d):
    ev = d["ev"]
    mods = d.get("mods")
    if mods is not None:                           # heap stream: fewer in-place modifications first
        for i in range(len(mods)):
            for j in range(len(mods[i])):
                yield dict(d, mods=mods[:i] + [mods[i][:j] + mods[i][j + 1:]] + mods[i + 1:])
    for i in range(len(ev)):                       # drop an event
        if len(ev) > 1:
            if mods is not None:
                yield dict(d, ev=ev[:i] + ev[i + 1:], mods=mods[:i] + mods[i + 1:])
            else:
                yield dict(d, ev=ev[:i] + ev[i + 1:])
    for i, e in enumerate(ev):                     # drop an individual of a batch (halves first for big batches)
        if e[0] == "u":
            n = len(e[1])
            if n > 6:
                yield dict(d, ev=ev[:i] + [["u", e[1][:n // 2]]] + ev[i + 1:])
                yield dict(d, ev=ev[:i] + [["u", e[1][n // 2:]]] + ev[i + 1:])
            for j in range(n):
                yield dict(d, ev=ev[:i] + [["u", e[1][:j] + e[1][j + 1:]]] + ev[i + 1:])
    if d["k"] == "hof" and d["m"] > 1:
        yield dict(d, m=d["m"] - 1)
    for key in ("default_sim", "nest"):
        if d.get(key):
            e = dict(d)
            del e[key]
            yield e


def classify(desc, msg, known):
    return None
