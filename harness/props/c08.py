"""C08 — HallOfFame and ParetoFront always equal the best of everything seen (deap/tools/support.py).

A case is a script of events on one archive that starts empty:
  ["u", [[slot, genome, values], ...]]   update(population); `slot` names a Python object that is
                                         created on first use and *modified in place* when it is
                                         submitted again with another content
  ["i", [slot, genome, values]]          insert(ind)            (api stream only)
  ["r", index]                           remove(index)          (api stream only)
  ["c"]                                  clear()                (api stream only)
After every update all objects submitted so far are overwritten in place (the "deep copies" clause),
and the archive must not notice.

streams:  main  similarity is an equivalence and (hall of fame) similar individuals have equal fitness:
                model == implementation and the property statement (oracle) on the real archive
          viol  the reading's hypotheses are violated (non-transitive / non-symmetric / irreflexive
                similarity, equal genomes with different fitness): model == implementation and only
                the clauses that need no hypothesis (mirror, order, size, copies)
          api   insert / remove (any index) / clear interleaved with updates: model == implementation
"""
import itertools
import operator
from fractions import Fraction as Fr

from lib import Case
from deap import base, creator, tools

ANCHORS = [("deap/tools/support.py", ["HallOfFame", "ParetoFront"])]
LEVEL = "proof"
RULE = ("exhaustive: every history of <=3 batches of <=2 individuals from 4 universes of 6 (quick tier: <=2 batches "
        "from all 6 and <=3 batches from 3 of them) incl. equal fitness with different genomes and similar-but-different genomes, "
        "1 and 2 objectives with mixed weight signs, capacity 1..3, HallOfFame and ParetoFront; random: 1-4 "
        "objectives, <=6 batches of <=5, empty batches, re-submission and in-place modification of submitted "
        "objects, 5 similarity operators. Non-trivial = distinct case with at least two non-empty updates "
        "(or an api script that reaches remove/insert)")
EXHAUSTIVE = {"quick": False, "thorough": True}
TIME_BUDGET = {"quick": 50, "thorough": 800}
TRUSTED = ["bisect.bisect_right (C implementation) runs the loop of Lib/bisect.py that Core/Archive.lean transcribes "
           "(binary search; proved equal to the linear scan on the always-ascending key list: C08L.bisectRight_eq)",
           "copy.deepcopy of an individual yields a new object with equal genome and fitness and no shared mutable "
           "state (checked by the oracle on every update, modelled as a fresh object id)",
           "the similarity callable is a pure function of the two individuals' genome and fitness",
           "IEEE-754: value*weight of the small dyadic inputs is exact, so the Rat model and the float implementation agree"]
ASSUMPTIONS = ["capacity m >= 1 (m = 0 raises IndexError on the first non-empty update; modelled and compared, outside the statement)",
               "similarity is an equivalence relation that ignores object identity; for the hall of fame similar individuals "
               "carry equal fitness (DESIGN.md section 6); for the Pareto archive 'distinct' = not (equal fitness and similar)",
               "all fitnesses shown to one Pareto archive have the same number of objectives; no NaN"]
EXPLANATION = ("Theorems C08.* are proved for every history (list of batches), every capacity >= 1, every genome type and "
               "every linearly ordered scalar type; the correspondence ties Core/Archive.lean to deap.tools.HallOfFame / "
               "ParetoFront after every update of every history explored, and the statement is evaluated on the real archive.")

BASE = 1000000


_sfc, _flc = {}, {}


def sfr(q):
    r = _sfc.get(q)
    if r is None:
        f = Fr(q)
        r = _sfc[q] = str(f.numerator) if f.denominator == 1 else "%d/%d" % (f.numerator, f.denominator)
    return r


def fl(v):
    """the double denoted by a rational token"""
    r = _flc.get(v)
    if r is None:
        r = _flc[v] = float(Fr(v))
    return r


def slist(xs):
    xs = list(xs)
    return ",".join(sfr(x) for x in xs) if xs else "-"


def ilist(xs):
    xs = list(xs)
    return ",".join(str(int(x)) for x in xs) if xs else "-"


_classes = {}


def classes_for(weights):
    key = tuple(weights)
    if key not in _classes:
        n = len(_classes)
        fname, iname = "C08Fit%d" % n, "C08Ind%d" % n
        creator.create(fname, base.Fitness, weights=tuple(fl(w) for w in weights))
        creator.create(iname, list, fitness=getattr(creator, fname))
        _classes[key] = getattr(creator, iname)
    return _classes[key]


def gsum(ind):
    return sum(ind)


def sim_fun(name):
    if name == "eq":
        return operator.eq                      # the default of HallOfFame / ParetoFront
    if name == "fit":
        return lambda a, b: a.fitness == b.fitness
    if name == "never":
        return lambda a, b: False
    if name == "always":
        return lambda a, b: True
    if name == "lt":
        return lambda a, b: gsum(a) < gsum(b)
    if name.startswith("mod"):
        k = int(name[3:])
        return lambda a, b: gsum(a) % k == gsum(b) % k
    if name.startswith("near"):
        d = int(name[4:])
        return lambda a, b: abs(gsum(a) - gsum(b)) <= d
    raise ValueError(name)


def class_key(name, genome, wv):
    """canonical representative of the similarity class (equivalence similarities only)"""
    if name == "eq":
        return tuple(genome)
    if name == "fit":
        return tuple(wv)
    if name == "always":
        return 0
    if name.startswith("mod"):
        return sum(genome) % int(name[3:])
    return None


_frc, _wvc = {}, {}


def _fr(x):
    q = _frc.get(x)
    if q is None:
        q = _frc[x] = Fr(x)
    return q


def wvals(weights, values):
    key = (tuple(weights), tuple(values))
    r = _wvc.get(key)
    if r is None:
        r = _wvc[key] = tuple(Fr(v) * Fr(w) for v, w in zip(values, weights))
    return r


def exact(t):
    return tuple(_fr(x) for x in t)


def dominates(a, b):
    return all(x >= y for x, y in zip(a, b)) and any(x > y for x, y in zip(a, b))


def ind_token(slot, genome, wv):
    return "%d:%s:%s" % (slot, ilist(genome), slist(wv))


def state_token(arch, submitted_ids):
    items = []
    for it in arch.items:
        fresh = id(it) not in submitted_ids
        items.append("%s:%s:%s" % (ilist(it), slist(exact(it.fitness.wvalues)), "f" if fresh else "s"))
    keys = [slist(exact(k.wvalues)) for k in arch.keys]
    return "%s#%s" % (";".join(items) if items else "-", ";".join(keys) if keys else "-")


def content(arch):
    return [(tuple(it), exact(it.fitness.wvalues)) for it in arch.items], [exact(k.wvalues) for k in arch.keys]


def structural(arch, m, kind, shown_contents):
    """clauses that hold without any hypothesis on the similarity operator"""
    items, keys = content(arch)
    n = len(items)
    if len(arch) != n or len(keys) != n:
        return "len(archive)=%d, %d items, %d keys" % (len(arch), n, len(keys))
    for j in range(n):
        if keys[j] != items[n - 1 - j][1] or arch.keys[j] is not arch.items[n - 1 - j].fitness:
            return "parallel lists drifted: keys[%d]=%s but items[%d].fitness=%s" % (j, keys[j], n - 1 - j, items[n - 1 - j][1])
    if [x for x in arch] != arch.items or any(arch[i] is not arch.items[i] for i in range(n)) \
            or list(reversed(arch)) != arch.items[::-1]:
        return "iteration/indexing disagree with items"
    for i in range(n - 1):
        if items[i][1] < items[i + 1][1]:
            return "not best-first: item %d %s < item %d %s" % (i, items[i][1], i + 1, items[i + 1][1])
    if kind == "hof" and n > m:
        return "size %d exceeds capacity %d" % (n, m)
    for g, w in items:
        if (g, w) not in shown_contents:
            return "member (%s,%s) was never shown" % (g, w)
    if len(set(id(it) for it in arch.items)) != n or len(set(id(it.fitness) for it in arch.items)) != n:
        return "two members are the same object"
    return None


def oracle_hof(arch, m, sim, simf, shown):
    items, _ = content(arch)
    n = len(items)
    for i in range(n):
        for j in range(n):
            if i != j and simf(arch.items[i], arch.items[j]):
                return "members %d and %d are similar" % (i, j)
    mkeys = set(class_key(sim, g, w) for g, w in items)
    classes = set()
    for (g, w) in shown:
        c = class_key(sim, g, w)
        classes.add(c)
        if c not in mkeys:
            if n != m:
                return "shown individual (%s,%s) is not represented although the archive holds %d < %d" % (g, w, n, m)
            if w > items[-1][1]:
                return "shown individual (%s,%s) is strictly better than the worst member %s and not represented" % (g, w, items[-1][1])
    if len(classes) <= m and classes != mkeys:
        return "only %d distinct individuals were shown (capacity %d) but not all are kept" % (len(classes), m)
    return None


def oracle_pf(arch, sim, shown):
    items, _ = content(arch)
    members = [(class_key(sim, g, w), w) for g, w in items]
    if len(set(members)) != len(members):
        return "two members are twins (equal fitness and similar)"
    allw = set(w for _, w in shown)
    nd = set((class_key(sim, g, w), w) for g, w in shown if not any(dominates(y, w) for y in allw))
    if set(members) != nd:
        miss = nd - set(members)
        extra = set(members) - nd
        return "members differ from the non-dominated distinct individuals shown: missing %s, extra %s" % (sorted(miss, key=repr), sorted(extra, key=repr))
    for _, a in members:
        for _, b in members:
            if dominates(a, b):
                return "member %s dominates member %s" % (a, b)
    return None


def evaluate(d):
    kind, m, sim, stream = d["k"], d["m"], d["sim"], d["stream"]
    w = tuple(d["w"])
    IndC = classes_for(d["w"])
    simf = sim_fun(sim)
    arch = tools.HallOfFame(m, similar=simf) if kind == "hof" else tools.ParetoFront(similar=simf)
    if sim == "eq" and d.get("default_sim"):
        arch = tools.HallOfFame(m) if kind == "hof" else tools.ParetoFront()
    objs = {}             # slot -> live Python object
    submitted = {}        # id(obj) -> obj, everything ever handed to the archive
    shown = []            # contents (genome, wvalues) shown so far
    shown_set = set()
    toks, exp = [], []
    orc = None
    flags = set()
    raised = False
    n_upd = 0

    def materialise(entry):
        slot, genome, values = entry
        vals = tuple(fl(v) for v in values)
        if slot in objs:
            o = objs[slot]
            o[:] = list(genome)                     # in-place modification of a submitted object
            o.fitness.values = vals
            flags.add("resub")
        else:
            o = IndC(list(genome))
            o.fitness.values = vals
            objs[slot] = o
        wv = exact(o.fitness.wvalues)
        if wv != wvals(w, values):
            raise AssertionError("inexact weighted values")
        return o, wv

    after = []
    for ev in d["ev"]:
        op = ev[0]
        before = after
        try:
            if op == "u":
                pop, ptoks = [], []
                for entry in ev[1]:
                    o, wv = materialise(entry)
                    pop.append(o)
                    ptoks.append(ind_token(entry[0], entry[1], wv))
                    shown.append((tuple(entry[1]), wv))
                    shown_set.add((tuple(entry[1]), wv))
                toks.append("u=" + (";".join(ptoks) if ptoks else "-"))
                for o in pop:
                    submitted[id(o)] = o
                arch.update(pop)
                n_upd += 1 if pop else 0
            elif op == "i":
                o, wv = materialise(ev[1])
                toks.append("i=" + ind_token(ev[1][0], ev[1][1], wv))
                shown.append((tuple(ev[1][1]), wv))
                shown_set.add((tuple(ev[1][1]), wv))
                submitted[id(o)] = o
                arch.insert(o)
            elif op == "r":
                toks.append("r=%d" % ev[1])
                arch.remove(ev[1])
            elif op == "c":
                toks.append("c")
                arch.clear()
            else:
                raise ValueError(op)
        except (IndexError, ZeroDivisionError) as e:
            exp.append("raise")
            raised = True
            flags.add("raise")
            if (m >= 1 or kind == "pf") and stream != "api" and orc is None:
                orc = "update raised %s: %s" % (type(e).__name__, e)
            break
        exp.append(state_token(arch, submitted))
        snap = content(arch)
        after = snap[0]
        # ---- oracle on the real archive
        if orc is None and stream != "api":
            orc = structural(arch, m, kind, shown_set)
        if orc is None and any(id(it) in submitted or any(it.fitness is s.fitness for s in submitted.values())
                               for it in arch.items):
            orc = "a member is (or shares its fitness with) a submitted object, not a deep copy"
        # deep copies: overwrite every submitted object in place; the archive must not change
        for o in submitted.values():
            o[:] = [77, -77, 7]
            o.fitness.values = tuple(-5.0 if x > 0 else 5.0 for x in o.fitness.weights)
            o.extra = "clobbered"
        if orc is None and content(arch) != snap:
            orc = "archive content changed when the submitted individuals were modified in place"
        if orc is None and stream == "main" and op == "u":
            if kind == "hof":
                orc = oracle_hof(arch, m, sim, simf, shown)
            else:
                orc = oracle_pf(arch, sim, shown)
        # ---- branch tags
        if op == "u":
            gone = [x for x in before if x not in after]
            if len(after) < len(before) and kind == "pf":
                flags.add("shrink")
            if len(gone) >= 2:
                flags.add("multi-removal")
            elif gone:
                flags.add("evict")
            if kind == "hof" and len(after) == m:
                flags.add("full")
            ins = [x for x in after if x not in before]
            if len(ins) < len(set((tuple(e[1]), wvals(w, e[2])) for e in ev[1])):
                flags.add("reject")
            if not ev[1]:
                flags.add("empty-batch")
    line = "C08 %s %d %s %s" % (kind, m, sim, " ".join(toks))
    tag = "%s/%s/%s/nobj=%d/%s" % (kind, stream, sim, len(w), "+".join(sorted(flags)) or "plain")
    nontrivial = (n_upd >= 2) or (stream == "api" and len(d["ev"]) >= 2)
    return Case(d, [line], [" ".join(exp)], orc, tag=tag, nontrivial=nontrivial)


# ----------------------------------------------------------------------------------------
# generators
# ----------------------------------------------------------------------------------------

# universe A: one objective, minimised; sim = eq; [0],[1] equal fitness / different genomes, [2],[1,1] likewise
UA = {"w": ["-1"], "sim": "eq",
      "inds": [([0], ["1"]), ([1], ["1"]), ([2], ["2"]), ([3], ["0"]), ([1, 1], ["2"]), ([4], ["3"])]}
# universe B: two objectives (max, min); [4] dominates everything, [2] and [3] dominate [0],[1]; [1,1] incomparable
UB = {"w": ["1", "-1"], "sim": "eq",
      "inds": [([0], ["1", "1"]), ([1], ["1", "1"]), ([2], ["2", "1"]), ([3], ["1", "0"]), ([1, 1], ["2", "2"]), ([4], ["3", "0"])]}
# universe C: similarity = genome sum modulo 3, fitness a function of the class; different genomes are similar
UC = {"w": ["2", "-1/2"], "sim": "mod3",
      "inds": [([0], ["1", "2"]), ([3], ["1", "2"]), ([1], ["1", "2"]), ([2, 2], ["1", "2"]), ([2], ["0", "4"]), ([1, 4], ["0", "4"])]}
# universe D: one objective maximised, weight 2; similarity = equal fitness
UD = {"w": ["2"], "sim": "fit",
      "inds": [([0], ["1"]), ([1], ["1"]), ([2], ["2"]), ([3], ["0"]), ([1, 1], ["2"]), ([4], ["3"])]}


def histories(inds, nb, bs):
    """all histories of exactly nb batches of <= bs individuals (indices into inds)"""
    batches = [()]
    for k in range(1, bs + 1):
        batches += list(itertools.product(range(len(inds)), repeat=k))
    return itertools.product(batches, repeat=nb)


def mk_case(kind, m, U, hist, stream="main", slots="fresh", default_sim=False):
    ev = []
    next_slot = [0]
    by_ind = {}
    for b in hist:
        pop = []
        for i in b:
            g, v = U["inds"][i]
            if slots == "reuse":           # the same object is re-submitted
                s = by_ind.setdefault(i, len(by_ind))
            else:
                s = next_slot[0]
                next_slot[0] += 1
            pop.append([s, list(g), list(v)])
        ev.append(["u", pop])
    d = {"k": kind, "m": m, "sim": U["sim"], "w": list(U["w"]), "stream": stream, "ev": ev}
    if default_sim:
        d["default_sim"] = True
    return d


SUB3 = {"A": [0, 1, 2], "B": [0, 2, 4], "C": [0, 1, 4], "D": [0, 1, 2]}


def gen_exhaustive(tier, rng):
    thorough = tier == "thorough"
    for name, U in (("A", UA), ("B", UB), ("C", UC), ("D", UD)):
        full = U["inds"]
        if thorough:
            plans = [(full, 3, 2)]
        else:
            plans = [(full, 2, 2), ([full[i] for i in SUB3[name]], 3, 2)]
        for inds, nb, bs in plans:
            sub = dict(U, inds=inds)
            for hist in histories(inds, nb, bs):
                for m in (1, 2, 3):
                    yield mk_case("hof", m, sub, hist, slots=rng.choice(["fresh", "reuse"]),
                                  default_sim=(U["sim"] == "eq" and rng.random() < 0.5))
                yield mk_case("pf", 0, sub, hist, slots=rng.choice(["fresh", "reuse"]),
                              default_sim=(U["sim"] == "eq" and rng.random() < 0.5))


def rand_weight(rng):
    q = Fr(rng.choice([1, 1, 1, 2, 3, 5]), rng.choice([1, 1, 2, 4]))
    return sfr(q if rng.random() < 0.5 else -q)


def rand_value(rng, lo=0, hi=3):
    return sfr(Fr(rng.randint(lo * 2, hi * 2), 2) if rng.random() < 0.2 else Fr(rng.randint(lo, hi)))


def gen_random_main(rng, kind):
    nobj = rng.choice([1, 1, 2, 2, 2, 3, 4])
    w = [rand_weight(rng) for _ in range(nobj)]
    sim = rng.choice(["eq", "eq", "mod2", "mod3", "mod5", "fit", "always"])
    gpool = [[rng.randint(-2, 4) for _ in range(rng.choice([1, 1, 2, 3]))] for _ in range(rng.randint(1, 8))]
    hi = rng.choice([1, 2, 3, 6])
    table = {}
    free = sim == "fit" or (kind == "pf" and rng.random() < 0.5)   # Pareto: 'distinct' includes the fitness

    def fitness_of(g):
        # hall of fame (main): fitness is a function of the similarity class
        if free:
            return [rand_value(rng, 0, hi) for _ in range(nobj)]
        key = class_key(sim, g, None)
        if key not in table:
            table[key] = [rand_value(rng, 0, hi) for _ in range(nobj)]
        return table[key]
    m = rng.choice([1, 1, 2, 2, 3, 3, 4, 5, 8]) if kind == "hof" else 0
    ev, nslots = [], 0
    for _ in range(rng.randint(1, 6)):
        pop = []
        for _ in range(rng.choice([0, 1, 1, 2, 2, 3, 4, 5])):
            g = rng.choice(gpool)
            if nslots and rng.random() < 0.35:
                s = rng.randrange(nslots)           # re-submission (maybe with a new content, in place)
            else:
                s = nslots
                nslots += 1
            same = [e for e in pop if e[0] == s]    # the same object twice in one population
            pop.append(list(same[0]) if same else [s, list(g), fitness_of(g)])
        ev.append(["u", pop])
    return {"k": kind, "m": m, "sim": sim, "w": w, "stream": "main", "ev": ev}


def gen_random_viol(rng, kind):
    nobj = rng.choice([1, 2, 2, 3])
    w = [rand_weight(rng) for _ in range(nobj)]
    sim = rng.choice(["near1", "near2", "lt", "never", "eq", "mod2", "always"])
    m = rng.choice([1, 2, 3, 4]) if kind == "hof" else 0
    ev, nslots = [], 0
    for _ in range(rng.randint(1, 6)):
        pop = []
        for _ in range(rng.choice([0, 1, 2, 3, 4, 5])):
            g = [rng.randint(0, 4) for _ in range(rng.choice([1, 1, 2]))]
            if nslots and rng.random() < 0.3:
                s = rng.randrange(nslots)
            else:
                s = nslots
                nslots += 1
            same = [e for e in pop if e[0] == s]
            pop.append(list(same[0]) if same else
                       [s, g, [rand_value(rng, 0, 2) for _ in range(nobj)]])   # fitness unrelated to the genome
        ev.append(["u", pop])
    return {"k": kind, "m": m, "sim": sim, "w": w, "stream": "viol", "ev": ev}


def gen_random_api(rng, kind):
    nobj = rng.choice([1, 2, 3])
    w = [rand_weight(rng) for _ in range(nobj)]
    sim = rng.choice(["eq", "mod3", "near1", "fit"])
    m = rng.choice([0, 1, 2, 3, 4]) if kind == "hof" else 0
    ev, nslots = [], 0
    for _ in range(rng.randint(1, 8)):
        r = rng.random()
        if r < 0.45:
            pop = []
            for _ in range(rng.choice([0, 1, 2, 3])):
                pop.append([nslots, [rng.randint(0, 3)], [rand_value(rng, 0, 2) for _ in range(nobj)]])
                nslots += 1
            ev.append(["u", pop])
        elif r < 0.65:
            ev.append(["i", [nslots, [rng.randint(0, 3)], [rand_value(rng, 0, 2) for _ in range(nobj)]]])
            nslots += 1
        elif r < 0.93:
            ev.append(["r", rng.randint(-5, 4)])
        else:
            ev.append(["c"])
    return {"k": kind, "m": m, "sim": sim, "w": w, "stream": "api", "ev": ev}


def generate(tier, rng, mult):
    thorough = tier == "thorough"
    # a few hand-written corner cases first
    yield {"k": "hof", "m": 0, "sim": "eq", "w": ["1"], "stream": "api", "ev": [["u", []], ["u", [[0, [1], ["1"]]]]]}
    yield {"k": "hof", "m": 1, "sim": "eq", "w": ["1"], "stream": "api", "ev": [["r", 0]]}
    yield {"k": "pf", "m": 0, "sim": "eq", "w": ["1", "1"], "stream": "main", "default_sim": True,
           "ev": [["u", [[0, [0], ["1", "1"]], [1, [1], ["0", "2"]], [2, [2], ["2", "0"]]]], ["u", [[3, [3], ["2", "2"]]]]]}
    nrand = (30000 if thorough else 4000) * mult
    # interleave: random cases are spread between the exhaustive ones so a truncated run still sees both
    ex = gen_exhaustive(tier, rng)
    every = 40 if thorough else 15
    produced = 0
    for i, d in enumerate(ex):
        yield d
        if i % every == 0 and produced < nrand:
            produced += 1
            yield random_case(rng)
    while produced < nrand:
        produced += 1
        yield random_case(rng)


def random_case(rng):
    kind = "hof" if rng.random() < 0.6 else "pf"
    r = rng.random()
    if r < 0.6:
        return gen_random_main(rng, kind)
    if r < 0.8:
        return gen_random_viol(rng, kind)
    return gen_random_api(rng, kind)


def shrink(d):
    ev = d["ev"]
    for i in range(len(ev)):                       # drop an event
        if len(ev) > 1:
            yield dict(d, ev=ev[:i] + ev[i + 1:])
    for i, e in enumerate(ev):                     # drop an individual of a batch
        if e[0] == "u":
            for j in range(len(e[1])):
                yield dict(d, ev=ev[:i] + [["u", e[1][:j] + e[1][j + 1:]]] + ev[i + 1:])
    if d["k"] == "hof" and d["m"] > 1:
        yield dict(d, m=d["m"] - 1)
    if d.get("default_sim"):
        e = dict(d)
        del e["default_sim"]
        yield e


def classify(desc, msg, known):
    return None
