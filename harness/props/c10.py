"""C10 — real-coded operators stay finite, in bounds and centred on the parents
(deap/tools/crossover.py: cxBlend, cxESBlend, cxSimulatedBinary, cxSimulatedBinaryBounded;
 deap/tools/mutation.py: mutGaussian, mutPolynomialBounded, mutESLogNormal).

Real-valued regime: the real operators run with their random draws forced from the case description
(results of `random.random()` = `rs`, standard-normal values behind `random.gauss(mu, sigma)` = `zs`);
the draws actually consumed are replayed through the `Float` instance of `Core/RealOps.lean`, answers
are compared with relative tolerance 1e-9.  The oracle evaluates the property text on the
implementation's own result: identity of the returned objects, lengths, `math.isfinite`, not complex,
bounds *exactly* (`xl <= c <= xu` in doubles), sums within the PROVED rounding bound (exact rational arithmetic),
blend range within the PROVED rounding allowance (C10.blend_range_rounded, exact rational arithmetic), untouched individual
for indpb = 0, strategies > 0.  Histories: consecutive calls of the bounded operators sharing bound objects that are edited in
place between the calls (stream `hist`).  mutESLogNormal on both sides of the proved boundary of the positivity clause (`xlogn`).

Rounded semantics (Core/RoundedOps.lean): the final clamp on `XF` (finite | +inf | -inf | nan) against CPython's
`min(max(c, xl), xu)`; the decidable hypotheses of the NaN-freedom theorems (C10.sbxb_rounded_locus,
C10.poly_rounded_locus) evaluated by the Lean driver on the exact rational values of the doubles against an
independent evaluation here; on the extreme-magnitude stream the theorems' conclusion is evaluated on the real result
(hypotheses hold => gene finite and inside the bounds) and the Float model is compared NaN for NaN."""
import array
import math
import sys
from fractions import Fraction

import numpy

import tape as tapemod
from lib import Case, fbits
from deap import creator, tools

ANCHORS = [("deap/tools/crossover.py", ["cxBlend", "cxSimulatedBinary", "cxSimulatedBinaryBounded", "cxESBlend"]),
           ("deap/tools/mutation.py", ["mutGaussian", "mutPolynomialBounded", "mutESLogNormal"])]
LEVEL = "proof"
STRENGTH = "partial"
MIN_CASES = 20000
RULE = ("grid: single-locus cases over genes {low, interior, up} x eta {0,1,20,1000} x bound pairs spanning "
        "1e-6..1e6 x every combination of boundary draws {0, 2^-53, 0.5-2^-53, 0.5, 0.5+2^-53, 1-2^-53}; clamp stream: "
        "bounded SBX / polynomial mutation with genes on or one ulp from a bound, bound pairs of unequal magnitude "
        "(xl + (xu - xl) != xu), boundary draws, so that the value before `min(max(c, xl), xu)` leaves the bounds by "
        "rounding (tag letters 1, 2 = clamp of child 1 / 2 fires, l, u = polynomial clamp fires below / above); xclamp: "
        "the clamp on nan, +-inf, +-0.0, subnormals, +-max and log-uniform magnitudes with proper and improper bounds; "
        "xmag (outside the statement's quantifier): bounded SBX / polynomial mutation on 1..2 loci with bound widths from "
        "1e-300 to 1.8e308 (also overflowing widths and overflowing parent sums), bounds at 0, +-w, +-1, +-1e300, "
        "parents on the bounds / one ulp inside / mid, eta in {0, 1e-3, 1, 20, 1e3, 1e6, 1e15, 1e300}, shaping draws in "
        "{0, 5e-324, 1e-300, 2^-53, .25, .5-2^-53, .5, .5+2^-53, .75, 1-2^-52, 1-2^-53} (tag = failing hypothesis "
        "clauses / gene states), plus the inputs of the counterexample theorems; hist: histories of 3..6 calls of "
        "mutPolynomialBounded / cxSimulatedBinaryBounded in which one `low` and one `up` sequence object (list or array('d')) "
        "are passed again and again and edited in place in between (box narrowed, moved, resized; item or slice assignment), "
        "mixed with fresh sequences of the same contents, tuples and scalars, 1..4 bound pairs, individuals as long as or "
        "shorter than the bounds, sometimes the same individual object again; every call judged against / replayed with the "
        "contents at that call; xlogn (mostly outside the statement's quantifier): mutESLogNormal with strategies from 5e-324 to "
        "1.7e308, c in {1..1000}, the exponent argument steered to {-800..-744 (exp underflow), the product boundary "
        "s*exp(a) ~ 2^-1074, 709..750 (OverflowError)} or left to boundary gauss draws (tag = failing clauses of the proved "
        "hypothesis / pos, zero, OverflowError); alias: "
        "crossover called with the same object twice (oracle only); containers: every operator x every kind of sequence "
        "individual (list, array('d'), numpy.ndarray, a user class keeping its genes in an inner list with integer "
        "indexing only, a user class with the bare __len__/__getitem__/__setitem__ protocol); random: 1..8 (sometimes "
        "12..40) loci, individuals of the five kinds, scalar / list / tuple / array bounds, genes on a bound, next to a "
        "bound or inside, parents equal / within 1e-14 / one ulp apart at some loci, eta in {0,1,20,1000} or "
        "uniform / log-uniform in [0,1000], alpha in [0,2], indpb in {0,1,random}, c in [0,50], draws uniform or "
        "boundary values, gauss values N(0,1) or +-8.57 (largest value random.gauss can return) or 0.  Non-trivial = "
        "at least one locus takes a modifying branch (tag letters other than the skip letters g,e,-) or an error branch")
EXHAUSTIVE = {"quick": False, "thorough": False}
TIME_BUDGET = {"quick": 60, "thorough": 900}
TRUSTED = ["IEEE-754 binary64 / libm (pow, exp, sqrt) behave the same in CPython and in Lean's Float (both call "
           "the C library); answers are compared with relative tolerance 1e-9, never bitwise",
           "two semantics are proved about: exact reals (C10.*_sum, *_range, *_welldefined, *_bounds, *_unclamped) and a "
           "rounded one (Core/RoundedOps.lean: ANY arithmetic on finite | +inf | -inf | nan whose + - * / round the exact "
           "result monotonically, exactly on representable results and never to nan, IEEE special values, a pow that is "
           "nan only for invalid operations, sign-correct and monotone; nan also stands for a Python exception). "
           "C10.sbxb_rounded / poly_rounded prove finite in-bounds genes for the bounded operators in that semantics; "
           "that CPython's doubles and the C library's pow ARE such an arithmetic (binary64 round-to-nearest is; "
           "monotonicity of libm pow is assumed) is trusted, and probed by the xmag stream (theorem hypotheses hold => "
           "real gene finite and in bounds, on every explored extreme input)",
           "C10.blend_sum_rounded / esblend_sum_rounded / sbx_sum_rounded are proved in the standard model of "
           "floating-point arithmetic fl(a op b) = (a op b)(1+d), |d| <= u, products + e, |e| <= nu, no overflow; that "
           "binary64 round-to-nearest satisfies it with u = 2^-53, nu = 2^-1075 is textbook and trusted; the oracle "
           "evaluates exactly that bound over the rationals",
           "C10.blend_range_rounded / esblend_range_rounded: in the same standard model the blend children lie in the widened "
           "parental interval up to E = (7/2 u (2+alpha+Eg) + Eg)(|x1|+|x2|) + 9/4 nu, Eg = 6u(1+2alpha) + 4nu; the oracle evaluates "
           "exactly that over the rationals (no ad-hoc tolerance left in the range clause)",
           "C10.lognormal_pos_rounded(_locus): positivity of the new strategy under the decidable hypothesis lognMag, for every "
           "arithmetic whose exp is finite up to 709 and at least 2^-k from -0.693k on (k <= 1074) — that libm's exp is such a "
           "function is trusted and probed by the stream xlogn (hypothesis holds => real strategy > 0); beyond the hypothesis the "
           "real code returns 0.0 strategies or raises OverflowError (C10.lognormal_underflow_zero / _overflow_raises): recorded "
           "reading, nothing is demanded there",
           "what remains outside every model: the unbounded operators' overflow for genes beyond ~1e291 (C10.sbx_rounded takes "
           "the representable caps as parameters), mutGaussian's addition overflowing for genes next to the largest double",
           "the clause 'modify and return the objects they were given' rests on the harness's `is` tests (returned "
           "individual is the input, its strategy list is the input's strategy list) on every explored call: the "
           "model writes `{ ind with genes := .. }`, so the C10.*_in_place theorems hold by construction of the "
           "model (they only add that lengths and the untouched fields are kept) and cannot express a returned copy",
           "harness/tape.py forcing of random.random / random.gauss (gauss(mu, sigma) returns mu + z*sigma for "
           "the forced standard-normal value z, as CPython's random.gauss does)",
           "translator tie: the rendering rules of harness/py2lean_c10.py (its docstring; the expression rules of harness/py2lean.py it "
           "re-uses) and the prelude Core/GenPreludeC10.lean are trusted; parameters are typed by a signature table (individual = list "
           "of floats with an optional .strategy list, low / up / mu / sigma = float or sequence of floats); distinct arguments are "
           "distinct list objects with copy semantics (aliases, numpy views, array.array stay with the correspondence); float "
           "exceptions (division by 0.0, overflow) are not rendered - mutESLogNormal on an empty individual is therefore outside "
           "the tie; random.random() / random.gauss(..) read the next entry of the tape of recorded results, the interface of "
           "Core/RealOps.lean"]
def translate(repo):
    """translator tie (lib._translated_obligations): Lean definitions regenerated from `repo`'s current source
    (harness/py2lean_c10.py) + the committed theorems `Gen.<f> = RealOps.<f>` of lean/DeapModel/GenEq/C10.lean.tmpl"""
    import json
    import os
    import lib
    from props import c10_translate
    tr = c10_translate.translate(repo)
    try:
        os.makedirs(os.path.join(lib.OUT, "evidence"), exist_ok=True)
        with open(os.path.join(lib.OUT, "evidence", "C10.translated.json"), "w") as fh:
            json.dump({"definitions": len(tr["definitions"]), "theorems": len(tr["theorems"]),
                       "refused": len(tr["refused"]), "problems": tr["problems"],
                       "functions": [dict(file=f, name=n, status=st, detail=d) for f, n, st, d in tr["table"]],
                       "theorem_names": tr["theorems"]}, fh, indent=1)
            fh.write("\n")
    except OSError:
        pass
    return tr


ASSUMPTIONS = ["genes are finite doubles inside [low, up]; low < up, magnitudes and widths between 1e-6 and 1e6; "
               "eta in [0,1000]; alpha in [0,2]; indpb in [0,1]; random.random() returns a multiple of 2^-53 in "
               "[0,1); |random.gauss(0,1)| <= 8.57",
               "premise 'two individuals': the two arguments of a crossover (and their strategy lists) are distinct "
               "objects — the model and the theorems assume it; a call with the same object twice is only run "
               "through the oracle (stream `alias`), not through the model",
               "ES strategies and sigma between 1e-6 and 1e6, learning parameter c in [0,50] (from c ~ 61 on, or for "
               "subnormal strategies, exp underflow can turn a positive strategy into 0.0 and math.exp can raise "
               "OverflowError under boundary gauss draws — outside the stated domain).  Exact boundary (proved): the clause "
               "holds whenever the computed exponent argument a = t0*N + t*N_i and the strategy s satisfy s > 0, a <= 709, "
               "k = ceil(-a/0.693) <= 1074 and s * 2^-k >= 2^-1074 (C10.lognormal_pos_rounded_locus); the statement's domain "
               "(s >= 1e-6, c <= 50, |N| <= 8.57: a >= -607) lies inside it",
               "the blend range clause is read up to rounding with the proved allowance E of C10.blend_range_rounded "
               "(< 45 * 2^-53 * (|x1| + |x2|) for alpha <= 2), compared exactly over the rationals",
               "bounds are passed as Sequences (list, tuple, array('d')); a numpy.ndarray is not a collections.abc.Sequence and "
               "the operators treat it as a scalar, so numpy bounds are not part of the history stream (numpy individuals are)",
               "the sum clause is read up to rounding: |c1 + c2 - (x1 + x2)| <= 6*2^-53*(|x1|+|x2|)*(1+|gamma|) + 5*2^-1075 "
               "for cxBlend / cxESBlend and <= 5*2^-53*(|x1|+|x2|)*(1+|beta|) + 5*2^-1075 for cxSimulatedBinary, gamma / beta "
               "as the code computed them (theorems C10.*_sum_rounded; compared exactly over the rationals). For "
               "cxSimulatedBinary the bound is relative to beta*|x|, which at eta = 0 and rand = 1-2^-53 (beta = 2^52) "
               "is a weak constraint — that is what floating-point arithmetic can keep",
               "magnitudes for the bounded operators: the width xu - xl of a bound pair and the sum x1 + x2 of two "
               "parents are finite doubles (|low|, |up| <= 8.9e307 suffices), and for the mutation xu - xl >= 1e-14 "
               "(hypothesis of the abstract theorem only; IEEE subtraction never underflows to 0). Beyond: "
               "low = -1e308, up = 1e308 gives xu - xl = inf and nan genes (0*inf, C10.poly_width_overflow_nan, "
               "C10.sbxb_width_overflow_nan); low = 0, up = 1.7e308 with parents 8.5e307, 1.7e308 gives x1 + x2 = inf and "
               "inf - inf = nan for rand = 1-2^-53. These inputs are run (stream xmag) and compared with the Float model, "
               "nothing is demanded of them",
               "numpy.ndarray individuals: numpy scalars do not raise on division by zero / negative base (inf / nan "
               "with a warning instead); inside the domain neither occurs"]
EXPLANATION = ("Theorems C10.* are proved for all lengths, genes, bounds, parameters and draws, over the reals and — "
               "for the in-bounds / finite clause of the two bounded operators and the sum clause of the three "
               "crossovers — also in a rounded semantics (any monotone, exact-on-representables rounding with IEEE "
               "special values; the standard model of floating-point error for the sums). Core/RealOps.lean keeps the "
               "Python operation order, so the same definitions run on Float (correspondence), on the reals and on the "
               "rounded scalars. Since round 7 the blend range clause, the ES mutations (with the exact boundary of "
               "the positivity clause and witnesses beyond it) and unbounded SBX have rounded theorems too. The strength "
               "stays partial: that CPython's arithmetic and libm's pow / exp satisfy the laws "
               "of the rounded semantics is trusted and probed, not proved; and object identity ('modify and return the objects they were given') is "
               "established by the harness's `is` tests on the real objects.")

EPSM = 2.0 ** -53
TOP = 1.0 - EPSM                      # largest value random.random() returns
U64 = Fraction(1, 2 ** 53)            # unit roundoff of binary64 (round to nearest)
NU64 = Fraction(1, 2 ** 1075)         # largest absolute error of an underflowing product
OMEGA = Fraction(sys.float_info.max)  # largest finite double
EPS14 = Fraction(1e-14)               # the literal 1e-14 as CPython reads it
TOPQ = Fraction(TOP)
DRAW_EDGE = [0.0, EPSM, 0.5 - EPSM, 0.5, 0.5 + EPSM, TOP]
ZMAX = 8.57                           # sqrt(-2 log 2^-53) = 8.5717…

# ---------------------------------------------------------------------------------------------
# individuals, forced draws
# ---------------------------------------------------------------------------------------------
if not hasattr(creator, "C10List"):
    creator.create("C10List", list, strategy=None)
    creator.create("C10Array", array.array, typecode="d", strategy=None)
    creator.create("C10Nd", numpy.ndarray, strategy=None)


class Vec(object):
    """a user-defined real sequence that keeps its genes in an inner list: integer indices only (no slicing),
    `copy.copy` of it shares the inner list, iteration walks the live storage"""

    def __init__(self, genes=()):
        self._genes = [g for g in genes]

    def __len__(self):
        return len(self._genes)

    def __getitem__(self, i):
        if not isinstance(i, int):
            raise TypeError("Vec supports integer indices only")
        return self._genes[i]

    def __setitem__(self, i, value):
        if not isinstance(i, int):
            raise TypeError("Vec supports integer indices only")
        self._genes[i] = value

    def __iter__(self):
        return iter(self._genes)


class Seq(object):
    """the bare sequence protocol: `__len__`, `__getitem__` (IndexError ends an iteration), `__setitem__`;
    no `__iter__`, no slicing, genes in an inner array('d')"""

    def __init__(self, genes=()):
        self._a = array.array("d", genes)

    def __len__(self):
        return len(self._a)

    def __getitem__(self, i):
        if not isinstance(i, int):
            raise TypeError("Seq supports integer indices only")
        return self._a[i]

    def __setitem__(self, i, value):
        if not isinstance(i, int):
            raise TypeError("Seq supports integer indices only")
        self._a[i] = value


if not hasattr(creator, "C10Vec"):
    creator.create("C10Vec", Vec, strategy=None)
    creator.create("C10Seq", Seq, strategy=None)

CONTAINERS = ["list", "array", "ndarray", "vec", "seq"]


def mk_ind(cont, genes, strategy=None):
    if cont in ("vec", "seq"):
        ind = (creator.C10Vec if cont == "vec" else creator.C10Seq)([float(g) for g in genes])
        if strategy is not None:
            ind.strategy = (Vec if cont == "vec" else Seq)([float(v) for v in strategy])
        return ind
    if cont == "ndarray":
        ind = creator.C10Nd([float(g) for g in genes])
        if strategy is not None:
            ind.strategy = numpy.array([float(v) for v in strategy], dtype=float)
        return ind
    ind = creator.C10List(genes) if cont == "list" else creator.C10Array(genes)
    if strategy is not None:
        ind.strategy = list(strategy) if cont == "list" else array.array("d", strategy)
    return ind


def mk_bound(b, kind):
    if not isinstance(b, list):
        return b
    if kind == "tuple":
        return tuple(b)
    if kind == "array":
        return array.array("d", b)
    return list(b)


class KTape(tapemod.Tape):
    """Forced draws by kind: `rs` answers random.random(), `zs` are standard-normal values,
    random.gauss(mu, sigma) answers mu + z*sigma.  Any other random function is a mismatch."""

    def __init__(self, rs, zs):
        tapemod.Tape.__init__(self, forced=[])
        self.rs, self.zs = list(rs), list(zs)
        self.used_r, self.used_g = [], []

    def _next(self, kind):
        raise tapemod.TapeMismatch("operator called random.%s" % kind)

    def _random(self):
        if not self.rs:
            raise tapemod.TapeExhausted("random")
        x = self.rs.pop(0)
        self.used_r.append(x)
        self.draws.append(("random", x))
        return x

    def _gauss(self, mu, sigma):
        if not self.zs:
            raise tapemod.TapeExhausted("gauss")
        x = mu + self.zs.pop(0) * sigma
        self.used_g.append(x)
        self.draws.append(("gauss", mu, sigma, x))
        return x


# ---------------------------------------------------------------------------------------------
# protocol formatting
# ---------------------------------------------------------------------------------------------
def ftok(x):
    if isinstance(x, complex):
        return "complex(%r)" % (x,)
    if x != x:
        return "nan"                  # the bit pattern of a NaN is not canonical
    return fbits(x)


def flist(xs):
    xs = list(xs)
    return ",".join(ftok(x) for x in xs) if xs else "-"


def btok(b):
    return "L" + flist(b) if isinstance(b, list) else fbits(b)


def per_locus(b, n):
    return list(b[:n]) if isinstance(b, list) else [b] * n


# ---------------------------------------------------------------------------------------------
# oracle helpers (property text)
# ---------------------------------------------------------------------------------------------
def real_finite(v):
    """a finite real number: a float, or the int a caller passed as bound (`min(max(x, xl), xu)` returns the
    bound object itself when it clamps) — never bool, complex, NaN or +-inf"""
    return isinstance(v, (float, int)) and not isinstance(v, bool) and math.isfinite(v)


def check_genes(name, out, n):
    if len(out) != n:
        return "%s: length %d became %d" % (name, n, len(out))
    for i, v in enumerate(out):
        if isinstance(v, complex):
            return "%s[%d] is complex: %r" % (name, i, v)
        if not real_finite(v):
            return "%s[%d] is not a finite real number: %r" % (name, i, v)
    return None


def check_same(ret, given, what):
    if not isinstance(ret, tuple) or len(ret) != len(given):
        return "%s does not return a tuple of %d individuals: %r" % (what, len(given), type(ret))
    for k, (r, g) in enumerate(zip(ret, given)):
        if r is not g:
            return "%s: returned individual #%d is not the object it was given" % (what, k + 1)
    return None


def check_sum(name, a, b, c, d, extra=None):
    for i in range(min(len(a), len(b))):
        scale = max(abs(a[i]), abs(b[i]), abs(c[i]), abs(d[i]))
        tol = 1e-9 * scale + (extra[i] if extra else 0.0) + 1e-300     # 1e-300: rounding of subnormal genes
        if abs((c[i] + d[i]) - (a[i] + b[i])) > tol:
            return "%s: children sum %r differs from parents sum %r at locus %d" % (name, c[i] + d[i], a[i] + b[i], i)
    return None


def check_sum_exact(name, a, b, c, d, k, factors):
    """the sum clause with the PROVED rounding bound (C10.blend_sum_rounded / esblend_sum_rounded: k = 6, factor =
    1 + |gamma|; C10.sbx_sum_rounded: k = 5, factor = 1 + |beta|), evaluated exactly over the rationals:
    |c1 + c2 - (x1 + x2)| <= k * 2^-53 * (|x1| + |x2|) * factor + 5 * 2^-1075"""
    for i in range(min(len(a), len(b))):
        x1, x2, y1, y2 = (Fraction(float(v)) for v in (a[i], b[i], c[i], d[i]))
        bound = k * U64 * (abs(x1) + abs(x2)) * Fraction(float(factors[i])) + 5 * NU64
        if abs((y1 + y2) - (x1 + x2)) > bound:
            return "%s: children sum %r differs from parents sum %r at locus %d by %.3g, more than the proved rounding " \
                   "bound %.3g" % (name, c[i] + d[i], a[i] + b[i], i, float(abs((y1 + y2) - (x1 + x2))), float(bound))
    return None


def blend_factors(alpha, draws):
    """1 + |gamma| per locus, gamma as cxBlend computes it (:255)"""
    return [1.0 + abs((1. + 2. * alpha) * r - alpha) for r in draws]


def sbx_factors(eta, draws):
    """1 + |beta| per locus, beta as cxSimulatedBinary computes it (:279-283)"""
    out = []
    for rand in draws:
        beta = 2. * rand if rand <= 0.5 else 1. / (2. * (1. - rand))
        beta **= 1. / (eta + 1.)
        out.append(1.0 + abs(beta))
    return out


def check_range(name, a, b, c, d, alpha):
    for i in range(min(len(a), len(b))):
        lo, hi = min(a[i], b[i]), max(a[i], b[i])
        w = hi - lo
        tol = 1e-9 * max(abs(lo), abs(hi), alpha * w) + 1e-300
        for v in (c[i], d[i]):
            if not (lo - alpha * w - tol <= v <= hi + alpha * w + tol):
                return "%s: child %r outside [min - alpha*w, max + alpha*w] = [%r, %r] at locus %d" % (
                    name, v, lo - alpha * w, hi + alpha * w, i)
    return None


def blend_range_err(alpha, X):
    """RealOps.blendRangeErr at u = 2^-53, nu = 2^-1075 (C10.blend_range_rounded / esblend_range_rounded), exact"""
    eg = 6 * U64 * (1 + 2 * alpha) + 4 * NU64
    return (Fraction(7, 2) * U64 * (2 + alpha + eg) + eg) * X + Fraction(9, 4) * NU64


def check_range_exact(name, a, b, c, d, alpha):
    """the blend range clause with the PROVED rounding allowance, evaluated exactly over the rationals: both children
    inside [min - alpha*w - E, max + alpha*w + E], w = |x1 - x2|, E = blendRangeErr(2^-53, 2^-1075, alpha, |x1|+|x2|)"""
    al = Fraction(float(alpha))
    for i in range(min(len(a), len(b))):
        x1, x2, y1, y2 = (Fraction(float(v)) for v in (a[i], b[i], c[i], d[i]))
        lo, hi, w = min(x1, x2), max(x1, x2), abs(x1 - x2)
        e = blend_range_err(al, abs(x1) + abs(x2))
        for v in (y1, y2):
            if not (lo - al * w - e <= v <= hi + al * w + e):
                return "%s: child %r outside [min - alpha*w, max + alpha*w] = [%r, %r] at locus %d by more than the " \
                       "proved rounding allowance %.3g" % (name, float(v), float(lo - al * w), float(hi + al * w), i,
                                                         float(e))
    return None


def check_bounds(name, out, lo, up, n):
    for i in range(n):
        if not (lo[i] <= out[i] <= up[i]):
            return "%s[%d] = %r outside [%r, %r]" % (name, i, out[i], lo[i], up[i])
    return None


def first(*msgs):
    for m in msgs:
        if m:
            return m
    return None


# ---------------------------------------------------------------------------------------------
# branch letters (tagging only)
# ---------------------------------------------------------------------------------------------
def _beta_q(rand, beta, eta):
    alpha = 2.0 - beta ** -(eta + 1)
    if rand <= 1.0 / alpha:
        return (rand * alpha) ** (1.0 / (eta + 1))
    return (1.0 / (2.0 - rand * alpha)) ** (1.0 / (eta + 1))


def sbxb_letters(d, used):
    """g: every locus skipped by the gate / e: some locus skipped by the 1e-14 guard / x: some locus crossed /
    B, D: the `rand > 1/alpha` branch taken for the first / second child /
    1, 2: the value of child 1 / child 2 before `min(max(c, xl), xu)` is outside [xl, xu] (the clamp fires)"""
    x1, x2, eta = d["x1"], d["x2"], d["eta"]
    n = min(len(x1), len(x2))
    lo, up = per_locus(d["low"], n), per_locus(d["up"], n)
    k, out = 0, set()
    try:
        for i in range(n):
            g = used[k]; k += 1
            if not g <= 0.5:
                continue
            if not abs(x1[i] - x2[i]) > 1e-14:
                out.add("e"); continue
            a, b = min(x1[i], x2[i]), max(x1[i], x2[i])
            rand = used[k]; k += 2
            be1 = 1.0 + (2.0 * (a - lo[i]) / (b - a))
            be2 = 1.0 + (2.0 * (up[i] - b) / (b - a))
            out.add("x")
            if not rand <= 1.0 / (2.0 - be1 ** -(eta + 1)):
                out.add("B")
            if not rand <= 1.0 / (2.0 - be2 ** -(eta + 1)):
                out.add("D")
            r1 = 0.5 * (a + b - _beta_q(rand, be1, eta) * (b - a))
            r2 = 0.5 * (a + b + _beta_q(rand, be2, eta) * (b - a))
            if not lo[i] <= r1 <= up[i]:
                out.add("1")
            if not lo[i] <= r2 <= up[i]:
                out.add("2")
    except Exception:  # noqa  (tagging must never decide a verdict)
        out.add("?")
    return "".join(sorted(out)) or "g"


def poly_site(x, xl, xu, eta, rand):
    """l / u when the value before the final clamp of mutPolynomialBounded is below xl / above xu (tagging only)"""
    try:
        d1, d2 = (x - xl) / (xu - xl), (xu - x) / (xu - xl)
        mp = 1.0 / (eta + 1.)
        if rand < 0.5:
            dq = (2.0 * rand + (1.0 - 2.0 * rand) * (1.0 - d1) ** (eta + 1)) ** mp - 1.0
        else:
            dq = 1.0 - (2.0 * (1.0 - rand) + 2.0 * (rand - 0.5) * (1.0 - d2) ** (eta + 1)) ** mp
        y = x + dq * (xu - xl)
        return "l" if y < xl else "u" if y > xu else ""
    except Exception:  # noqa
        return "?"


def gate_letters(used_flags):
    return "".join(sorted(set("".join(used_flags)))) or "-"


# ---------------------------------------------------------------------------------------------
# evaluate
# ---------------------------------------------------------------------------------------------
def run(fn, rs, zs, *args):
    """-> (result or exception name, tape)"""
    t = KTape(rs, zs)
    with t:
        try:
            res = fn(*args)
        except (IndexError, ZeroDivisionError, OverflowError) as e:
            res = type(e).__name__
    return res, t


def ident(ret, objs):
    """canonical identity of returned objects: position (1-based) of the input object, 0 = other"""
    out = []
    for r in ret:
        k = 0
        for j, o in enumerate(objs):
            if r is o:
                k = j + 1
        out.append(str(k))
    return ",".join(out)


def evaluate(d):
    try:
        if d.get("alias"):
            return evaluate_alias(d)
        if d["op"] == "xclamp":
            return evaluate_xclamp(d)
        if d.get("xmag"):
            return evaluate_xmag(d)
        if d["op"] == "hist":
            return evaluate_hist(d)
        if d.get("xlogn"):
            with numpy.errstate(all="ignore"):
                return evaluate_xlogn(d)
        return _evaluate(d)
    except (tapemod.TapeExhausted, tapemod.TapeMismatch) as e:
        # the operator no longer draws what the model replays: a break of the correspondence, not a failing input
        return Case(d, [], [], oracle="TAPE: operator asked for a draw the forced tape cannot give (%s: %s)"
                    % (type(e).__name__, e), tag="%s/tape" % d.get("op"))


def evaluate_alias(d):
    """crossover called with the same object twice: outside the model's premise (two distinct individuals);
    the clauses of the statement are evaluated on the real result only"""
    op, cont = d["op"], d.get("cont", "list")
    x = list(d["x1"])
    n = len(x)
    ind = mk_ind(cont, x, d.get("s1"))
    so = getattr(ind, "strategy", None)
    rs = d["rs"]
    if op == "blend":
        res, t = run(tools.cxBlend, rs, [], ind, ind, d["alpha"])
    elif op == "sbx":
        res, t = run(tools.cxSimulatedBinary, rs, [], ind, ind, d["eta"])
    elif op == "sbxb":
        res, t = run(tools.cxSimulatedBinaryBounded, rs, [], ind, ind, d["eta"], d["low"], d["up"])
    else:
        res, t = run(tools.cxESBlend, rs, [], ind, ind, d["alpha"])
    if isinstance(res, str):
        return Case(d, [], [], "implementation raised " + res, tag="%s/alias/%s" % (op, res))
    orc = check_same(res, (ind, ind), op)
    if orc is None:
        c = list(ind)
        orc = check_genes("child", c, n)
    if orc is None and op in ("blend", "esblend"):
        orc = first(check_sum(op, x, x, c, c), check_range(op, x, x, c, c, d["alpha"]))
    if orc is None and op == "esblend":
        s1 = list(d["s1"])
        ts = list(ind.strategy)
        orc = first(None if ind.strategy is so else "esblend: strategy list replaced",
                    check_genes("strategy", ts, len(s1)), check_sum(op, s1, s1, ts, ts),
                    check_range(op, s1, s1, ts, ts, d["alpha"]))
    if orc is None and op == "sbx":
        extra = []
        for i, r in enumerate(t.used_r[:n]):
            beta = (2.0 * r if r <= 0.5 else 1.0 / (2.0 * (1.0 - r))) ** (1.0 / (d["eta"] + 1.0))
            extra.append(16 * EPSM * (1.0 + beta) * 2 * abs(x[i]))
        orc = check_sum(op, x, x, c, c, extra)
    if orc is None and op == "sbxb":
        orc = check_bounds("child", c, per_locus(d["low"], n), per_locus(d["up"], n), n)
    return Case(d, [], [], orc, tag="%s/alias/x" % op, nontrivial=n > 0)



# ---------------------------------------------------------------------------------------------
# rounded semantics (Core/RoundedOps.lean): the clamp on XF, the hypotheses of the NaN-freedom theorems
# ---------------------------------------------------------------------------------------------
def fv(v):
    """a double from its description (non-finite values travel as strings)"""
    return float(v)


def dv(x):
    """description of a double (JSON has no nan / inf)"""
    x = float(x)
    return x if math.isfinite(x) else repr(x)


def xf_str(x):
    """a double as the Lean driver prints an `XF`"""
    if x != x:
        return "nan"
    if x in (math.inf, -math.inf):
        return "inf" if x > 0 else "-inf"
    q = Fraction(x)
    return str(q.numerator) if q.denominator == 1 else "%d/%d" % (q.numerator, q.denominator)


def evaluate_xclamp(d):
    """`min(max(c, xl), xu)` as the operators' last step evaluates it, on any double (nan, infinities, subnormals):
    CPython's result against `XF.clamp`; C10.clamp_in_bounds / clamp_nan evaluated on the real result"""
    c, xl, xu = fv(d["c"]), fv(d["xl"]), fv(d["xu"])
    res = min(max(c, xl), xu)
    orc = None
    if math.isfinite(xl) and math.isfinite(xu) and xl <= xu:
        if c != c:
            if res == res:
                orc = "CORRESPONDENCE: min(max(nan, %r), %r) = %r is not nan (C10.clamp_nan)" % (xl, xu, res)
        elif not (xl <= res <= xu):
            orc = "CORRESPONDENCE: min(max(%r, %r), %r) = %r outside the bounds (C10.clamp_in_bounds)" % (c, xl, xu, res)
    tag = "xclamp/%s" % ("nan" if c != c else "inf" if math.isinf(c) else "fin")
    return Case(d, ["C10 xclamp %s %s %s" % (fbits(c), fbits(xl), fbits(xu))], [xf_str(res)], orc, tag=tag)


def _allfinite(*vs):
    return all(math.isfinite(v) for v in vs)


def sbxb_why(eta, a, b, xl, xu, rand):
    """first failing clause of the hypotheses of C10.sbxb_rounded_locus on exact values (Lean: RoundedOps.sbxbWhy)"""
    if not _allfinite(eta, a, b, xl, xu, rand):
        return "nonfinite"
    eta, a, b, xl, xu, rand = (Fraction(float(v)) for v in (eta, a, b, xl, xu, rand))
    if not (0 <= eta and eta + 1 <= OMEGA):
        return "eta"
    if not (xl <= a <= xu and xl <= b <= xu):
        return "box"
    if not xu - xl <= OMEGA:
        return "width"
    if not -OMEGA <= a + b <= OMEGA:
        return "sum"
    if not 0 <= rand <= TOPQ:
        return "rand"
    return "ok"


def poly_why(eta, x, xl, xu, rand):
    """first failing clause of the hypotheses of C10.poly_rounded_locus on exact values (Lean: RoundedOps.polyWhy)"""
    if not _allfinite(eta, x, xl, xu, rand):
        return "nonfinite"
    eta, x, xl, xu, rand = (Fraction(float(v)) for v in (eta, x, xl, xu, rand))
    if not (0 <= eta and eta + 1 <= OMEGA):
        return "eta"
    if not xl <= x <= xu:
        return "box"
    if not EPS14 <= xu - xl:
        return "narrow"
    if not xu - xl <= OMEGA:
        return "width"
    if not 0 <= rand < 1:
        return "rand"
    return "ok"


LN2LO = Fraction(693, 1000)
TINY = Fraction(1, 2 ** 1074)
EXPMAX = 709
KMAX = 1074


def logn_k(a):
    """RoundedOps.lognK: the smallest k >= 0 with -k * 0.693 <= a"""
    return max(0, math.ceil(-a / LN2LO))


def logn_why(s, a):
    """first failing clause of `lognMag binary64 s a (lognK a)`, the hypothesis of C10.lognormal_pos_rounded_locus, on
    exact values (Lean: RoundedOps.lognWhy)"""
    if not _allfinite(s, a):
        return "nonfinite"
    s, a = Fraction(float(s)), Fraction(float(a))
    if not 0 < s:
        return "strategy"
    if not a <= EXPMAX:
        return "overflow"
    k = logn_k(a)
    if not k <= KMAX:
        return "expunderflow"
    if not -k * LN2LO <= a:
        return "k"
    if not TINY <= s / 2 ** k:
        return "underflow"
    return "ok"


def logn_sites(n, c, indpb, rs, zs):
    """mutated loci of mutESLogNormal for the forced draws, with the exponent argument `t0_n + t * gauss` computed as
    the code computes it (:233-240): (i, a)"""
    t = c / math.sqrt(2. * math.sqrt(n))
    t0 = c / math.sqrt(2. * n)
    t0_n = t0 * (0 + zs[0] * 1)
    k, out = 1, []
    for i in range(min(n, len(rs))):
        if rs[i] < indpb:
            if k >= len(zs):
                break
            out.append((i, t0_n + t * (0 + zs[k] * 1)))
            k += 2
    return out


def in_logn_domain(c, s):
    """the stated domain of the ES clause (ASSUMPTIONS): strategies between 1e-6 and 1e6, c in [0, 50]"""
    return 0 <= c <= 50 and all(1e-6 <= v <= 1e6 for v in s)


def evaluate_xlogn(d):
    """mutESLogNormal on both sides of the boundary of "positive strategies stay positive" (outside the statement's
    quantifier for the most part): subnormal .. huge strategies, learning parameters up to 1e3, boundary gauss draws.
    Compared: (1) the decidable hypothesis lognMag of C10.lognormal_pos_rounded_locus as Lean evaluates it on the exact
    values against an independent evaluation here; (2) the theorem's conclusion on the real result: hypothesis holds at
    every mutated locus => no exception and the new strategy value is > 0; (3) the Float model against the real
    operator when it returns.  Where the hypothesis fails nothing is demanded: a strategy that becomes 0.0 (tag
    `zero`) or an OverflowError (tag `OverflowError`) there is the recorded reading (C10.lognormal_underflow_zero,
    C10.lognormal_overflow_raises)."""
    cont = d.get("cont", "list")
    x, s = list(d["x"]), list(d["s"])
    rs, zs = d["rs"], d["zs"]
    n = len(x)
    ind = mk_ind(cont, x, s)
    so = ind.strategy
    res, t = run(tools.mutESLogNormal, rs, zs, ind, d["c"], d["indpb"])
    sites = logn_sites(n, d["c"], d["indpb"], rs, zs)
    whys = [(i, a, logn_why(s[i], a)) for i, a in sites]
    hyp_lines = ["C10 xhyp logn %s %s" % (fbits(s[i]), fbits(a)) for i, a, _ in whys]
    hyp_exp = [w for _, _, w in whys]
    all_ok = all(w == "ok" for w in hyp_exp)
    inside = in_logn_domain(d["c"], s)
    pre = "" if inside else "CORRESPONDENCE: "
    letters = "+".join(sorted(set(hyp_exp))) or "skip"
    if isinstance(res, str):
        orc = None
        if all_ok:
            orc = pre + "implementation raised %s although the hypothesis of C10.lognormal_pos_rounded_locus holds at " \
                        "every mutated locus" % res
        return Case(d, hyp_lines, hyp_exp, orc, tag="logn/xlogn/%s/%s" % (letters, res), nontrivial=bool(whys), tol=1e-9)
    orc = check_same(res, (ind,), "logn")
    if orc is None and ind.strategy is not so:
        orc = "mutESLogNormal replaced the strategy list instead of modifying it in place"
    ts = list(ind.strategy)
    states = set()
    if orc is None:
        if len(list(ind)) != n or len(ts) != len(s):
            orc = "mutESLogNormal changed a length"
    if orc is None:
        for i, a, w in whys:
            st = "pos" if ts[i] > 0 else "zero" if ts[i] == 0 else "bad"
            states.add(st)
            if w == "ok" and st != "pos" and orc is None:
                orc = pre + "strategy[%d] = %r is not strictly positive (was %r, exponent argument %r) although the " \
                            "hypothesis of C10.lognormal_pos_rounded_locus holds" % (i, ts[i], s[i], a)
        touched = set(i for i, _, _ in whys)
        for i in range(len(s)):
            if i not in touched and not (ts[i] == s[i]) and orc is None:
                orc = "strategy[%d] changed from %r to %r although the locus was not mutated" % (i, s[i], ts[i])
    line = "C10 logn %s %s %s %s %s %s" % (fbits(d["c"]), fbits(d["indpb"]), flist(x), flist(s), flist(t.used_r),
                                           flist(t.used_g))
    exp = "ok %s,%d %s %s 0 0" % ("1" if res[0] is ind else "0", 3 if res[0].strategy is so else 0,
                                  flist(res[0]), flist(res[0].strategy))
    tag = "logn/xlogn/%s/%s" % (letters, "+".join(sorted(states)) or "-")
    return Case(d, [line] + hyp_lines, [exp] + hyp_exp, orc, tag=tag, nontrivial=bool(whys), tol=1e-9)


def _mk_seq(kind, vals):
    if kind == "array":
        return array.array("d", vals)
    if kind == "tuple":
        return tuple(vals)
    return list(vals)


def evaluate_hist(d):
    """a HISTORY of calls of the two bounded operators that share bound objects: one `low` and one `up` sequence object
    (list or array('d')) live through the whole history and are edited IN PLACE between calls (element assignment or
    slice assignment, possibly changing their length); other calls get fresh objects with the same contents, tuples, or
    scalars.  Every call is judged against the contents of the bounds AT THAT CALL (snapshot taken just before it) and
    replayed through the model with that snapshot."""
    kind = d.get("kind", "list")
    shared = {"low": _mk_seq(kind, []), "up": _mk_seq(kind, [])}
    keep = {}
    lines, exps, orc, tags = [], [], None, set()
    prev, nshared = None, 0
    for ci, c in enumerate(d["calls"]):
        args, snap = {}, {}
        for side in ("low", "up"):
            b = c[side]
            if b["mode"] == "scalar":
                args[side] = b["v"]
                snap[side] = b["v"]
            elif b["mode"] == "shared":
                obj = shared[side]
                vals = [float(v) for v in b["vals"]]
                if b.get("how") == "slice" or len(vals) != len(obj):
                    obj[:] = _mk_seq(kind, vals) if kind != "tuple" else vals
                else:
                    for j, v in enumerate(vals):
                        if obj[j] != v:
                            obj[j] = v
                args[side] = obj
                snap[side] = list(vals)
            else:
                args[side] = _mk_seq(b.get("kind", kind), [float(v) for v in b["vals"]])
                snap[side] = [float(v) for v in b["vals"]]
        cont = c.get("cont", "list")
        tags.add(c["fn"])
        nshared += (c["low"]["mode"] == "shared") or (c["up"]["mode"] == "shared")
        if c["fn"] == "poly":
            x = list(c["x"])
            n = len(x)
            if c.get("reuse") and prev is not None and len(prev) == n:
                ind = prev
                for j, v in enumerate(x):
                    ind[j] = v
            else:
                ind = mk_ind(cont, x)
            res, t = run(tools.mutPolynomialBounded, c["rs"], [], ind, c["eta"], args["low"], args["up"], c["indpb"])
            lines.append("C10 poly %s %s %s %s %s %s" % (fbits(c["eta"]), flist(x), btok(snap["low"]), btok(snap["up"]),
                                                         fbits(c["indpb"]), flist(t.used_r)))
            if isinstance(res, str):
                exps.append(res)
                if orc is None:
                    orc = "call %d (mutPolynomialBounded): implementation raised %s" % (ci, res)
                continue
            lo, up = per_locus(snap["low"], n), per_locus(snap["up"], n)
            y = list(res[0])
            if orc is None:
                orc = first(check_same(res, (ind,), "poly"), check_genes("mutant", y, n),
                            check_bounds("mutant", y, lo, up, n))
                if orc:
                    orc = "call %d of the history (mutPolynomialBounded, bounds at this call low=%r up=%r): %s" % (
                        ci, snap["low"], snap["up"], orc)
            exps.append("ok %s %s 0" % (ident(res, (ind,)), flist(res[0])))
            prev = ind
        else:
            x1, x2 = list(c["x1"]), list(c["x2"])
            n = min(len(x1), len(x2))
            i1, i2 = mk_ind(cont, x1), mk_ind(cont, x2)
            res, t = run(tools.cxSimulatedBinaryBounded, c["rs"], [], i1, i2, c["eta"], args["low"], args["up"])
            lines.append("C10 sbxb %s %s %s %s %s %s" % (fbits(c["eta"]), flist(x1), flist(x2), btok(snap["low"]),
                                                         btok(snap["up"]), flist(t.used_r)))
            if isinstance(res, str):
                exps.append(res)
                if orc is None:
                    orc = "call %d (cxSimulatedBinaryBounded): implementation raised %s" % (ci, res)
                continue
            lo, up = per_locus(snap["low"], n), per_locus(snap["up"], n)
            c1, c2 = list(res[0]), list(res[1])
            if orc is None:
                orc = first(check_same(res, (i1, i2), "sbxb"), check_genes("child1", c1, len(x1)),
                            check_genes("child2", c2, len(x2)), check_bounds("child1", c1, lo, up, n),
                            check_bounds("child2", c2, lo, up, n))
                if orc:
                    orc = "call %d of the history (cxSimulatedBinaryBounded, bounds at this call low=%r up=%r): %s" % (
                        ci, snap["low"], snap["up"], orc)
            exps.append("ok %s %s %s 0" % (ident(res, (i1, i2)), flist(res[0]), flist(res[1])))
        # the operator must not have written into the caller's bound objects
        for side in ("low", "up"):
            if isinstance(snap[side], list) and list(args[side]) != snap[side] and orc is None:
                orc = "call %d of the history: the operator modified the caller's `%s` sequence" % (ci, side)
    return Case(d, lines, exps, orc, tag="hist/%s/%s/%s" % (kind, "+".join(sorted(tags)), "shared>=2" if nshared >= 2 else "shared<2"),
                nontrivial=nshared >= 2, tol=1e-9)


def sbxb_crossed(x1, x2, rs):
    """loci that bounded SBX crosses for the forced draws `rs`, with the shaping draw of each: (i, rand)"""
    k, out = 0, []
    for i in range(min(len(x1), len(x2))):
        if k >= len(rs):
            break
        g = rs[k]; k += 1
        if g <= 0.5 and abs(x1[i] - x2[i]) > 1e-14:
            if k + 1 >= len(rs):
                break
            out.append((i, rs[k])); k += 2
    return out


def poly_mutated(n, indpb, rs):
    k, out = 0, []
    for i in range(n):
        if k >= len(rs):
            break
        g = rs[k]; k += 1
        if g <= indpb:
            if k >= len(rs):
                break
            out.append((i, rs[k])); k += 1
    return out


def in_statement_domain(eta, lo, up):
    """the quantifier of the statement: bound pairs low < up spanning 1e-6 .. 1e6, eta in [0, 1000]"""
    return 0 <= eta <= 1000 and all(l < u and 1e-6 <= u - l <= 2e6 and abs(l) <= 2e6 and abs(u) <= 2e6
                                    for l, u in zip(lo, up))


def gene_state(v, lo, up):
    if isinstance(v, complex):
        return "complex"
    if v != v:
        return "nan"
    if math.isinf(v):
        return "inf"
    return "fin" if lo <= v <= up else "out"


def evaluate_xmag(d):
    """extreme magnitudes (bounds from 1e-300 to 1e308 wide, eta up to 1e6 and beyond, draws next to 0 and 1): outside
    the quantifier of the statement.  Compared: (1) the Float model against the real operator, NaN and infinities
    included (the final clamp and every NaN source of the model agree with the real outcome); (2) the decidable
    hypotheses of the NaN-freedom theorems as Lean evaluates them against an independent evaluation here;
    (3) the theorems' conclusion on the real result: hypotheses hold => the gene is finite and inside the bounds."""
    with numpy.errstate(all="ignore"):          # numpy scalars warn where floats stay silent
        return _evaluate_xmag(d)


def _evaluate_xmag(d):
    op, cont = d["op"], d.get("cont", "list")
    rs = d["rs"]
    eta = d["eta"]
    tol = 1e-9
    if op == "sbxb":
        x1, x2 = list(d["x1"]), list(d["x2"])
        n = min(len(x1), len(x2))
        lo, up = per_locus(d["low"], n), per_locus(d["up"], n)
        i1, i2 = mk_ind(cont, x1), mk_ind(cont, x2)
        res, t = run(tools.cxSimulatedBinaryBounded, rs, [], i1, i2, eta, d["low"], d["up"])
        sites = sbxb_crossed(x1, x2, rs)
        whys = [(i, r, sbxb_why(eta, x1[i], x2[i], lo[i], up[i], r)) for i, r in sites]
        hyp_lines = ["C10 xhyp sbxb %s %s %s %s %s %s" % (fbits(eta), fbits(x1[i]), fbits(x2[i]), fbits(lo[i]),
                                                          fbits(up[i]), fbits(r)) for i, r, _ in whys]
        main = "C10 sbxb %s %s %s %s %s %s" % (fbits(eta), flist(x1), flist(x2), btok(d["low"]), btok(d["up"]),
                                               flist(t.used_r))
        outs = None if isinstance(res, str) else (list(res[0]), list(res[1]))
    else:
        x = list(d["x"])
        n = len(x)
        lo, up = per_locus(d["low"], n), per_locus(d["up"], n)
        ind = mk_ind(cont, x)
        res, t = run(tools.mutPolynomialBounded, rs, [], ind, eta, d["low"], d["up"], d["indpb"])
        sites = poly_mutated(n, d["indpb"], rs)
        whys = [(i, r, poly_why(eta, x[i], lo[i], up[i], r)) for i, r in sites]
        hyp_lines = ["C10 xhyp poly %s %s %s %s %s" % (fbits(eta), fbits(x[i]), fbits(lo[i]), fbits(up[i]), fbits(r))
                     for i, r, _ in whys]
        main = "C10 poly %s %s %s %s %s %s" % (fbits(eta), flist(x), btok(d["low"]), btok(d["up"]),
                                               fbits(d["indpb"]), flist(t.used_r))
        outs = None if isinstance(res, str) else (list(res[0]),)
    all_ok = all(w == "ok" for _, _, w in whys)
    inside = in_statement_domain(eta, lo, up)
    pre = "" if inside else "CORRESPONDENCE: "
    orc, states = None, set()
    if outs is None:
        # an exception: the Float model has none to show; the theorems exclude it when their hypotheses hold
        if all_ok:
            orc = pre + "implementation raised %s although the hypotheses of the NaN-freedom theorem hold" % res
        return Case(d, hyp_lines, [w for _, _, w in whys], orc, tag="%s/xmag/%s" % (op, res), tol=tol)
    for i, r, w in whys:
        for o in outs:
            st = gene_state(o[i], lo[i], up[i])
            states.add(st)
            if w == "ok" and st != "fin" and orc is None:
                orc = pre + "%s: gene %d = %r is not a finite number inside [%r, %r] although the hypotheses of the " \
                            "NaN-freedom theorem (C10.%s_rounded_locus) hold" % (op, i, o[i], lo[i], up[i], op)
    if op == "sbxb":
        exp = "ok 1,2 %s %s 0" % (flist(outs[0]), flist(outs[1]))
    else:
        exp = "ok 1 %s 0" % flist(outs[0])
    letters = "+".join(sorted(set(w for _, _, w in whys))) or "skip"
    tag = "%s/xmag/%s/%s" % (op, letters, "+".join(sorted(states)) or "-")
    return Case(d, [main] + hyp_lines, [exp] + [w for _, _, w in whys], orc, tag=tag, nontrivial=bool(whys), tol=tol)


def _evaluate(d):
    op, cont = d["op"], d.get("cont", "list")
    cat = d.get("cat", "")
    edge = bool(d.get("edge"))          # outside the property's domain: correspondence only
    rs, zs = d.get("rs", []), d.get("zs", [])
    bk = d.get("bk", "list")
    tol = 1e-9

    if op in ("blend", "sbx", "sbxb"):
        i1, i2 = mk_ind(cont, d["x1"]), mk_ind(cont, d["x2"])
        x1, x2 = list(d["x1"]), list(d["x2"])
        n = min(len(x1), len(x2))
        if op == "blend":
            res, t = run(tools.cxBlend, rs, zs, i1, i2, d["alpha"])
            line = "C10 blend %s %s %s %s" % (fbits(d["alpha"]), flist(x1), flist(x2), flist(t.used_r))
        elif op == "sbx":
            res, t = run(tools.cxSimulatedBinary, rs, zs, i1, i2, d["eta"])
            line = "C10 sbx %s %s %s %s" % (fbits(d["eta"]), flist(x1), flist(x2), flist(t.used_r))
        else:
            res, t = run(tools.cxSimulatedBinaryBounded, rs, zs, i1, i2, d["eta"],
                         mk_bound(d["low"], bk), mk_bound(d["up"], bk))
            line = "C10 sbxb %s %s %s %s %s %s" % (fbits(d["eta"]), flist(x1), flist(x2), btok(d["low"]),
                                                   btok(d["up"]), flist(t.used_r))
        if isinstance(res, str):
            return Case(d, [line], [res], None if edge else "implementation raised " + res,
                        tag="%s/%s/%s" % (op, cat, res), tol=tol)
        orc = check_same(res, (i1, i2), op)
        if orc is None:
            c1, c2 = list(res[0]), list(res[1])
            orc = first(check_genes("child1", c1, len(x1)), check_genes("child2", c2, len(x2)))
        if orc is None and op == "blend":
            orc = first(check_sum_exact(op, x1, x2, c1, c2, 6, blend_factors(d["alpha"], t.used_r[:n])),
                        check_range_exact(op, x1, x2, c1, c2, d["alpha"]))
        if orc is None and op == "sbx":
            orc = check_sum_exact(op, x1, x2, c1, c2, 5, sbx_factors(d["eta"], t.used_r[:n]))
        if orc is None and op == "sbxb":
            lo, up = per_locus(d["low"], n), per_locus(d["up"], n)
            orc = first(check_bounds("child1", c1, lo, up, n), check_bounds("child2", c2, lo, up, n))
            if orc is None and (c1[n:] != x1[n:] or c2[n:] != x2[n:]):
                orc = "loci beyond the shorter parent were modified"
        if edge:
            orc = None
        exp = "ok %s %s %s 0" % (ident(res, (i1, i2)) if isinstance(res, tuple) else "?",
                                 flist(res[0]), flist(res[1]))
        if op == "sbxb":
            letters = sbxb_letters(d, t.used_r)
        else:
            letters = "x" if n else "-"
        return Case(d, [line], [exp], orc, tag="%s/%s/%s" % (op, cat, letters),
                    nontrivial=bool(set(letters) - set("ge-")), tol=tol)

    if op == "esblend":
        i1, i2 = mk_ind(cont, d["x1"], d["s1"]), mk_ind(cont, d["x2"], d["s2"])
        s1o, s2o = i1.strategy, i2.strategy
        x1, x2, s1, s2 = list(d["x1"]), list(d["x2"]), list(d["s1"]), list(d["s2"])
        res, t = run(tools.cxESBlend, rs, zs, i1, i2, d["alpha"])
        line = "C10 esblend %s %s %s %s %s %s" % (fbits(d["alpha"]), flist(x1), flist(s1), flist(x2), flist(s2),
                                                  flist(t.used_r))
        if isinstance(res, str):
            return Case(d, [line], [res], None if edge else "implementation raised " + res,
                        tag="esblend/%s/%s" % (cat, res), tol=tol)
        orc = check_same(res, (i1, i2), op)
        if orc is None and (i1.strategy is not s1o or i2.strategy is not s2o):
            orc = "esblend: a strategy list was replaced instead of modified in place"
        if orc is None:
            c1, c2, t1, t2 = list(i1), list(i2), list(i1.strategy), list(i2.strategy)
            orc = first(check_genes("child1", c1, len(x1)), check_genes("child2", c2, len(x2)),
                        check_genes("strategy1", t1, len(s1)), check_genes("strategy2", t2, len(s2)))
        if orc is None:
            m = min(len(x1), len(x2), len(s1), len(s2))
            orc = first(check_sum_exact("esblend genes", x1[:m], x2[:m], c1, c2, 6,
                                        blend_factors(d["alpha"], t.used_r[0:2 * m:2])),
                        check_sum_exact("esblend strategies", s1[:m], s2[:m], t1, t2, 6,
                                        blend_factors(d["alpha"], t.used_r[1:2 * m:2])),
                        check_range_exact("esblend genes", x1[:m], x2[:m], c1, c2, d["alpha"]),
                        check_range_exact("esblend strategies", s1[:m], s2[:m], t1, t2, d["alpha"]))
        if edge:
            orc = None
        ids = "%s,%d,%s,%d" % ("1" if res[0] is i1 else "0", 3 if res[0].strategy is s1o else 0,
                               "2" if res[1] is i2 else "0", 4 if res[1].strategy is s2o else 0)
        exp = "ok %s %s %s %s %s 0" % (ids, flist(res[0]), flist(res[0].strategy), flist(res[1]),
                                       flist(res[1].strategy))
        nz = min(len(x1), len(x2), len(s1), len(s2))
        return Case(d, [line], [exp], orc, tag="esblend/%s/%s" % (cat, "x" if nz else "-"),
                    nontrivial=nz > 0, tol=tol)

    if op == "poly":
        ind = mk_ind(cont, d["x"])
        x = list(d["x"])
        n = len(x)
        res, t = run(tools.mutPolynomialBounded, rs, zs, ind, d["eta"], mk_bound(d["low"], bk),
                     mk_bound(d["up"], bk), d["indpb"])
        line = "C10 poly %s %s %s %s %s %s" % (fbits(d["eta"]), flist(x), btok(d["low"]), btok(d["up"]),
                                               fbits(d["indpb"]), flist(t.used_r))
        if isinstance(res, str):
            return Case(d, [line], [res], None if edge else "implementation raised " + res,
                        tag="poly/%s/%s" % (cat, res), tol=tol)
        orc = check_same(res, (ind,), op)
        if orc is None:
            y = list(res[0])
            lo, up = per_locus(d["low"], n), per_locus(d["up"], n)
            orc = first(check_genes("mutant", y, n), check_bounds("mutant", y, lo, up, n))
        if edge:
            orc = None
        # letters: - gate closed, L rand < 0.5, H rand >= 0.5
        letters, k, i = [], 0, 0
        u = t.used_r
        plo, pup = per_locus(d["low"], n), per_locus(d["up"], n)
        while k < len(u):
            if u[k] <= d["indpb"] and k + 1 < len(u):
                letters.append("L" if u[k + 1] < 0.5 else "H")
                if i < n:
                    letters.append(poly_site(x[i], plo[i], pup[i], d["eta"], u[k + 1]))
                k += 2
            else:
                letters.append("-")
                k += 1
            i += 1
        exp = "ok %s %s 0" % (ident(res, (ind,)), flist(res[0]))
        letters = gate_letters(letters)
        return Case(d, [line], [exp], orc, tag="poly/%s/%s" % (cat, letters),
                    nontrivial=bool(set(letters) - set("-")), tol=tol)

    if op == "gauss":
        ind = mk_ind(cont, d["x"])
        x = list(d["x"])
        n = len(x)
        res, t = run(tools.mutGaussian, rs, zs, ind, mk_bound(d["mu"], bk), mk_bound(d["sigma"], bk), d["indpb"])
        line = "C10 gauss %s %s %s %s %s %s" % (flist(x), btok(d["mu"]), btok(d["sigma"]), fbits(d["indpb"]),
                                                flist(t.used_r), flist(t.used_g))
        if isinstance(res, str):
            return Case(d, [line], [res], None if edge else "implementation raised " + res,
                        tag="gauss/%s/%s" % (cat, res), tol=tol)
        orc = check_same(res, (ind,), op)
        if orc is None:
            y = list(res[0])
            orc = check_genes("mutant", y, n)
            if orc is None and d["indpb"] == 0 and y != x:
                orc = "mutGaussian with indpb = 0 changed the individual: %r -> %r" % (x, y)
        if edge:
            orc = None
        exp = "ok %s %s 0 0" % (ident(res, (ind,)), flist(res[0]))
        letters = ("m" if t.used_g else "-") if n else "-"
        return Case(d, [line], [exp], orc, tag="gauss/%s/%s" % (cat, letters),
                    nontrivial=bool(t.used_g) or d["indpb"] == 0, tol=tol)

    if op == "logn":
        ind = mk_ind(cont, d["x"], d["s"])
        so = ind.strategy
        x, s = list(d["x"]), list(d["s"])
        res, t = run(tools.mutESLogNormal, rs, zs, ind, d["c"], d["indpb"])
        line = "C10 logn %s %s %s %s %s %s" % (fbits(d["c"]), fbits(d["indpb"]), flist(x), flist(s),
                                               flist(t.used_r), flist(t.used_g))
        if isinstance(res, str):
            return Case(d, [line], [res], None if edge else "implementation raised " + res,
                        tag="logn/%s/%s" % (cat, res), tol=tol)
        orc = check_same(res, (ind,), op)
        if orc is None and ind.strategy is not so:
            orc = "mutESLogNormal replaced the strategy list instead of modifying it in place"
        if orc is None:
            y, ts = list(ind), list(ind.strategy)
            orc = first(check_genes("mutant", y, len(x)), check_genes("strategy", ts, len(s)))
            if orc is None and d["indpb"] == 0 and (y != x or ts != s):
                orc = "mutESLogNormal with indpb = 0 changed the individual or its strategy"
            if orc is None and all(v > 0 for v in s):
                for i, v in enumerate(ts):
                    if not v > 0:
                        orc = "strategy[%d] = %r is no longer strictly positive (was %r)" % (i, v, s[i])
                        break
        if edge:
            orc = None
        exp = "ok %s,%d %s %s 0 0" % ("1" if res[0] is ind else "0", 3 if res[0].strategy is so else 0,
                                      flist(res[0]), flist(res[0].strategy))
        letters = "m" if len(t.used_g) > 1 else "-"
        return Case(d, [line], [exp], orc, tag="logn/%s/%s" % (cat, letters),
                    nontrivial=len(t.used_g) > 1 or d["indpb"] == 0, tol=tol)
    raise ValueError(op)


# ---------------------------------------------------------------------------------------------
# generators
# ---------------------------------------------------------------------------------------------
ETAS = [0, 1, 20, 1000, 0.0, 1.0, 20.0, 1000.0]
GRID_BOUNDS = [(0.0, 1.0), (-1e6, 1e6), (1e-6, 2e-6), (1e6, 1e6 + 1e-6), (-5.0, 1e-6), (0, 1)]


def nxt(x, up=True):
    return math.nextafter(x, math.inf if up else -math.inf)


def rand_eta(rng):
    r = rng.random()
    if r < 0.45:
        return rng.choice(ETAS)
    if r < 0.75:
        return rng.uniform(0.0, 1000.0)
    if r < 0.9:
        return min(1000.0, 10.0 ** rng.uniform(-3, 3))
    return float(rng.randint(0, 1000))


def rand_alpha(rng):
    return rng.choice([0.0, 0.5, 1.0, 2.0, 0.1, 0.25]) if rng.random() < 0.5 else rng.uniform(0.0, 2.0)


def rand_mag(rng):
    """a magnitude between 1e-6 and 1e6 (log-uniform, often a power of ten)"""
    return 10.0 ** rng.randint(-6, 6) if rng.random() < 0.4 else 10.0 ** rng.uniform(-6, 6)


def rand_bound_pair(rng):
    """low < up with |low|, |up|, up-low between 1e-6 and 1e6 (up to rounding)"""
    while True:
        w = rand_mag(rng)
        r = rng.random()
        if r < 0.3:
            lo = 0.0
        elif r < 0.45:
            lo = -w / 2
        elif r < 0.55:
            lo = -w
        else:
            lo = rand_mag(rng) * rng.choice([1, -1])
        up = lo + w
        if lo < up and abs(lo) <= 1e6 and abs(up) <= 2e6:
            return lo, up


def rand_gene(rng, lo, up):
    r = rng.random()
    if r < 0.15:
        x = lo
    elif r < 0.30:
        x = up
    elif r < 0.36:
        x = nxt(lo, True)
    elif r < 0.42:
        x = nxt(up, False)
    elif r < 0.47:
        x = lo + (up - lo) * 0.5
    else:
        x = lo + (up - lo) * rng.random()
    return min(max(float(x), float(lo)), float(up))


def rand_mate(rng, x, lo, up):
    """second parent at the same locus: equal / within the 1e-14 guard / one ulp apart / independent"""
    r = rng.random()
    if r < 0.15:
        y = x
    elif r < 0.22:
        y = x + rng.choice([1, -1]) * rng.choice([1e-15, 5e-15, 1e-14, 9.9e-15])
    elif r < 0.27:
        y = x + rng.choice([1, -1]) * rng.choice([1.1e-14, 2e-14, 1e-13])
    elif r < 0.32:
        y = nxt(x, rng.random() < 0.5)
    else:
        return rand_gene(rng, lo, up)
    return min(max(float(y), float(lo)), float(up))


def rand_draw(rng, edge_p):
    if rng.random() < edge_p:
        return rng.choice(DRAW_EDGE)
    return rng.random()


def rand_z(rng, edge_p):
    if rng.random() < edge_p:
        return rng.choice([0.0, ZMAX, -ZMAX, 1e-300, -1e-300, 1.0, -1.0])
    return rng.gauss(0.0, 1.0)


def rand_indpb(rng):
    r = rng.random()
    return 0.0 if r < 0.2 else 1.0 if r < 0.5 else rng.random() if r < 0.95 else rng.choice([0, 1, 0.5])


def bounds_for(rng, n, extra=0):
    """-> (low, up, per-locus low, per-locus up, kind); scalar or sequence (possibly longer than n)"""
    if rng.random() < 0.5:
        lo, up = rand_bound_pair(rng)
        if rng.random() < 0.1 and lo == int(lo) and up == int(up) and abs(up) < 1e6:
            lo, up = int(lo), int(up)
        return lo, up, [lo] * n, [up] * n, "scalar"
    m = n + extra + (rng.randint(0, 2) if rng.random() < 0.3 else 0)
    ps = [rand_bound_pair(rng) for _ in range(m)]
    if rng.random() < 0.3:
        ps = [ps[0]] * m if m else ps
    lo, up = [p[0] for p in ps], [p[1] for p in ps]
    if rng.random() < 0.25:                     # one scalar, one sequence
        if rng.random() < 0.5:
            v = min(lo) if lo else 0.0
            return v, up, [v] * n, up[:n], rng.choice(["list", "tuple", "array"])
        v = max(up) if up else 1.0
        return lo, v, lo[:n], [v] * n, rng.choice(["list", "tuple", "array"])
    return lo, up, lo[:n], up[:n], rng.choice(["list", "tuple", "array"])


def grid(tier):
    """single-locus cases with every combination of boundary draws"""
    etas = [0, 1, 20, 1000.0]
    for lo, up in GRID_BOUNDS:
        mid = lo + (up - lo) * 0.375
        pts = [float(lo), mid, float(up)]
        for eta in etas:
            # bounded SBX: gate draw passes (0.5) -> rand x swap
            for a in pts:
                for b in pts:
                    for rand in DRAW_EDGE + [0.25, 0.75]:
                        for s in (0.5, 0.5 + EPSM):
                            yield {"op": "sbxb", "cat": "grid", "x1": [a], "x2": [b], "eta": eta, "low": lo,
                                   "up": up, "rs": [0.5, rand, s]}
                    yield {"op": "sbxb", "cat": "grid", "x1": [a], "x2": [b], "eta": eta, "low": lo, "up": up,
                           "rs": [0.5 + EPSM, 0.1, 0.1]}
            for a in pts:
                for rand in DRAW_EDGE + [0.25, 0.75]:
                    for indpb, g in ((1.0, TOP), (0.0, 0.0), (0.5, 0.5), (0.5, 0.5 + EPSM)):
                        yield {"op": "poly", "cat": "grid", "x": [a], "eta": eta, "low": lo, "up": up,
                               "indpb": indpb, "rs": [g, rand]}
    for eta in etas:
        for a, b in ((1.0, 2.0), (-1e6, 1e6), (3.0, 3.0), (1e-6, -1e-6), (0.0, 1e6)):
            for rand in DRAW_EDGE + [0.25, 0.75]:
                yield {"op": "sbx", "cat": "grid", "x1": [a], "x2": [b], "eta": eta, "rs": [rand]}
    for alpha in (0.0, 0.5, 1.0, 2.0):
        for a, b in ((1.0, 2.0), (-1e6, 1e6), (3.0, 3.0), (1e-6, -1e-6), (0.0, 1e6)):
            for r in DRAW_EDGE + [0.25]:
                yield {"op": "blend", "cat": "grid", "x1": [a], "x2": [b], "alpha": alpha, "rs": [r]}
                for q in (0.0, TOP, 0.5):
                    yield {"op": "esblend", "cat": "grid", "x1": [a], "x2": [b], "s1": [abs(a) + 1e-6],
                           "s2": [abs(b) + 1e-6], "alpha": alpha, "rs": [r, q]}
    for indpb, g in ((0.0, 0.0), (0.0, 0.5), (1.0, TOP), (0.5, 0.5), (0.5, 0.5 - EPSM), (0, 0.0), (1, TOP)):
        for z in (0.0, ZMAX, -ZMAX, 1.0):
            for mu, sg in ((0.0, 1.0), (1e6, 1e6), (-1e-6, 1e-6), (0, 0)):
                yield {"op": "gauss", "cat": "grid", "x": [1.5], "mu": mu, "sigma": sg, "indpb": indpb,
                       "rs": [g], "zs": [z]}
            for c in (1.0, 0.0, 10.0, 0.01):
                for s in (1e-6, 1.0, 1e6):
                    for z1 in (0.0, ZMAX, -ZMAX):
                        yield {"op": "logn", "cat": "grid", "x": [1.5], "s": [s], "c": c, "indpb": indpb,
                               "rs": [g], "zs": [z, z1, -z]}
    # error branches of the code (outside the property's domain: model-vs-implementation only)
    yield {"op": "sbxb", "cat": "edge", "edge": True, "x1": [0.1, 0.2], "x2": [0.3, 0.4], "eta": 1.0,
           "low": [0.0], "up": 1.0, "rs": [0.1] * 6}
    yield {"op": "sbxb", "cat": "edge", "edge": True, "x1": [0.1, 0.2], "x2": [0.3, 0.4], "eta": 1.0,
           "low": 0.0, "up": [1.0], "rs": [0.1] * 6}
    yield {"op": "sbxb", "cat": "edge", "edge": True, "x1": [0.1, 0.2], "x2": [0.3], "eta": 1.0,
           "low": [0.0], "up": [1.0], "rs": [0.1] * 6}
    yield {"op": "poly", "cat": "edge", "edge": True, "x": [0.1, 0.2], "eta": 1.0, "low": [0.0], "up": 1.0,
           "indpb": 1.0, "rs": [0.1] * 4}
    yield {"op": "poly", "cat": "edge", "edge": True, "x": [0.1, 0.2], "eta": 1.0, "low": 0.0, "up": [],
           "indpb": 1.0, "rs": [0.1] * 4}
    yield {"op": "gauss", "cat": "edge", "edge": True, "x": [0.1, 0.2], "mu": [0.0], "sigma": 1.0, "indpb": 1.0,
           "rs": [0.1] * 2, "zs": [0.3] * 2}
    yield {"op": "gauss", "cat": "edge", "edge": True, "x": [0.1, 0.2], "mu": 0.0, "sigma": [1.0], "indpb": 1.0,
           "rs": [0.1] * 2, "zs": [0.3] * 2}
    yield {"op": "logn", "cat": "edge", "edge": True, "x": [], "s": [], "c": 1.0, "indpb": 1.0, "rs": [], "zs": [0.1]}
    yield {"op": "logn", "cat": "edge", "edge": True, "x": [0.1, 0.2, 0.3], "s": [1.0], "c": 1.0, "indpb": 0.5,
           "rs": [0.1, 0.9, 0.1], "zs": [0.1] * 7}
    yield {"op": "logn", "cat": "edge", "edge": True, "x": [0.1, 0.2, 0.3], "s": [1.0], "c": 1.0, "indpb": 0.5,
           "rs": [0.1, 0.9, 0.9], "zs": [0.1] * 7}
    yield {"op": "logn", "cat": "edge", "edge": True, "x": [0.1], "s": [1.0, 2.0], "c": 1.0, "indpb": 1.0,
           "rs": [0.1], "zs": [0.1] * 3}
    for op in ("blend", "sbx"):
        yield {"op": op, "cat": "edge", "edge": True, "x1": [], "x2": [1.0], "alpha": 0.5, "eta": 1.0, "rs": []}
    yield {"op": "esblend", "cat": "edge", "edge": True, "x1": [1.0, 2.0], "s1": [1.0], "x2": [3.0, 4.0, 5.0],
           "s2": [1.0, 2.0, 3.0], "alpha": 0.5, "rs": [0.3, 0.6, 0.1, 0.2]}


OPS = ["sbxb", "poly", "blend", "esblend", "sbx", "gauss", "logn"]


def random_case(rng, op=None, cont=None):
    op = op or rng.choice(["sbxb", "sbxb", "sbxb", "poly", "poly", "poly", "blend", "esblend", "sbx", "gauss", "logn"])
    cont = cont or rng.choice(["list", "list", "list", "array", "array", "ndarray", "vec", "seq"])
    n = rng.choice([1, 1, 2, 2, 3, 4, 5, 8]) if rng.random() < 0.93 else rng.choice([12, 17, 25, 40])
    edge_p = rng.choice([0.0, 0.0, 0.15, 0.5, 1.0])
    cat = "rand" if edge_p == 0 else "mix" if edge_p < 1 else "extreme"
    d = {"op": op, "cont": cont, "cat": cat}
    if op in ("sbxb", "poly"):
        n2 = n + (rng.randint(0, 2) if (op == "sbxb" and rng.random() < 0.15) else 0)
        low, up, lo, hi, kind = bounds_for(rng, n, 0)
        d.update(low=low, up=up, bk=kind if kind != "scalar" else "list", eta=rand_eta(rng))
        x1 = [rand_gene(rng, lo[i], hi[i]) for i in range(n)]
        if op == "poly":
            d.update(x=x1, indpb=rand_indpb(rng), rs=[rand_draw(rng, edge_p) for _ in range(2 * n)])
            return d
        x2 = [rand_mate(rng, x1[i], lo[i], hi[i]) for i in range(n)]
        if n2 > n:      # one parent longer: extra loci (inside the last bound pair) must stay untouched
            ext = [rand_gene(rng, lo[-1], hi[-1]) for _ in range(n2 - n)]
            if rng.random() < 0.5:
                x1 = x1 + ext
            else:
                x2 = x2 + ext
        rs = []
        for _ in range(n):
            g = rand_draw(rng, edge_p)
            if rng.random() < 0.5:
                g = g * 0.5            # open the gate more often than not
            rs += [g, rand_draw(rng, edge_p), rand_draw(rng, edge_p)]
        d.update(x1=x1, x2=x2, rs=rs)
        return d
    if op in ("blend", "sbx", "esblend"):
        scale = rand_mag(rng)
        def gene():
            r = rng.random()
            return 0.0 if r < 0.05 else scale * rng.uniform(-1, 1) if r < 0.7 else rand_mag(rng) * rng.choice([1, -1])
        x1 = [gene() for _ in range(n)]
        x2 = [x1[i] if rng.random() < 0.12 else -x1[i] if rng.random() < 0.08 else gene() for i in range(n)]
        if rng.random() < 0.15:
            x2 = x2 + [gene() for _ in range(rng.randint(1, 2))]
        elif rng.random() < 0.1:
            x1 = x1 + [gene()]
        d.update(x1=x1, x2=x2)
        if op == "sbx":
            d.update(eta=rand_eta(rng), rs=[rand_draw(rng, edge_p) for _ in range(n)])
        else:
            d.update(alpha=rand_alpha(rng), rs=[rand_draw(rng, edge_p) for _ in range(2 * n)])
        if op == "esblend":
            d.update(s1=[rand_mag(rng) for _ in x1], s2=[rand_mag(rng) for _ in x2])
            if rng.random() < 0.1:
                d["s2"] = [d["s1"][i] if i < len(d["s1"]) else 1.0 for i in range(len(x2))]
        return d
    scale = rand_mag(rng)
    x = [0.0 if rng.random() < 0.05 else scale * rng.uniform(-1, 1) for _ in range(n)]
    d.update(x=x, indpb=rand_indpb(rng), rs=[rand_draw(rng, edge_p) for _ in range(n)])
    if op == "gauss":
        def par(pos):
            if rng.random() < 0.5:
                v = rand_mag(rng) * (1 if pos else rng.choice([1, -1]))
                return 0.0 if rng.random() < 0.15 else v
            m = n + (rng.randint(0, 2) if rng.random() < 0.3 else 0)
            return [0.0 if rng.random() < 0.1 else rand_mag(rng) * (1 if pos else rng.choice([1, -1])) for _ in range(m)]
        d.update(mu=par(False), sigma=par(True), bk=rng.choice(["list", "tuple", "array"]),
                 zs=[rand_z(rng, edge_p) for _ in range(n)])
        return d
    d.update(s=[rand_mag(rng) for _ in range(n)], c=rng.choice([1.0, 1.0, 0.5, 0.1, 0.01, 0.0, 2.0, 10.0, rng.uniform(0, 10), rng.uniform(10, 50), 50.0]),
             zs=[rand_z(rng, edge_p) for _ in range(2 * n + 1)])
    return d


def uneven_bound_pair(rng):
    """low < up of unequal magnitude, so that sums like x1 + x2, xl + (xu - xl) round"""
    while True:
        r = rng.random()
        if r < 0.25:
            lo, up = -rand_mag(rng), rand_mag(rng)
        elif r < 0.5:
            lo = rand_mag(rng) * rng.choice([1, -1])
            up = lo + rand_mag(rng)
        elif r < 0.65:
            lo, up = 0.0, rand_mag(rng) * rng.uniform(1, 3)
        elif r < 0.8:
            lo, up = -rand_mag(rng) * rng.uniform(1, 3), 0.0
        else:
            lo, up = rng.choice(GRID_BOUNDS[1:5])
        if lo < up and abs(lo) <= 1e6 and abs(up) <= 2e6:
            return float(lo), float(up)


def near_bound(rng, lo, up, side):
    """a gene on the given bound, one / a few ulps inside, or a tiny fraction of the width inside"""
    b, inward = (lo, True) if side == "lo" else (up, False)
    r = rng.random()
    if r < 0.5:
        x = b
    elif r < 0.7:
        x = nxt(b, inward)
    elif r < 0.8:
        x = nxt(nxt(nxt(b, inward), inward), inward)
    else:
        x = b + (1 if inward else -1) * (up - lo) * rng.choice([1e-16, 1e-15, 1e-12, 1e-9])
    return min(max(float(x), lo), up)


def clamp_case(rng, op):
    """inputs for which the value before `min(max(c, xl), xu)` tends to leave [xl, xu] by rounding"""
    n = rng.choice([1, 1, 1, 2, 3])
    ps = [uneven_bound_pair(rng) for _ in range(n)]
    if rng.random() < 0.6:
        ps = [ps[0]] * n
        low, up, bk = ps[0][0], ps[0][1], "list"
    else:
        low, up, bk = [p[0] for p in ps], [p[1] for p in ps], rng.choice(["list", "tuple", "array"])
    eta = rng.choice([0, 1, 2, 5, 20, 100, 1000, rng.uniform(0, 50), rng.uniform(0, 1000)])
    d = {"op": op, "cat": "clamp", "cont": rng.choice(["list", "list", "array", "ndarray", "vec", "seq"]), "low": low, "up": up,
         "bk": bk, "eta": eta}
    edge = DRAW_EDGE + [TOP, TOP, 0.0]
    if op == "poly":
        side = rng.choice(["lo", "up", "up"])
        if side == "up" and rng.random() < 0.5:       # upper bound small against the width: overshoot is not absorbed
            w = rand_mag(rng) * rng.uniform(1, 3)
            ps = [(-w, rng.choice([0.0, 0.0, 1e-6, w * 1e-9]))] * n
            d.update(low=ps[0][0], up=ps[0][1], bk="list")
        d["x"] = [near_bound(rng, lo, hi, side if rng.random() < 0.8 else rng.choice(["lo", "up"])) for lo, hi in ps]
        d["indpb"] = 1.0
        rs = []
        for _ in range(n):
            r = rng.random()
            # the branch that moves towards the touched bound is the one that can overshoot it
            rand = rng.choice(edge) if r < 0.35 else (rng.random() * 0.5 if side == "lo" else 0.5 + rng.random() * 0.5)
            rs += [rng.random(), min(rand, TOP)]
        d["rs"] = rs
        return d
    x1, x2 = [], []
    for lo, hi in ps:
        r = rng.random()
        if r < 0.45:                       # parents on both bounds
            a, b = near_bound(rng, lo, hi, "lo"), near_bound(rng, lo, hi, "up")
        elif r < 0.7:                      # one parent on a bound, the other inside
            a, b = near_bound(rng, lo, hi, "lo"), lo + (hi - lo) * rng.random()
        elif r < 0.95:
            a, b = lo + (hi - lo) * rng.random(), near_bound(rng, lo, hi, "up")
        else:
            a, b = rand_gene(rng, lo, hi), rand_gene(rng, lo, hi)
        a, b = min(max(a, lo), hi), min(max(b, lo), hi)
        if rng.random() < 0.5:
            a, b = b, a
        x1.append(a)
        x2.append(b)
    rs = []
    for _ in range(n):
        rand = rng.choice(edge) if rng.random() < 0.6 else rng.random()
        rs += [rng.random() * 0.5, rand, rng.random()]
    d.update(x1=x1, x2=x2, rs=rs)
    return d


def alias_case(rng):
    op = rng.choice(["blend", "sbx", "sbxb", "esblend"])
    n = rng.choice([1, 2, 3, 5])
    lo, up = rand_bound_pair(rng)
    x = [rand_gene(rng, lo, up) for _ in range(n)]
    edge_p = rng.choice([0.0, 0.3, 1.0])
    d = {"op": op, "alias": True, "cat": "alias", "cont": rng.choice(CONTAINERS), "x1": x,
         "rs": [rand_draw(rng, edge_p) for _ in range(3 * n)]}
    if op in ("blend", "esblend"):
        d["alpha"] = rand_alpha(rng)
    else:
        d["eta"] = rand_eta(rng)
    if op == "sbxb":
        d.update(low=lo, up=up)
    if op == "esblend":
        d["s1"] = [rand_mag(rng) for _ in range(n)]
    return d


# ---------------------------------------------------------------------------------------------
# extreme magnitudes
# ---------------------------------------------------------------------------------------------
XDRAWS = [0.0, 5e-324, 1e-300, EPSM, 0.25, 0.5 - EPSM, 0.5, 0.5 + EPSM, 0.75, 1.0 - 2.0 ** -52, TOP]
XETAS = [0, 0.0, 1e-3, 1.0, 20.0, 1e3, 1e6, 1e6, 1e15, 1e300]
XPOOL = ["nan", "inf", "-inf", 0.0, -0.0, 5e-324, -5e-324, 2.2250738585072014e-308, 1e-300, -1e-300, 1e-14, 0.3, 1.0,
         -1.0, 1e6, -1e6, 1e300, -1e300, 1e308, -1e308, sys.float_info.max, -sys.float_info.max]


def xwidth(rng):
    """a width between 1e-300 and 1.7e308 (log-uniform exponents, special ones near the guard and near overflow)"""
    r = rng.random()
    if r < 0.12:
        return rng.choice([1e-14, 1.5e-14, 9.9e-15, 2e-14, 1e-15])
    if r < 0.30:
        return rng.choice([8.9e307, 9e307, 1e308, 1.7e308, sys.float_info.max, 4.5e307])
    m = rng.choice([1.0, 1.0, 1.5, rng.uniform(1.0, 10.0)])
    return m * 10.0 ** rng.choice([-300, -250, -200, -100, -50, -20, -10, -3, 0, 3, 10, 50, 100, 200, 300, 307,
                                   rng.randint(-300, 307)])


def xbounds(rng, wmin=0.0):
    """low < up, both finite; the width or the sum of the bounds may overflow"""
    for _ in range(100):
        w = xwidth(rng)
        if w < wmin:
            continue
        r = rng.random()
        if r < 0.25:
            lo = 0.0
        elif r < 0.45:
            lo = -w / 2
        elif r < 0.55:
            lo = -w
        elif r < 0.65:
            lo = w
        elif r < 0.75:
            lo = rng.choice([1.0, -1.0, 1e6, -1e6])
        elif r < 0.85:
            lo = rng.choice([1e300, -1e300, 1e307, -1.7e308, -1e308, -9e307])
        else:
            lo = rng.choice([1, -1]) * 10.0 ** rng.randint(-300, 300)
        up = lo + w
        if r >= 0.97:
            lo, up = rng.choice([(-1e308, 1e308), (-1.7e308, 1.7e308), (-9e307, 9e307), (-sys.float_info.max, sys.float_info.max)])
        if math.isfinite(lo) and math.isfinite(up) and lo < up:
            return float(lo), float(up)
    return 0.0, 1.0


def xgene(rng, lo, up):
    r = rng.random()
    if r < 0.3:
        x = lo
    elif r < 0.6:
        x = up
    elif r < 0.68:
        x = nxt(lo, True)
    elif r < 0.76:
        x = nxt(up, False)
    elif r < 0.86:
        x = lo / 2 + up / 2
    else:
        x = lo / 2 + up / 2 + (up / 2 - lo / 2) * rng.uniform(-1, 1)
    if not math.isfinite(x):
        x = lo
    return min(max(float(x), lo), up)


def xdraw(rng):
    return rng.choice(XDRAWS) if rng.random() < 0.75 else rng.random()


def xmag_case(rng, op):
    n = rng.choice([1, 1, 1, 2])
    # bounded SBX never crosses parents closer than 1e-14: narrower bounds are left to the mutation
    ps = [xbounds(rng, 1e-15 if op == "sbxb" else 0.0) for _ in range(n)]
    if n > 1 and rng.random() < 0.5:
        ps = [ps[0]] * n
    scalar = all(p == ps[0] for p in ps)
    low = ps[0][0] if scalar else [p[0] for p in ps]
    up = ps[0][1] if scalar else [p[1] for p in ps]
    d = {"op": op, "xmag": True, "cat": "xmag", "cont": rng.choice(["list", "list", "array", "ndarray"]),
         "low": low, "up": up, "eta": rng.choice(XETAS)}
    if op == "poly":
        d["x"] = [xgene(rng, lo, hi) for lo, hi in ps]
        d["indpb"] = 1.0
        d["rs"] = [v for _ in range(n) for v in (rng.random(), xdraw(rng))]
        return d
    d["x1"] = [xgene(rng, lo, hi) for lo, hi in ps]
    d["x2"] = [xgene(rng, lo, hi) for lo, hi in ps]
    for i, (lo, hi) in enumerate(ps):            # equal parents are skipped by the guard: mostly avoid them
        if d["x1"][i] == d["x2"][i] and rng.random() < 0.85:
            d["x2"][i] = hi if d["x1"][i] != hi else lo
    d["rs"] = [v for _ in range(n) for v in (rng.random() * 0.5, xdraw(rng), rng.random())]
    return d


def xclamp_case(rng):
    def pick():
        v = rng.choice(XPOOL)
        if rng.random() < 0.3:
            v = rng.choice([1, -1]) * 10.0 ** rng.uniform(-320, 308)
        return v
    c, a, b = pick(), pick(), pick()
    if rng.random() < 0.8:                       # proper bounds: finite, ordered
        fa, fb = float(a), float(b)
        if not math.isfinite(fa):
            fa = 0.0
        if not math.isfinite(fb):
            fb = 1.0
        a, b = min(fa, fb), max(fa, fb)
    return {"op": "xclamp", "cat": "xclamp", "c": dv(c), "xl": dv(a), "xu": dv(b)}


# ---------------------------------------------------------------------------------------------
# histories of calls sharing bound objects; the boundary of the log-normal positivity clause
# ---------------------------------------------------------------------------------------------
def hist_case(rng):
    """3..6 consecutive calls of mutPolynomialBounded / cxSimulatedBinaryBounded.  One `low` and one `up` sequence object
    are shared by the calls in mode `shared` and edited in place in between (box narrowed, moved, resized); the other
    modes pass fresh sequences with the current contents, tuples or scalars."""
    kind = rng.choice(["list", "list", "array"])
    m = rng.choice([1, 1, 2, 3, 4])
    ps = [rand_bound_pair(rng) for _ in range(m)]
    if rng.random() < 0.4:
        ps = [ps[0]] * m
    calls = []
    fn = rng.choice(["poly", "poly", "sbxb"])
    for ci in range(rng.randint(3, 6)):
        if ci:
            r = rng.random()
            if r < 0.55:                                   # narrow the box in place
                nps = []
                for lo, up in ps:
                    a = lo + (up - lo) * rng.uniform(0.0, 0.45)
                    b = up - (up - lo) * rng.uniform(0.0, 0.45)
                    nps.append((a, b) if a < b and b - a >= 1e-6 else (lo, up))
                ps = nps
            elif r < 0.75:                                 # move it
                ps = [(lo + (up - lo) * sh, up + (up - lo) * sh) for (lo, up), sh in
                      ((p, rng.choice([-1.5, -1.0, -0.5, 0.5, 1.0, 1.5])) for p in ps)]
                ps = [(lo, up) if abs(lo) <= 1e6 and abs(up) <= 2e6 else (0.0, 1.0) for lo, up in ps]
            elif r < 0.85:                                 # another number of bound pairs
                m = rng.choice([1, 2, 3, 4])
                ps = (ps + [rand_bound_pair(rng) for _ in range(m)])[:m]
            if rng.random() < 0.15:
                fn = rng.choice(["poly", "sbxb"])
        modes = {}
        for side in ("low", "up"):
            r = rng.random()
            modes[side] = "shared" if r < 0.6 else "new" if r < 0.8 else "scalar"
        if rng.random() < 0.5:
            modes["up"] = modes["low"]
        spec, eff = {}, {}
        for side, k in (("low", 0), ("up", 1)):
            vals = [p[k] for p in ps]
            if modes[side] == "scalar":
                v = min(vals) if side == "low" else max(vals)
                spec[side] = {"mode": "scalar", "v": v}
                eff[side] = [v] * len(ps)
            elif modes[side] == "shared":
                spec[side] = {"mode": "shared", "vals": vals, "how": rng.choice(["item", "item", "slice"])}
                eff[side] = vals
            else:
                spec[side] = {"mode": "new", "vals": vals, "kind": rng.choice([kind, "list", "tuple"])}
                eff[side] = vals
        n = len(ps) if rng.random() < 0.8 else rng.randint(1, len(ps))
        eta = rng.choice([0, 0, 0.0, 0.5, 1, 1.0, 2.0, 20.0, 1000.0])
        c = {"fn": fn, "low": spec["low"], "up": spec["up"], "eta": eta,
             "cont": rng.choice(["list", "list", "array", "ndarray"])}
        if fn == "poly":
            c.update(x=[rand_gene(rng, eff["low"][i], eff["up"][i]) for i in range(n)], indpb=1.0,
                     reuse=rng.random() < 0.3,
                     rs=[v for _ in range(n) for v in (rng.random(), rng.choice([0.0, TOP, rng.random(), rng.random()]))])
        else:
            x1 = [rand_gene(rng, eff["low"][i], eff["up"][i]) for i in range(n)]
            x2 = [rand_gene(rng, eff["low"][i], eff["up"][i]) for i in range(n)]
            c.update(x1=x1, x2=x2, rs=[v for _ in range(n) for v in (rng.random() * 0.5, rng.choice(
                [0.0, TOP, rng.random(), rng.random()]), rng.random())])
        calls.append(c)
    return {"op": "hist", "cat": "hist", "kind": kind, "calls": calls}


XS_POOL = [5e-324, 1e-323, 1e-310, 2.2250738585072014e-308, 1e-300, 1e-200, 1e-100, 1e-20, 1e-6, 1.0, 1e6, 1e100, 1e300,
           1.7e308]
XA_POOL = [-800.0, -746.0, -745.2, -745.13, -745.0, -744.5, -744.2, -744.0, -740.0, -700.0, -100.0, -1.0, 0.0, 1.0, 100.0,
           700.0, 709.0, 709.5, 709.78, 709.79, 710.0, 750.0]


def xlogn_case(rng):
    """mutESLogNormal around the boundary of the positivity clause: the exponent argument is steered to a target value
    (first gauss draw 0, the locus draw = target / t) or left to boundary / normal gauss draws under a large c"""
    n = rng.choice([1, 1, 1, 2, 3])
    c = rng.choice([1.0, 10.0, 50.0, 61.0, 100.0, 500.0, 1000.0])
    s = [rng.choice(XS_POOL) if rng.random() < 0.7 else 10.0 ** rng.uniform(-320, 308) for _ in range(n)]
    t = c / math.sqrt(2. * math.sqrt(n))
    zs = [0.0 if rng.random() < 0.7 else rand_z(rng, 0.5)]
    for i in range(n):
        r = rng.random()
        if r < 0.55:
            z = rng.choice(XA_POOL) / t
        elif r < 0.75:                       # the product boundary of this strategy: s * exp(a) ~ 2^-1074
            a = math.log(5e-324) - math.log(s[i]) if s[i] > 0 else 0.0
            z = (a + rng.choice([-2.0, -1.0, -0.5, 0.0, 0.5, 1.0, 2.0])) / t
        else:
            z = rand_z(rng, 0.7)
        zs += [z, rand_z(rng, 0.3)]
    return {"op": "logn", "xlogn": True, "cat": "xlogn", "cont": rng.choice(["list", "list", "array", "ndarray"]),
            "x": [rng.uniform(-1, 1) for _ in range(n)], "s": s, "c": c, "indpb": 1.0 if rng.random() < 0.9 else 0.5,
            "rs": [rng.random() for _ in range(n)], "zs": zs}


def generate(tier, rng, mult):
    for d in grid(tier):
        yield d
    thorough = tier == "thorough"
    for _ in range((20000 if thorough else 2500) * mult):
        yield hist_case(rng)
    for _ in range((40000 if thorough else 4000) * mult):
        yield clamp_case(rng, "sbxb")
    for _ in range((40000 if thorough else 4000) * mult):
        yield clamp_case(rng, "poly")
    for c in XPOOL:                                    # the clamp on every special value, fixed bounds
        for xl, xu in ((0.0, 1.0), (-1e308, 1e308), (-0.1, 0.3), (5e-324, 1e-300), (1.0, 1.0)):
            yield {"op": "xclamp", "cat": "xclamp", "c": dv(c), "xl": xl, "xu": xu}
    for _ in range((3000 if thorough else 300) * mult):
        yield xclamp_case(rng)
    # the inputs of the counterexample theorems C10.poly_width_overflow_nan / C10.sbxb_width_overflow_nan on the real code
    for eta in (0, 0.0, 20.0, 1e6):
        yield {"op": "poly", "xmag": True, "cat": "xmag", "x": [-1e308], "low": -1e308, "up": 1e308, "eta": eta,
               "indpb": 1.0, "rs": [0.0, 0.0]}
    yield {"op": "sbxb", "xmag": True, "cat": "xmag", "x1": [-1e308], "x2": [1e308], "low": -1e308, "up": 1e308,
           "eta": 0.0, "rs": [0.25, 0.0, 0.75]}
    yield {"op": "sbxb", "xmag": True, "cat": "xmag", "x1": [8.5e307], "x2": [1.7e308], "low": 0.0, "up": 1.7e308,
           "eta": 0.0, "rs": [0.25, TOP, 0.75]}
    for _ in range((150000 if thorough else 2500) * mult):
        yield xmag_case(rng, "sbxb")
    for _ in range((150000 if thorough else 2500) * mult):
        yield xmag_case(rng, "poly")
    # the inputs of the witness theorems C10.lognormal_underflow_zero / lognormal_overflow_raises on the real code
    for sv, zv in ((1.0, -746.0), (5e-324, -1.0), (1e-300, -60.0), (1.0, 710.0), (1.0, -744.0), (1e-6, -600.0)):
        yield {"op": "logn", "xlogn": True, "cat": "xlogn", "x": [0.5], "s": [sv], "c": math.sqrt(2.0), "indpb": 1.0,
               "rs": [0.25], "zs": [0.0, zv, 0.5]}
    for _ in range((60000 if thorough else 3000) * mult):
        yield xlogn_case(rng)
    for _ in range((4000 if thorough else 400) * mult):
        yield alias_case(rng)
    # every operator on every kind of sequence individual (which pairs run never depends on the seed)
    for op in OPS:
        for cont in CONTAINERS:
            for _ in range((400 if thorough else 40) * mult):
                d = random_case(rng, op, cont)
                d["cat"] = "cont-" + cont
                yield d
    nrand = (500000 if tier == "thorough" else 30000) * mult
    for _ in range(nrand):
        yield random_case(rng)


# ---------------------------------------------------------------------------------------------
# shrinking: single-locus sub-cases with every plausible draw offset, then simpler parameters
# ---------------------------------------------------------------------------------------------
def _at(b, i):
    return b[i] if isinstance(b, list) else b


def shrink(d):
    op = d["op"]
    keys = [k for k in ("x1", "x2", "x", "s", "s1", "s2") if k in d]
    n = min(len(d[k]) for k in keys) if keys else 0
    if max([len(d[k]) for k in keys] or [0]) > 1:
        per = {"sbxb": (1, 3), "poly": (1, 2), "blend": (1, 1), "sbx": (1, 1), "esblend": (2, 2),
               "gauss": (1, 1), "logn": (1, 1)}[op]
        for i in range(n):
            for off in range(per[0] * i, per[1] * i + 1):
                zoffs = [0]
                if op == "gauss":
                    zoffs = range(0, i + 1)
                elif op == "logn":
                    zoffs = range(0, 2 * i + 1, 2)
                for zo in zoffs:
                    e = dict(d)
                    for k in keys:
                        e[k] = [d[k][i]]
                    for k in ("low", "up", "mu", "sigma"):
                        if k in d:
                            b = d[k]
                            if isinstance(b, list) and i >= len(b):
                                break
                            e[k] = _at(b, i)
                    else:
                        e["rs"] = d.get("rs", [])[off:]
                        if "zs" in d:
                            z = d["zs"]
                            e["zs"] = (z[:1] + z[1 + zo:]) if op == "logn" else z[zo:]
                        yield e
    if d.get("cont", "list") != "list":
        e = dict(d)
        e["cont"] = "list"
        yield e
    for k, simple in (("eta", [0, 1, 20]), ("alpha", [0.0, 0.5, 1.0]), ("indpb", [1.0, 0.5]), ("c", [1.0])):
        if k in d and d[k] not in simple:
            for v in simple:
                e = dict(d)
                e[k] = v
                yield e
    for k in ("rs", "zs"):
        if k in d:
            for i, v in enumerate(d[k]):
                for r in (0.25, 0.75):
                    if v != r and v not in DRAW_EDGE:
                        e = dict(d)
                        e[k] = d[k][:i] + [r] + d[k][i + 1:]
                        yield e


def classify(desc, msg, known):
    return None
