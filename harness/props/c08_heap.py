"""C08, heap-level correspondence: the caller's object graphs as the heap of lean/DeapModel/Core/ArchiveHeap.lean.

`World` mirrors every object the *caller* owns (individuals, their nested genome lists, strategy lists, meta
dicts and the lists inside them, fitness objects) into the model's heap: `sync` walks everything reachable from
the individuals created so far and emits `a=<obj>` for objects the model has not seen and `w<k>=<obj>` for objects
whose content differs from what the model was last told - so whatever the harness does to the caller's objects
in place (genome edits at any level, attribute edits, `fitness.values = ...`, `del fitness.values`, a new Fitness
object, re-filling a re-submitted individual) reaches the model as heap writes, without the harness having to
describe the modification.  `state` prints the real archive the way `DriverC08.HeapOp.showStateH` prints the
model's: every member as an identity-free term in which an object of the caller appears as `c<k>` (so a member
that shares anything with the caller differs from the model's deep copy), every key as `c<k>` when the key object
is an object of the caller (the archive's order then depends on objects the caller re-evaluates), else by the
`wvalues` it holds now.
"""
from fractions import Fraction as Fr

from deap import base

# class ids of the model's class table and attribute names
LIST, DICT, FIT, IND = 0, 1, 2, 3
NAMES = {"fitness": 1, "strategy": 2, "meta": 3, "age": 4}


def ct_text(container):
    # a `set` base pickles/copies through `cls(list(self))` (kind ctor: init_type runs), list/dict through
    # copyreg.__newobj__ (kind plain); the individual class declares fitness (class 2) and strategy (a list)
    kind = "ctor" if container == "set" else "plain"
    return "plain/-;plain/-;fitness/-;%s/%d=%d,%d=%d" % (kind, NAMES["fitness"], FIT, NAMES["strategy"], LIST)


class World(object):
    def __init__(self, IndC):
        self.IndC = IndC
        self.idx = {}        # id(obj) -> k
        self.keep = []       # k -> obj (keeps the objects alive, so ids stay unique)
        self.sent = []       # k -> text the model holds
        self.nums = {}       # Fraction -> atom id
        self.numlist = []
        self.syms = {}       # other atoms -> negative id

    # ---- atoms
    def atom(self, x):
        if isinstance(x, (int, float)) and not isinstance(x, bool):
            q = Fr(x)
            a = self.nums.get(q)
            if a is None:
                a = self.nums[q] = len(self.numlist)
                self.numlist.append(q)
            return "a%d" % a
        key = (type(x).__name__, repr(x))
        a = self.syms.get(key)
        if a is None:
            a = self.syms[key] = -(len(self.syms) + 1)
        return "a%d" % a

    @staticmethod
    def is_obj(x):
        return isinstance(x, (list, dict, set, base.Fitness))

    # ---- structure of one object: (cls, items, attrs) with children as python values
    def parts(self, o):
        if isinstance(o, base.Fitness):
            return FIT, list(o.wvalues), []
        attrs = []
        if hasattr(o, "__dict__"):
            for k, v in vars(o).items():
                attrs.append((NAMES[k], v))
            attrs.sort(key=lambda p: p[0])
        if isinstance(o, set):
            items = sorted(o)
        elif isinstance(o, dict):
            items = [x for kv in o.items() for x in kv]
        else:
            items = list(o)
        if type(o) is self.IndC:
            return IND, items, attrs
        return (DICT if isinstance(o, dict) else LIST), items, attrs

    def children(self, o):
        _, items, attrs = self.parts(o)
        return [x for x in items if self.is_obj(x)] + [v for _, v in attrs if self.is_obj(v)]

    def text(self, o):
        """`cls/m/items/attrs` of a caller object (children must be registered)"""
        c, items, attrs = self.parts(o)

        def val(x):
            return "c%d" % self.idx[id(x)] if self.is_obj(x) else self.atom(x)
        return "%d/1/%s/%s" % (c, ",".join(val(x) for x in items) or "-",
                               ",".join("%d=%s" % (k, val(v)) for k, v in attrs) or "-")

    # ---- caller world -> events
    def sync(self, roots):
        toks = []
        seen = set()

        def visit(o):
            if id(o) in seen:
                return
            seen.add(id(o))
            for ch in self.children(o):
                visit(ch)
            t = self.text(o)
            k = self.idx.get(id(o))
            if k is None:
                k = self.idx[id(o)] = len(self.keep)
                self.keep.append(o)
                self.sent.append(t)
                toks.append("a=" + t)
            elif self.sent[k] != t:
                self.sent[k] = t
                toks.append("w%d=%s" % (k, t))
        for r in roots:
            visit(r)
        return toks

    def update_token(self, pop):
        return "u=" + (",".join(str(self.idx[id(o)]) for o in pop) or "-")

    # ---- the real archive, printed like the model's state
    def dump(self, o, depth=0):
        if not self.is_obj(o):
            return self.atom(o)
        k = self.idx.get(id(o))
        if k is not None:
            return "c%d" % k
        if depth > 30:
            return "deep"
        c, items, attrs = self.parts(o)
        return "<%d/1/%s/%s>" % (c, ",".join(self.dump(x, depth + 1) for x in items) or "-",
                                 ",".join("%d=%s" % (n, self.dump(v, depth + 1)) for n, v in attrs) or "-")

    def state(self, arch):
        items = [self.dump(it) for it in arch.items]
        keys = []
        for kf in arch.keys:
            # a key is compared by the values it holds now, and by whether it is an object of the caller (then a later
            # re-evaluation of that individual reaches into the archive); how the archive represents its keys otherwise
            # (the member's own Fitness object, a separate copy, a plain tuple) is not part of the comparison
            if id(kf) in self.idx:
                keys.append("c%d" % self.idx[id(kf)])
            else:
                keys.append("v:" + (",".join(self.atom(x) for x in getattr(kf, "wvalues", kf)) or "-"))
        return "%s#%s" % (";".join(items) or "-", ";".join(keys) or "-")

    def line(self, kind, m, sim, container, toks):
        def sfr(q):
            return str(q.numerator) if q.denominator == 1 else "%d/%d" % (q.numerator, q.denominator)
        return "C08 heap %s %d %s %s %d %s %s" % (kind, m, sim, ct_text(container), NAMES["fitness"],
                                                 ",".join(sfr(q) for q in self.numlist) or "-", " ".join(toks))


# ----------------------------------------------------------------------------------------
# in-place modifications of submitted objects (every random choice is made by the generator)
# ----------------------------------------------------------------------------------------

MOD_OPS = ["gset", "gapp", "strat", "snew", "meta", "age", "fset", "fdel", "fnew", "refill", "all"]


def apply_mod(o, mod, container, nested, fill):
    """one in-place modification `[op, slot, a, b]` of the live object `o`"""
    op, a, b = mod[0], mod[2], mod[3]
    if op == "gset":            # overwrite a gene (of the inner list for nested genomes)
        if container == "set":
            o.add(a)
            o.discard(b)
        else:
            tgt = o
            if nested and len(o) and isinstance(o[b % len(o)], list):
                tgt = o[b % len(o)]
            if len(tgt):
                tgt[b % len(tgt)] = a
            else:
                tgt.append(a)
    elif op == "gapp":          # grow the genome (the inner list for nested genomes)
        if container == "set":
            o.add(a)
        else:
            tgt = o[-1] if nested and len(o) and isinstance(o[-1], list) else o
            tgt.append(a)
    elif op == "strat":
        o.strategy.append(float(a))
        o.strategy[0] = float(b)
    elif op == "snew":          # a new strategy object
        o.strategy = [float(a), float(b)]
    elif op == "meta":
        o.meta["g"] = "clobbered"
        o.meta["tags"].append("x%d" % a)
        o.meta["k%d" % b] = [a]
    elif op == "age":
        o.age = a
    elif op == "fset":          # re-evaluation in place
        o.fitness.values = tuple(float(a if i % 2 == 0 else b) for i in range(len(o.fitness.weights)))
    elif op == "fdel":          # invalidation in place
        del o.fitness.values
    elif op == "fnew":          # a new Fitness object
        o.fitness = type(o.fitness)()
        if a % 2:
            o.fitness.values = tuple(float(b) for _ in o.fitness.weights)
    elif op == "refill":        # the whole genome replaced (new inner lists for nested genomes)
        fill(o, container, [a, b, a], nested)
    elif op == "all":           # every level at once (what the other streams do after every event)
        clobber(o, container, nested, fill)
    else:
        raise ValueError(op)


def clobber(o, container, nested, fill):
    if container == "set":
        o.add(-991)
    elif container == "dict":
        o[-991] = 5
        for k in list(o):
            o[k] = -7
    for x in (o if container == "list" else ()):
        if isinstance(x, list):
            x.append(991)
            x[0] = -991
    o.strategy.append(-1.0)
    o.strategy[0] = 123.0
    o.meta["g"] = "clobbered"
    o.meta["tags"].append("clobbered")
    o.age = -1
    o.fitness.values = tuple(-5.0 if x > 0 else 5.0 for x in o.fitness.weights)
    fill(o, container, [77, -77, 7, 7], nested)


def gen_mods(rng, nslots, p=0.7):
    """modifications to apply after one event: a few random ops on random submitted objects"""
    if not nslots or rng.random() > p:
        return []
    out = []
    for _ in range(rng.choice([1, 1, 2, 3, 5])):
        out.append([rng.choice(MOD_OPS), rng.randrange(nslots), rng.randint(-3, 6), rng.randint(0, 5)])
    return out
