"""C19 — the translator tie: `translate(repo)` for harness/lib.py::_translated_obligations.

Reads deap/tools/constraint.py of `repo` AS IT IS NOW and renders the two wrapper bodies `DeltaPenalty.__call__.wrapper` and
`ClosestValidPenalty.__call__.wrapper` with harness/py2lean_c01.py (ITS DOCSTRING IS THE TRUSTED BASE: the expression and
statement rules, and the paragraph "C19 wrapper shape") as Lean definitions `Gen19.<Class>_wrapper`; the committed theorems
of lean/DeapModel/GenEq/C19.lean.tmpl (`Gen19.<Class>_wrapper = Penalty.deltaPenalty / closestValidPenalty`, at every scalar
type, every type of individuals and of forwarded extras) are appended and re-checked by the kernel.

Rendering rules specific to this file (extending py2lean_c01's docstring; everything else is REFUSED):
  * the closure `def __call__(self, func): @wraps(func) def wrapper(individual, *args, **kwargs): BODY; return wrapper` is ONE
    definition of BODY; `self.fbty_fct, self.delta, self.dist_fct, self.fbl_fct, self.alpha` and `func` are parameters
    (declared types below: an assumption of the tie), `individual : X`, `*args, **kwargs` one abstract value `a : A` that may
    only be forwarded unchanged as `g(x, *args, **kwargs)`.
  * numbers are ONE scalar type α: the int literals 0, 1, -1 and the float literals 1.0, -1.0 are α's numerals (Python's int and
    float agree on every value involved; the int / float distinction of a result, 0 vs 0.0, is not rendered).  `len` is an Int.
  * a call of a function-valued parameter is an application; a call of `func` additionally appends `(argument, a)` to the CALL LOG.
    The definition returns `Penalty.Out`: `return e` -> ⟨some e, log⟩, `raise …` -> ⟨none, log⟩.
  * "a number or a vector" (what the distance function returns) and "an iterable of numbers, possibly `repeat(c)`" (self.delta,
    the variable `dists`) are both `Penalty.SV α` (`scalar c` = the number c, resp. `repeat(c)`; `seq v` = the vector / tuple v).
    The statement `if not _is_vector(v): v = repeat(v)` (exactly this shape, no else) re-types v from the first reading to the
    second; the Lean term is unchanged.  `_is_vector` / `repeat` anywhere else are refused.
  * `zip(...)` with such operands: a finite tuple operand is itself, an SV operand s is `s.upTo n` where n is the (minimum)
    length of the finite tuple operands — zip stops at the shortest operand, so the items of `repeat(c)` beyond n are never
    read and a vector longer than n is cut by zip itself; a zip without a finite tuple operand is refused.
  * `individual.fitness.weights` is `weights individual` (the attribute lookup through the individual's own fitness class is
    C01's FitClass model: Penalty.deltaPenaltyCls / closestValidPenaltyCls instantiate `weights`)."""
import ast
import hashlib
import os
import re
import sys

HERE = os.path.dirname(os.path.abspath(__file__))
sys.path.insert(0, os.path.normpath(os.path.join(HERE, "..")))

import py2lean_c01 as T  # noqa: E402
from py2lean_c01 import F, I, B, L, OPT, NONE, Val, ObjRef, Rec, Env, Refuse  # noqa: E402

LEAN_DIR = os.path.normpath(os.path.join(HERE, "..", "..", "lean"))
TEMPLATE = os.path.join(LEAN_DIR, "DeapModel", "GenEq", "C19.lean.tmpl")
DIGEST = os.path.join(LEAN_DIR, "DeapModel", "GenEq", "C19.defs.sha256")
REL = "deap/tools/constraint.py"

X = ("X",)
A = ("A",)
SV = ("SV",)        # a number or a vector
ITER = ("ITER",)    # an iterable of numbers: a tuple or repeat(c)
FIT = ("FITNESS",)


def FUN(args, ret):
    return ("FUN", tuple(args), ret)


_base_lean_type = T.lean_type


def lean_type(t):
    if t == X:
        return "X"
    if t == A:
        return "A"
    if t in (SV, ITER):
        return "Penalty.SV α"
    if t[0] == "FUN":
        return " → ".join([T.atom(x) for x in t[1]] + [T.atom(t[2])])
    return _base_lean_type(t)


T.lean_type = lean_type

CLOSURES = {
    "DeltaPenalty": [("fbty_fct", FUN([X], B)), ("delta", ITER), ("dist_fct", OPT(FUN([X], SV)))],
    "ClosestValidPenalty": [("fbty_fct", FUN([X], B)), ("fbl_fct", FUN([X], X)), ("alpha", F),
                            ("dist_fct", OPT(FUN([X, X], SV)))],
}
FUNC_T = FUN([X, A], L(F))
WEIGHTS_T = FUN([X], L(F))

HEADER = """import DeapModel.Lemmas.C19Gen

set_option linter.unusedVariables false
set_option linter.unusedSimpArgs false
set_option linter.unusedSectionVars false

namespace Gen19
variable {α : Type} [LE α] [DecidableLE α] [OfNat α 0] [OfNat α 1] [Neg α] [Sub α] [Mul α]
variable {X A : Type}

"""


class WrapperTranslator(T.Translator):
    def __init__(self, module, cls):
        cfg = dict(ns="Gen19", short={}, fields={cls: CLOSURES[cls]}, class_attrs={}, sigs={}, default_sig={}, attr_types={})
        T.Translator.__init__(self, module, cfg)
        self.cls = cls
        self.helper = 0         # > 0 while a helper function of the module (not the wrapper body) is being translated

    def translate_def(self, D, K, fn, name):
        self.helper += 1
        try:
            return T.Translator.translate_def(self, D, K, fn, name)
        finally:
            self.helper -= 1

    # numbers are one scalar type
    def e_Constant(self, e, env, pre):
        v = e.value
        if isinstance(v, int) and not isinstance(v, bool):
            return Val("(%d : α)" % v if v >= 0 else "(-%d : α)" % (-v), F, lit=v)
        return T.Translator.e_Constant(self, e, env, pre)

    def attr_other(self, x, e, env, pre):
        if isinstance(x, Val) and x.ty == X and e.attr == "fitness":
            return Val(x.term, FIT)
        if isinstance(x, Val) and x.ty == FIT and e.attr == "weights":
            return Val("(weights %s)" % x.term, L(F))
        return T.Translator.attr_other(self, x, e, env, pre)

    def log(self, env):
        return env.vars["__log__"].term

    def apply(self, callee, args, env, pre, logged):
        if callee.ty[0] != "FUN":
            raise Refuse("call of a value of type %r" % (callee.ty,))
        want = list(callee.ty[1])
        if logged:
            want = want[:-1]
        if len(args) != len(want):
            raise Refuse("call of %s with %d arguments" % (callee.term, len(args)))
        ts = [self.coerce(a, t).term for a, t in zip(args, want)]
        if logged:
            ts.append("a")
        r = self.fresh("r")
        pre.append(("let", r, "(%s %s)" % (callee.term, " ".join(ts))))
        if logged:
            lg = self.fresh("log")
            pre.append(("let", lg, "(%s ++ [(%s, a)])" % (self.log(env), ts[0])))
            env.vars["__log__"] = Val(lg, ("LOG",))
        return Val(r, callee.ty[2])

    def call_value(self, callee, e, env, pre):
        if not isinstance(callee, Val):
            raise Refuse("call of an object (line %d)" % e.lineno)
        if callee.term == "func":
            raise Refuse("func called without forwarding *args, **kwargs (line %d)" % e.lineno)
        args = [self.value(a, env, pre) for a in e.args]
        return self.apply(callee, args, env, pre, False)

    def call_special(self, e, env, pre):
        # g(x, *args, **kwargs): the extras forwarded unchanged
        if isinstance(e.func, ast.Name) and e.func.id in ("_is_vector", "repeat"):
            raise Refuse("%s outside the statement `if not _is_vector(v): v = repeat(v)` (line %d)" % (e.func.id, e.lineno))
        ok = len(e.args) >= 1 and isinstance(e.args[-1], ast.Starred) and isinstance(e.args[-1].value, ast.Name) \
            and e.args[-1].value.id == "args" and not any(isinstance(a, ast.Starred) for a in e.args[:-1]) \
            and len(e.keywords) == 1 and e.keywords[0].arg is None and isinstance(e.keywords[0].value, ast.Name) \
            and e.keywords[0].value.id == "kwargs"
        if not ok:
            raise Refuse("call with keyword / starred arguments other than forwarding `*args, **kwargs` (line %d)" % e.lineno)
        callee = self.expr(e.func, env, pre)
        if not isinstance(callee, Val) or callee.ty[0] != "FUN" or callee.ty[1][-1:] != (A,):
            raise Refuse("*args, **kwargs forwarded to something that does not take them (line %d)" % e.lineno)
        args = [self.value(a, env, pre) for a in e.args[:-1]]
        return self.apply(callee, args, env, pre, callee.term == "func")

    def e_Call(self, e, env, pre):
        if isinstance(e.func, ast.Name) and e.func.id in ("_is_vector", "repeat") and e.func.id not in env.vars:
            return self.call_special(e, env, pre)
        return T.Translator.e_Call(self, e, env, pre)

    def zip_call(self, e, env, pre):
        vs = [self.value(a, env, pre) for a in e.args]
        fin = [v for v in vs if v.ty[0] == "L" and v.ty[1] is not None]
        if not fin or any(not (v.ty == ITER or (v.ty[0] == "L" and v.ty[1] is not None)) for v in vs):
            raise Refuse("zip needs at least one finite tuple operand; operands %r (line %d)" % ([v.ty for v in vs], e.lineno))
        n = "%s.length" % fin[0].term
        for v in fin[1:]:
            n = "(min %s %s.length)" % (n, v.term)
        ts, tys = [], []
        for v in vs:
            if v.ty == ITER:
                ts.append("(Penalty.SV.upTo %s %s)" % (n if n.startswith("(") else "(%s)" % n, v.term))
                tys.append(F)
            else:
                ts.append(v.term)
                tys.append(v.ty[1])
        if len(vs) == 2:
            return Val("(List.zip %s %s)" % tuple(ts), L(T.TUP(*tys)))
        if len(vs) == 3:
            return Val("(Gen01.zip3 %s %s %s)" % tuple(ts), L(T.TUP(*tys)))
        raise Refuse("zip of %d operands" % len(vs))

    def is_retype_idiom(self, st, env):
        """`if not _is_vector(v): v = repeat(v)` -> the variable name"""
        if not isinstance(st, ast.If) or st.orelse or len(st.body) != 1:
            return None
        t = st.test
        if not (isinstance(t, ast.UnaryOp) and isinstance(t.op, ast.Not) and isinstance(t.operand, ast.Call)
                and isinstance(t.operand.func, ast.Name) and t.operand.func.id == "_is_vector" and not t.operand.keywords
                and len(t.operand.args) == 1 and isinstance(t.operand.args[0], ast.Name)):
            return None
        v = t.operand.args[0].id
        b = st.body[0]
        if not (isinstance(b, ast.Assign) and len(b.targets) == 1 and isinstance(b.targets[0], ast.Name) and b.targets[0].id == v
                and isinstance(b.value, ast.Call) and isinstance(b.value.func, ast.Name) and b.value.func.id == "repeat"
                and not b.value.keywords and len(b.value.args) == 1 and isinstance(b.value.args[0], ast.Name)
                and b.value.args[0].id == v):
            return None
        g1, g2 = self.m.globals.get("_is_vector"), self.global_fun("repeat")
        if g1 is None or g1[0] != "func" or g2 != ("itertools", "repeat") or "_is_vector" in env.vars or "repeat" in env.vars:
            return None
        return v

    def block(self, stmts, env, ctx):
        if stmts and self.helper == 0:
            st = stmts[0]
            v = self.is_retype_idiom(st, env)
            if v is not None:
                cur = env.vars.get(v)
                if not isinstance(cur, Val) or cur.ty != SV:
                    raise Refuse("`if not _is_vector(%s): %s = repeat(%s)` on a value that is not a number-or-vector" % (v, v, v))
                env.vars[v] = Val(cur.term, ITER)
                return self.block(list(stmts[1:]), env, ctx)
            if isinstance(st, ast.Raise):
                return ("ret", "(Penalty.Out.mk none %s)" % self.log(env))
        return T.Translator.block(self, stmts, env, ctx)

    def do_return(self, v, env, ctx):
        if self.helper > 0:
            return T.Translator.do_return(self, v, env, ctx)
        if v is None or not isinstance(v, Val):
            raise Refuse("the wrapper must return a fitness tuple")
        v = self.coerce(v, L(F))
        return ("ret", "(Penalty.Out.mk (some %s) %s)" % (v.term, self.log(env)))

    def is_vector_ok(self):
        """`_is_vector` must still be the documented test (Sequence or ndim > 0): its body is part of the idiom's meaning"""
        g = self.m.globals.get("_is_vector")
        if g is None or g[0] != "func":
            raise Refuse("no module function _is_vector")
        fn = g[1]
        body = [s for s in fn.body if not (isinstance(s, ast.Expr) and isinstance(s.value, ast.Constant))]
        want = "return isinstance(obj, Sequence) or getattr(obj, 'ndim', 0) > 0"
        if len(body) != 1 or ast.dump(body[0]) != ast.dump(ast.parse(want).body[0]) or [a.arg for a in fn.args.args] != ["obj"]:
            raise Refuse("_is_vector is no longer `%s`" % want)

    def translate_wrapper(self):
        cls = self.cls
        if cls not in self.classes:
            raise Refuse("no class %s" % cls)
        ci = self.classes[cls]
        if ci.problem:
            raise Refuse(ci.problem)
        call = ci.methods.get("__call__")
        if call is None:
            raise Refuse("%s has no __call__" % cls)
        body = [s for s in call.body if not (isinstance(s, ast.Expr) and isinstance(s.value, ast.Constant))]
        if [a.arg for a in call.args.args] != ["self", "func"] or call.args.vararg or call.args.kwarg or len(body) != 2 \
                or not isinstance(body[0], ast.FunctionDef) or not isinstance(body[1], ast.Return) \
                or not isinstance(body[1].value, ast.Name) or body[1].value.id != body[0].name:
            raise Refuse("%s.__call__ is not `def wrapper(...): …; return wrapper`" % cls)
        w = body[0]
        decs = w.decorator_list
        if len(decs) != 1 or ast.dump(decs[0]) != ast.dump(ast.parse("wraps(func)").body[0].value) \
                or self.global_fun("wraps") != ("functools", "wraps"):
            raise Refuse("the wrapper is not decorated with exactly functools.wraps(func)")
        a = w.args
        if [x.arg for x in a.args] != ["individual"] or a.vararg is None or a.vararg.arg != "args" or a.kwarg is None \
                or a.kwarg.arg != "kwargs" or a.kwonlyargs or a.defaults or a.posonlyargs:
            raise Refuse("the wrapper's parameters are not (individual, *args, **kwargs)")
        for node in ast.walk(w):
            if node is not w and isinstance(node, (ast.FunctionDef, ast.Lambda, ast.While, ast.With, ast.Global, ast.Nonlocal,
                                                   ast.Yield, ast.YieldFrom, ast.Await)):
                raise Refuse("%s (line %d)" % (type(node).__name__, node.lineno))
            if isinstance(node, ast.Name) and node.id in ("args", "kwargs") and not isinstance(node.ctx, ast.Load):
                raise Refuse("args / kwargs re-assigned")
        self.is_vector_ok()
        env = Env()
        fields = {n: Val(n, t) for n, t in CLOSURES[cls]}
        rec = Rec(cls, fields, "param")
        rec.label = "self"
        env.heap["self"] = rec
        env.vars["self"] = ObjRef("self")
        env.vars["func"] = Val("func", FUNC_T)
        env.vars["individual"] = Val("individual", X)
        env.vars["__log__"] = Val("([] : List (X × A))", ("LOG",))
        d = T.Def("%s_wrapper" % cls)
        d.lineno = w.lineno
        ctx = dict(kind_hint="value", loop=None, collect=set())
        ctx["def"] = d
        self.counter = 0
        ir = self.block(list(w.body), env, ctx)
        if self.ir_partial(ir):
            raise Refuse("internal: a partial path in a wrapper")
        text = self.render(ir, False)
        if re.search(r"(?<![\w.])(args|kwargs)(?![\w])", text):
            raise Refuse("args / kwargs used other than by forwarding")
        bs = ["(%s : %s)" % (n, lean_type(t)) for n, t in CLOSURES[cls]]
        bs += ["(weights : X → List α)", "(func : X → A → List α)", "(individual : X)", "(a : A)"]
        d.text = "def %s %s : Penalty.Out X A α :=\n  %s" % (d.name, " ".join(bs), text)
        return d


def template_blocks(path):
    src = open(path).read()
    blocks, pre, cur, buf = {}, [], None, []
    for line in src.splitlines():
        m = re.match(r"^--! begin (\S+)\s*$", line)
        if m:
            cur, buf = m.group(1), []
            continue
        if re.match(r"^--! end\s*$", line):
            blocks[cur] = "\n".join(buf)
            cur = None
            continue
        (buf if cur is not None else pre).append(line)
    return "\n".join(pre), blocks


def theorem_names(text):
    return re.findall(r"^theorem\s+([\w.']+)", text, re.M)


def translate(repo):
    pre, blocks = template_blocks(TEMPLATE)
    problems, refused, defs, table, gen_texts, theorems = [], [], [], [], [], []
    out = [HEADER]
    path = os.path.join(repo, REL)
    try:
        mod = T.Module(path)
    except (OSError, SyntaxError) as e:
        mod = None
        problems.append("%s unreadable: %s" % (REL, e))
    for cls in CLOSURES:
        full = "Gen19.%s_wrapper" % cls
        label = "%s:%s.__call__.wrapper" % (REL, cls)
        if mod is None:
            continue
        try:
            d = WrapperTranslator(mod, cls).translate_wrapper()
        except Refuse as e:
            refused.append("%s (%s)" % (label, e))
            table.append((label, "refused", str(e)))
            if full in blocks:
                problems.append("%s has left the translated sub-language (%s); its theorems %s cannot be checked"
                                % (label, e, theorem_names(blocks[full])))
            continue
        out.append("/-- `%s` line %d, regenerated from the source -/" % (REL, d.lineno))
        out.append(d.text)
        out.append("")
        gen_texts.append(d.text)
        defs.append(full)
        table.append((label, "translated", "theorem" if full in blocks else "no theorem"))
    out.append("end Gen19\n")
    out.append(pre)
    for full in defs:
        if full in blocks:
            out.append(blocks[full])
            theorems += theorem_names(blocks[full])
    source = "\n".join(out)
    digest = hashlib.sha256("\n".join(gen_texts).encode()).hexdigest()
    try:
        known = open(DIGEST).read().split()
    except OSError:
        known = []
    if digest not in known and theorems:
        from props import c01_translate
        failing = c01_translate.failing_theorems(source)
        if failing:
            problems.append("regenerated definitions differ from the committed digest; theorems that no longer hold: %s"
                            % ", ".join(failing))
    return {"problems": problems, "source": source, "theorems": theorems, "definitions": defs, "refused": refused,
            "table": table, "digest": digest}


if __name__ == "__main__":
    sys.path.insert(0, os.path.normpath(os.path.join(HERE, "..")))
    r = translate(sys.argv[1] if len(sys.argv) > 1 else os.environ.get("DEAP_REPO", "/repo"))
    if len(sys.argv) > 2:
        open(sys.argv[2], "w").write(r["source"] + "\n" + "".join("#print axioms %s\n" % n for n in r["theorems"]))
    for row in r["table"]:
        print("%-60s %-11s %s" % row)
    print("problems:", r["problems"])
    print(len(r["definitions"]), "definitions,", len(r["theorems"]), "theorems,", len(r["refused"]), "refused; digest", r["digest"])
