"""C10 — the translator tie: `translate(repo)` for harness/lib.py::_translated_obligations.

Reads deap/tools/crossover.py and deap/tools/mutation.py of `repo` AS THEY ARE NOW, renders the seven real-coded operators
with harness/py2lean_c10.py (its docstring = the trusted base) as Lean definitions `Gen.<name>` and appends the committed
theorems of lean/DeapModel/GenEq/C10.lean.tmpl (`Gen.<name> … = the shape of RealOps.<name> …`, at EVERY scalar).
A function that has a theorem block in the template but can no longer be translated is a PROBLEM (the tie is broken)."""
import hashlib
import os
import re

import py2lean
import py2lean_c10
from py2lean import F, Refuse
from py2lean_c10 import IND, BD

HERE = os.path.dirname(os.path.abspath(__file__))
GENEQ = os.path.normpath(os.path.join(HERE, "..", "..", "lean", "DeapModel", "GenEq"))
TEMPLATE = os.path.join(GENEQ, "C10.lean.tmpl")
DIGEST = os.path.join(GENEQ, "C10.defs.sha256")

# parameter types: an assumption of the tie (individuals are lists of floats, bounds a float or a sequence of floats)
MODULES = [
    ("deap/tools/crossover.py", {
        "cxBlend": {"ind1": IND, "ind2": IND, "alpha": F},
        "cxSimulatedBinary": {"ind1": IND, "ind2": IND, "eta": F},
        "cxSimulatedBinaryBounded": {"ind1": IND, "ind2": IND, "eta": F, "low": BD, "up": BD},
        "cxESBlend": {"ind1": IND, "ind2": IND, "alpha": F},
    }),
    ("deap/tools/mutation.py", {
        "mutGaussian": {"individual": IND, "mu": BD, "sigma": BD, "indpb": F},
        "mutPolynomialBounded": {"individual": IND, "eta": F, "low": BD, "up": BD, "indpb": F},
        "mutESLogNormal": {"individual": IND, "c": F, "indpb": F},
    }),
]

HEADER = """import DeapModel.Lemmas.C10Gen

set_option linter.unusedVariables false
set_option linter.unusedSimpArgs false

namespace Gen
open RealLike
variable {α : Type} [RealLike α]

"""


def template_blocks():
    src = open(TEMPLATE).read()
    blocks, pre, cur, buf = {}, [], None, []
    for line in src.splitlines():
        m = re.match(r"^--! begin (\S+)\s*$", line)
        if m:
            cur, buf = m.group(1), []
            continue
        if re.match(r"^--! end\s*$", line):
            blocks[cur] = "\n".join(buf)
            cur = None
            continue
        (buf if cur is not None else pre).append(line)
    return "\n".join(pre), blocks


def theorem_names(text):
    return re.findall(r"^theorem\s+([\w.']+)", text, re.M)


def translate(repo):
    problems, defs, refused, table, gen_texts = [], [], [], [], []
    pre, blocks = template_blocks()
    out = [HEADER]
    done, lost = [], []
    for rel, sigs in MODULES:
        path = os.path.join(repo, rel)
        try:
            mod = py2lean.Module(path)
        except (OSError, SyntaxError) as e:
            problems.append("%s unreadable: %s" % (rel, e))
            continue
        for name, sig in sigs.items():
            full = "Gen." + name
            try:
                text, state = py2lean_c10.translate_function(mod, name, sig, name)
            except Refuse as e:
                refused.append("%s:%s (%s)" % (rel, name, e))
                table.append((rel, name, "refused", str(e)))
                if full in blocks:
                    lost.append(full)
                    problems.append("%s:%s has left the translated sub-language (%s); its theorems %s cannot be checked"
                                    % (rel, name, e, theorem_names(blocks[full])))
                continue
            out.append("/-- `%s:%s` (line %d), regenerated from the source; state = %s -/"
                       % (rel, name, mod.functions[name].lineno, ", ".join(state)))
            out.append(text)
            out.append("")
            gen_texts.append(text)
            defs.append(full)
            done.append(full)
            table.append((rel, name, "translated", "theorem" if full in blocks else "no theorem"))
    for full in blocks:
        if full not in done and full not in lost:
            problems.append("%s has theorems in the template but is not among the translated functions" % full)
    out.append("end Gen\n")
    out.append(pre)
    theorems = []
    for full in done:
        if full in blocks:
            out.append(blocks[full])
            theorems += theorem_names(blocks[full])
    source = "\n".join(out)
    digest = hashlib.sha256("\n".join(gen_texts).encode()).hexdigest()
    try:
        known = open(DIGEST).read().split()
    except OSError:
        known = []
    if digest not in known:
        # diagnostics only (a changed tree): name the theorems that no longer elaborate
        from props import c20_translate
        failing = c20_translate.failing_theorems(source)
        if failing:
            problems.append("regenerated definitions differ from the committed digest; theorems that no longer hold: %s"
                            % ", ".join(failing))
    return {"problems": problems, "source": source, "theorems": theorems, "definitions": defs, "refused": refused,
            "table": table, "digest": digest}


if __name__ == "__main__":
    import sys
    r = translate(sys.argv[1] if len(sys.argv) > 1 else os.environ.get("DEAP_REPO", "/repo"))
    if len(sys.argv) > 2:
        open(sys.argv[2], "w").write(r["source"] + "\n" + "".join("#print axioms %s\n" % n for n in r["theorems"]))
    for row in r["table"]:
        print("%-28s %-26s %-10s %s" % row)
    print("problems:", r["problems"])
    print(len(r["definitions"]), "definitions,", len(r["theorems"]), "theorems,", len(r["refused"]), "refused; digest", r["digest"])
