"""C16, stream `derive` — creator classes DERIVED FROM creator classes (creator.create("Sub", creator.Ind, bound=9), 1-3 levels
below an ordinary individual class of every base container; deap/creator.py MetaCreator.__init__ / init_type; model
lean/DeapModel/Core/HeapDerive.lean, protocol op `C16 derive`, theorem C16.derived_create_fresh_attrs).

A case is a HISTORY over one chain: `create` events (the next class of the chain comes into being) interleaved with `inst`
events (a class that exists by then is instantiated): parent-first and child-first instantiation, create -> instantiate -> derive
-> instantiate.  A child class redeclares none / some / all of the per-instance attributes of its ancestors (with the same or
another class) and may add its own; every level may carry class-level attributes.

Oracle (clause 1 of the statement, evaluated on every instance of every class of the chain): every per-instance attribute
declared by ANY class on the instance's creator-MRO sits in the instance's OWN __dict__, is an instance of a class declared under
that name on the MRO, equals a freshly constructed one, is not shared with any other instance of the history (identity, also of
everything mutable reachable from it), and writing through it (fitness values, list / dict / set / array content) shows neither on
another instance nor on the class (an instance made afterwards starts fresh again).  Clauses 2-5: toolbox.clone and pickle (every
protocol) of an instance of every level: equivalent class, equal content / fitness / attributes, nothing mutable shared, changing
the copy leaves the original as it was.

Correspondence: the heap model replays the history (Heap.runEvents: per instance the setattr steps of the whole __init__ chain, the
class's own closure dict first, the value set last under a name kept) and must arrive at the same object graph (which attribute of
which instance refers to an object of which class; which are the same object).  WHICH declaration of a redeclared name an instance
ends up with (the one nearest the root, because base.__init__ runs after the class's own loop) is the model's business, not the
oracle's: the statement only asks for fresh, unshared attributes."""
import array
import copy
import pickle
import warnings

import numpy

from lib import Case
from deap import base, creator, gp

from props import c16 as B

DERIVE_BASES = ["list", "array:b", "array:i", "array:d", "ndarray:int", "ndarray:float", "set", "dict", "tree"]
ATTR_TYPES = ["fit", "fit2", "list", "dict", "set", "strategy", "nested"]
ATTR_NAMES = ["fitness", "strategy", "log", "memo", "seen", "sub"]
# fixed shapes of a chain: per level the per-instance declarations (None = rng fills it in)
SHAPES = [
    # child redeclares nothing (the seeded shape), grand-child neither
    [{"fitness": "fit", "strategy": "list"}, {}, {}],
    # child adds its own, grand-child adds its own
    [{"fitness": "fit", "strategy": "strategy"}, {"memo": "dict"}, {"log": "list"}],
    # child redeclares some with another class
    [{"fitness": "fit", "strategy": "list", "sub": "nested"}, {"strategy": "strategy", "seen": "set"}],
    # child redeclares all
    [{"fitness": "fit", "log": "list"}, {"fitness": "fit2", "log": "list"}, {"fitness": "fit"}, {"memo": "dict"}],
    # attributes only on the derived classes
    [{}, {"fitness": "fit"}, {"fitness": "fit", "log": "list"}],
]
TOOLBOX = base.Toolbox()


def evaluate(d):
    uid = B.next_uid()
    B._SIG.clear()
    try:
        with warnings.catch_warnings():
            warnings.simplefilter("ignore")
            return _run(d, uid)
    finally:
        B.drop_classes(uid)


def _attr_classes(d, uid):
    def mk(name, pybase, **kw):
        full = B.cname(uid, name)
        creator.create(full, pybase, **kw)
        return getattr(creator, full)
    cl = {"list": list, "dict": dict, "set": set}
    cl["fit"] = mk("Fit", base.Fitness, weights=tuple(float(w) for w in d["weights"]))
    cl["fit2"] = mk("Fit2", base.Fitness, weights=(1.0, -1.0))
    cl["strategy"] = mk("Strat", array.array, typecode="d")
    cl["nested"] = mk("Nested", list, inner=dict, marks=list, level=3)
    return cl


def _pybase(b):
    if b == "list":
        return list, {}
    if b == "set":
        return set, {}
    if b == "dict":
        return dict, {}
    if b.startswith("array:"):
        return array.array, {"typecode": b.split(":")[1]}
    if b.startswith("ndarray"):
        return numpy.ndarray, {}
    return gp.PrimitiveTree, {}


def _new(cls, d):
    if d["base"] == "dict":
        x = cls()
        for k, v in d["content"]:
            x[k] = v
        return x
    return cls(B.content_of({"base": d["base"], "content": d["content"], "rename": None}))


def _write_through(v):
    """change the object in place the way an algorithm would"""
    if isinstance(v, base.Fitness):
        v.values = tuple(float(i + 1) for i in range(len(v.weights)))
    elif isinstance(v, array.array):
        v.append(2.5)
    elif isinstance(v, list):
        v.append(7)
        if hasattr(v, "inner"):
            v.inner["k"] = 7
    elif isinstance(v, dict):
        v["k"] = 7
    elif isinstance(v, set):
        v.add(7)


def _run(d, uid):
    acl = _attr_classes(d, uid)
    levels, b = d["levels"], d["base"]
    pybase, rootkw = _pybase(b)
    classes = []               # created classes of the chain so far
    insts = []                 # (level, instance) in creation order
    fresh = {}                 # class -> canon of a freshly constructed instance, taken before anything is written
    for t in acl.values():
        fresh[t] = B.full_canon(t())
    orc = [None]

    def fail(msg):
        if orc[0] is None:
            orc[0] = "derived creator classes, base %s, history %s: %s" % (b, "".join(
                "c" if e[0] == "create" else "i%d" % e[1] for e in d["events"]), msg)

    def declared(k):
        """name -> set of classes declared under that name on the creator-MRO of level k"""
        out = {}
        for lv in levels[:k + 1]:
            for name, t in lv["inst"].items():
                out.setdefault(name, []).append(acl[t])
        return out

    def check_fresh(k, x, when):
        for name, clss in sorted(declared(k).items()):
            if name not in vars(x):
                fail("%s instance of level %d has no attribute %r of its own (lookup gives %r: shared by every instance)"
                     % (when, k, name, getattr(x, name, "<missing>")))
                return
            v = vars(x)[name]
            if not any(type(v) is t for t in clss):
                fail("%s instance of level %d: attribute %r is a %r, declared %r" % (when, k, name, type(v), clss))
                return
            if B.full_canon(v) != fresh[type(v)]:
                fail("%s instance of level %d: attribute %r is not a freshly constructed %s: %r"
                     % (when, k, name, type(v).__name__, v))
                return

    def check_unshared():
        for i in range(len(insts)):
            for j in range(i + 1, len(insts)):
                sh = B.shared_mutables(vars(insts[i][1]), vars(insts[j][1]))
                if sh:
                    fail("instances %d (level %d) and %d (level %d) share mutable attribute state: %s"
                         % (i, insts[i][0], j, insts[j][0], sh))
                    return

    for ev in d["events"]:
        if ev[0] == "create":
            k = len(classes)
            lv = levels[k]
            kw = dict((name, acl[t]) for name, t in lv["inst"].items())
            kw.update(lv.get("cattrs", {}))
            if k == 0:
                kw.update(rootkw)
                creator.create(B.cname(uid, "L0"), pybase, **kw)
            else:
                creator.create(B.cname(uid, "L%d" % k), classes[k - 1], **kw)
            classes.append(getattr(creator, B.cname(uid, "L%d" % k)))
        else:
            k = ev[1]
            x = _new(classes[k], d)
            check_fresh(k, x, "a new")
            insts.append((k, x))
    check_unshared()
    # the model's view is taken now, before anything is written
    m = B.Modeler()
    for t in ("fit", "fit2", "strategy", "nested"):
        m.cls_id(acl[t])
    ct_text = m.ct_text()
    nattr = len(m.ct)
    dts = []
    for k, c in enumerate(classes):
        inst = ",".join("%d=%d" % (m.name_id(name), m.cls_id(acl[t])) for name, t in levels[k]["inst"].items()) or "-"
        dts.append("%s/%s" % ("-" if k == 0 else str(k - 1), inst))
        assert len(m.ct) == nattr, "attribute classes must all be registered before the chain"
    for k, c in enumerate(classes):            # the chain classes follow the attribute classes: class of level k = nattr + k
        m.cls_ids[c.__name__] = nattr + k
    lines, expect = [], []
    model_ok = bool(classes) and not (b == "tree" and d["content"])
    if model_ok:
        items = "-"
        if insts:
            its = m.parts(insts[0][1])[2]
            items = ",".join("a%d" % x[1] for x in its) or "-"
        evs = ",".join("c" if e[0] == "create" else "i%d" % e[1] for e in d["events"]) or "-"
        lines = ["C16 derive %s %s %s %s %s" % (ct_text, B.kind_of(classes[0]), ";".join(dts), evs, items)]
        expect = [m.graph_dump([x for _, x in insts])]
    # ---- behavioural independence: writing through one instance's attribute shows nowhere else
    if orc[0] is None:
        cur = [B.full_canon(vars(x)) for _, x in insts]
        for i, (k, x) in enumerate(insts):
            if i not in d.get("write", [0]):
                continue
            for name in sorted(declared(k)):
                _write_through(vars(x)[name])
            for j, (kj, y) in enumerate(insts):
                if j != i and B.full_canon(vars(y)) != cur[j]:
                    fail("writing through the attributes of instance %d (level %d) changed instance %d (level %d): %s"
                         % (i, k, j, kj, B.first_diff(cur[j], B.full_canon(vars(y)))))
            cur[i] = B.full_canon(vars(x))
            z = _new(classes[k], d)
            check_fresh(k, z, "after writing through instance %d, a new" % i)
            for name, t in sorted(acl.items()):
                if B.full_canon(t()) != fresh[t]:
                    fail("writing through instance %d changed what %s() constructs (the write went to the class)" % (i, name))
    # ---- clauses 2-5 on one instance per level (attributes written or not, as the history left them)
    if orc[0] is None:
        seen = set()
        for k, x in insts:
            if k in seen:
                continue
            seen.add(k)
            canon0, sig0 = B.canon(x), B.alias_sig(x)
            copies = [("toolbox.clone of an instance of level %d" % k, lambda: TOOLBOX.clone(x), True)]
            for p in d.get("protos", B.PROTOCOLS):
                copies.append(("pickle protocol %d of an instance of level %d" % (p, k),
                               (lambda p=p: pickle.loads(pickle.dumps(x, p))), False))
            for what, make, same in copies:
                try:
                    c = make()
                except Exception as e:  # noqa
                    fail("%s raised %s: %s" % (what, type(e).__name__, e))
                    continue
                r = B.check_copy(what, x, c, canon0, sig0, same)
                if r is None:
                    B.mutate_all(c)
                    if B.canon(x) != canon0:
                        r = "%s: changing the copy changed the original: %s" % (what, B.first_diff(canon0, B.canon(x)))
                if r:
                    fail(r)
    redecl = sorted(set(n for k in range(1, len(levels)) for n in levels[k]["inst"] if any(n in lv["inst"] for lv in levels[:k])))
    tag = "derive/%s/levels=%d/%s" % (b, len(levels) - 1, "redeclares" if redecl else "no-redeclaration")
    return Case(d, lines, expect, orc[0], tag=tag, nontrivial=len(levels) > 1 and any(e[0] == "inst" and e[1] > 0 for e in d["events"]))


def _content(b, rng):
    if b == "dict":
        return [[rng.choice([i, "k%d" % i]), rng.choice([1, 2.5, "s", -3])] for i in range(rng.choice([0, 2, 3]))]
    if b == "tree":
        return B.content_for(b, rng.choice([0, 0, 1, 3]), rng)
    if b.startswith("ndarray"):
        return B.content_for(b, rng.choice([2, 3]), rng)
    return B.content_for(b, rng.choice([0, 2, 3]), rng)


def _events(nlev, rng, order):
    """order: 'parent-first' / 'child-first' / 'interleaved' (create -> instantiate -> derive -> instantiate)"""
    ev = []
    if order == "interleaved":
        for k in range(nlev):
            ev.append(["create", k])
            for _ in range(rng.choice([1, 1, 2])):
                ev.append(["inst", rng.randint(0, k)])
            ev.append(["inst", k])
    else:
        ev += [["create", k] for k in range(nlev)]
        ks = list(range(nlev))
        if order == "child-first":
            ks.reverse()
        for k in ks:
            ev.append(["inst", k])
        for k in ks:
            ev.append(["inst", k])
    return ev


def mk_case(rng, b, shape=None, order=None):
    order = order or rng.choice(["parent-first", "child-first", "interleaved"])
    if shape is None:
        nlev = rng.randint(2, 4)
        inst = []
        for k in range(nlev):
            lv = {}
            prev = sorted(set(n for l in inst for n in l))
            mode = rng.choice(["none", "some", "all", "new"]) if k else "root"
            if mode == "root":
                for n in rng.sample(ATTR_NAMES, rng.randint(0, 3)):
                    lv[n] = rng.choice(ATTR_TYPES)
                if rng.random() < 0.8:
                    lv["fitness"] = "fit"
            elif mode == "some" and prev:
                for n in rng.sample(prev, rng.randint(1, len(prev))):
                    lv[n] = rng.choice(ATTR_TYPES)
            elif mode == "all":
                for n in prev:
                    lv[n] = rng.choice(ATTR_TYPES)
            if mode in ("new", "some") or (mode == "all" and rng.random() < 0.3):
                free = [n for n in ATTR_NAMES if n not in prev and n not in lv]
                for n in rng.sample(free, min(len(free), rng.randint(1, 2))):
                    lv[n] = rng.choice(ATTR_TYPES)
            inst.append(lv)
    else:
        inst = [dict(l) for l in shape]
    levels = []
    for k, lv in enumerate(inst):
        ca = {}
        if rng.random() < 0.6:
            ca["bound"] = 5 + k
        if rng.random() < 0.3:
            ca["label"] = "L%d" % k
        levels.append({"inst": lv, "cattrs": ca})
    ev = _events(len(levels), rng, order)
    ninst = sum(1 for e in ev if e[0] == "inst")
    return {"k": "derive", "base": b, "weights": [rng.choice([1.0, -1.0]) for _ in range(rng.randint(1, 3))],
            "levels": levels, "events": ev, "content": _content(b, rng), "order": order,
            "write": sorted(rng.sample(range(ninst), min(ninst, 2)))}


def generate(tier, rng, mult):
    thorough = tier == "thorough"
    orders = ["parent-first", "child-first", "interleaved"]
    i = 0
    for b in DERIVE_BASES:
        for shape in SHAPES:
            for rep in range(3 if thorough else 1):
                yield mk_case(rng, b, shape, orders[i % 3])
                i += 1
    for _ in range((1500 if thorough else 30) * mult):
        yield mk_case(rng, rng.choice(DERIVE_BASES))


def shrink(d):
    if len(d.get("protos", B.PROTOCOLS)) > 1:
        for p in d.get("protos", B.PROTOCOLS):
            yield dict(d, protos=[p])
    ev = d["events"]
    for i in range(len(ev) - 1, -1, -1):
        if ev[i][0] == "inst":
            e = dict(d, events=ev[:i] + ev[i + 1:])
            n = sum(1 for x in e["events"] if x[0] == "inst")
            e["write"] = [w for w in d.get("write", [0]) if w < n]
            yield e
    nlev = len(d["levels"])
    if nlev > 1 and not any(e[0] == "inst" and e[1] == nlev - 1 for e in ev):
        yield dict(d, levels=d["levels"][:-1], events=[e for e in ev if not (e[0] == "create" and e[1] == nlev - 1)])
    for k, lv in enumerate(d["levels"]):
        for name in sorted(lv["inst"]):
            ls = [dict(l) for l in d["levels"]]
            ls[k] = dict(lv, inst=dict((a, t) for a, t in lv["inst"].items() if a != name))
            yield dict(d, levels=ls)
        if lv.get("cattrs"):
            ls = [dict(l) for l in d["levels"]]
            ls[k] = dict(lv, cattrs={})
            yield dict(d, levels=ls)
    if d["content"]:
        yield dict(d, content=d["content"][:-1] if d["base"] != "tree" else [])
