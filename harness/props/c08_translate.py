"""C08 — the translator tie: `translate(repo)` for harness/lib.py::_translated_obligations.

Reads deap/tools/support.py of `repo` AS IT IS NOW, renders the methods of HallOfFame / ParetoFront that the
sub-language of harness/py2lean_c08.py reaches as Lean definitions `Gen08.<Class>_<method>` (state-passing; the rendering
rules are that module's docstring = the trusted base, with lean/DeapModel/Core/GenPreludeC08.lean) and appends the committed
theorems of lean/DeapModel/GenEq/C08.lean.tmpl (`Gen08.<Class>_<method> … = <hand-written model> …`).  A method that has a
theorem block in the template but is no longer translatable is a PROBLEM (the tie is broken); one without a block is listed."""
import hashlib
import os
import re
import sys

HERE = os.path.dirname(os.path.abspath(__file__))
sys.path.insert(0, os.path.normpath(os.path.join(HERE, "..")))
import py2lean_c08                                                  # noqa: E402
from props.c20_translate import failing_theorems, theorem_names    # noqa: E402  (diagnostics helpers, reused unchanged)

TEMPLATE = os.path.normpath(os.path.join(HERE, "..", "..", "lean", "DeapModel", "GenEq", "C08.lean.tmpl"))
DIGEST = os.path.normpath(os.path.join(HERE, "..", "..", "lean", "DeapModel", "GenEq", "C08.defs.sha256"))
REL = "deap/tools/support.py"

HEADER = """import DeapModel.Lemmas.C08Gen

set_option linter.unusedVariables false
set_option linter.unusedSimpArgs false
set_option linter.unusedSectionVars false

open Archive Fitness

variable {G α : Type} [LT α] [LE α] [DecidableEq α] [DecidableLT α] [DecidableLE α]


"""


def template_blocks():
    src = open(TEMPLATE).read()
    blocks, pre, cur, buf = {}, [], None, []
    for line in src.splitlines():
        m = re.match(r"^--! begin (\S+)\s*$", line)
        if m:
            cur, buf = m.group(1), []
            continue
        if re.match(r"^--! end\s*$", line):
            blocks[cur] = "\n".join(buf)
            cur = None
            continue
        (buf if cur is not None else pre).append(line)
    return "\n".join(pre), blocks


def translate(repo, diagnose=True):
    problems, defs, refused, table, gen_texts, done, lost = [], [], [], [], [], [], []
    pre, blocks = template_blocks()
    out = [HEADER]
    try:
        rows = py2lean_c08.translate_class_methods(os.path.join(repo, REL))
    except (OSError, SyntaxError) as e:
        return {"problems": ["%s unreadable: %s" % (REL, e)], "source": None, "theorems": [], "definitions": [], "refused": []}
    # callees first (a method may call one that the source defines further down)
    names = [r[2] for r in rows if r[3] is not None]
    ordered, pending = [], list(rows)
    while pending:
        progress = False
        for r in list(pending):
            deps = [n for n in names if r[3] is not None and n != r[2] and re.search(re.escape(n) + r"\b", r[3])]
            if all(any(o[2] == d for o in ordered) for d in deps):
                ordered.append(r)
                pending.remove(r)
                progress = True
        if not progress:
            problems.append("mutually recursive methods: %s" % [r[2] for r in pending])
            break
    for cname, m, lean, text, why in ordered:
        full = lean
        if text is None:
            refused.append("%s:%s.%s (%s)" % (REL, cname, m, why))
            table.append((cname + "." + m, "refused", why))
            if full in blocks:
                lost.append(full)
                problems.append("%s.%s has left the translated sub-language (%s); its theorems %s cannot be checked"
                                % (cname, m, why, theorem_names(blocks[full])))
            continue
        out.append("/-- `%s:%s.%s`, regenerated from the source -/" % (REL, cname, m))
        out.append(text)
        out.append("")
        gen_texts.append(text)
        defs.append(full)
        done.append(full)
        table.append((cname + "." + m, "translated", "theorem" if full in blocks else "no theorem"))
    for full in blocks:
        if full not in done and full not in lost:
            problems.append("%s has theorems in the template but no method of that name exists any more" % full)
    out.append("")
    out.append(pre)
    theorems = []
    for full in done:
        if full in blocks:
            out.append(blocks[full])
            theorems += theorem_names(blocks[full])
    source = "\n".join(out)
    digest = hashlib.sha256("\n".join(gen_texts).encode()).hexdigest()
    try:
        known = open(DIGEST).read().split()
    except OSError:
        known = []
    if diagnose and digest not in known:
        failing = failing_theorems(source)
        if failing:
            problems.append("regenerated definitions differ from the committed digest; theorems that no longer hold: %s" % ", ".join(failing))
    return {"problems": problems, "source": source, "theorems": theorems, "definitions": defs, "refused": refused,
            "table": table, "digest": digest}


if __name__ == "__main__":
    r = translate(sys.argv[1] if len(sys.argv) > 1 else os.environ.get("DEAP_REPO", "/repo"), diagnose="--diagnose" in sys.argv)
    if len(sys.argv) > 2 and not sys.argv[2].startswith("--"):
        open(sys.argv[2], "w").write((r["source"] or "") + "\n" + "".join("#print axioms %s\n" % n for n in r["theorems"]))
    for row in r.get("table", []):
        print("%-28s %-11s %s" % row)
    print("problems:", r["problems"])
    print(len(r["definitions"]), "definitions,", len(r["theorems"]), "theorems,", len(r["refused"]), "refused; digest", r.get("digest"))
