"""One small valid call for every public operator of deap.tools / deap.gp / deap.algorithms (and the four CMA strategies).

Used by the `op` stream of harness/props/c17.py: around each single call the hidden-state detector
(harness/props/c17_hidden.py) fingerprints all module- and class-level state of the library, and the call is made twice
from identical generator states on equal inputs (a one-operator evolution run twice).

RECIPES[name](r) -> (thunk, observed):  `r` is a private random.Random used ONLY to build the inputs (never the global
generators, which the caller seeds right before `thunk()`); `thunk()` performs the library call(s) and returns what the
operator returned; `observed` are the input objects (operators work in place).  `public_names()` lists what the
library exports now, so that an operator without a recipe is visible in the evidence (tag `opcover/...`).
"""
import functools
import math
import operator
import random
import types

import numpy

from props import c17_families as F
from deap import algorithms, base, cma, creator, gp, tools

IndES = F._create("C17IndES", list, fitness=F.FitMin, strategy=None)
IndPerm = F._create("C17IndPerm", list, fitness=F.FitMax)
FitMax3 = F._create("C17FitMax3", base.Fitness, weights=(1.0, 1.0, 1.0))
IndCases = F._create("C17IndCases", list, fitness=FitMax3)


# ---- inputs -------------------------------------------------------------------------------------------------------

def bits(r, n=8):
    ind = F.IndBits([r.randint(0, 1) for _ in range(n)])
    ind.fitness.values = F.eval_onemax(ind)
    return ind


def bitpop(r, m=8, n=8):
    return [bits(r, n) for _ in range(m)]


def reals(r, n=6, cls=None, ev=None):
    ind = (cls or F.IndMO)([r.random() for _ in range(n)])
    ind.fitness.values = (ev or F.eval_zdt1)(ind)
    return ind


def mopop(r, m=10):
    return [reals(r) for _ in range(m)]


def mo3pop(r, m=12):
    return [reals(r, 6, F.IndMO3, F.eval_dtlz2) for _ in range(m)]


def perm(r, n=8):
    p = list(range(n))
    r.shuffle(p)
    ind = IndPerm(p)
    ind.fitness.values = (float(sum(i * x for i, x in enumerate(p))),)
    return ind


def es(r, n=5):
    ind = IndES([r.uniform(-2, 2) for _ in range(n)])
    ind.strategy = [r.uniform(0.1, 1.0) for _ in range(n)]
    ind.fitness.values = F.eval_sphere(ind)
    return ind


def casepop(r, m=8):
    pop = []
    for _ in range(m):
        ind = IndCases([r.randint(0, 3) for _ in range(3)])
        ind.fitness.values = tuple(float(x) for x in ind)
        pop.append(ind)
    return pop


def tree(r, pset=None, lo=1, hi=3, cls=None):
    """A tree built with the PRIVATE generator: gp.generate is driven through a temporary swap of nothing — we simply
    seed the global generator from r, generate, and leave (the caller re-seeds before the observed call)."""
    random.seed(r.randint(0, 10 ** 9))
    ind = (cls or F.IndTree)(gp.genGrow(pset or F.PSET, lo, hi))
    return ind


def treepop(r, m=6, pset=None, ev=None):
    pop = [tree(r, pset) for _ in range(m)]
    for ind in pop:
        ind.fitness.values = (ev or F.eval_symbreg)(ind)
    return pop


def ga_toolbox():
    return F.GAList().toolbox


def lf(x):
    return 1.0 / (1.0 + math.exp(-max(min(x, 50.0), -50.0)))


def _sem_pset():
    ps = gp.PrimitiveSet("C17SEM", 1)
    ps.addPrimitive(operator.sub, 2, name="sub")
    ps.addPrimitive(operator.add, 2, name="add")
    ps.addPrimitive(operator.mul, 2, name="mul")
    ps.addPrimitive(lf, 1, name="lf")
    ps.addTerminal(3)
    return ps


SEM = _sem_pset()


def _adf_psets():
    adf = gp.PrimitiveSet("C17ADF0", 2)
    adf.addPrimitive(operator.add, 2)
    adf.addPrimitive(operator.mul, 2)
    main = gp.PrimitiveSet("C17ADFMAIN", 1)
    main.addPrimitive(operator.sub, 2)
    main.addTerminal(1)
    main.addADF(adf)
    return [main, adf]


ADF = _adf_psets()


def feasible(ind):
    return sum(ind) < 3.0


def closest(ind):
    return [min(x, 0.4) for x in ind]


def distance(a, b):
    return sum((x - y) ** 2 for x, y in zip(a, b))


def eval_plain(ind):
    return (float(sum(ind)), float(max(ind)))


# ---- recipes ------------------------------------------------------------------------------------------------------

RECIPES = {}


def recipe(name):
    def deco(f):
        RECIPES[name] = f
        return f
    return deco


def _simple(name, fn, make):
    """make(r) -> (args, kwargs)"""
    def rec(r):
        args, kw = make(r)
        return (lambda: fn(*args, **kw)), [args, kw]
    RECIPES[name] = rec


T = "deap.tools."
for _n, _mk in [
        ("cxOnePoint", lambda r: ([bits(r), bits(r)], {})),
        ("cxTwoPoint", lambda r: ([bits(r), bits(r)], {})),
        ("cxTwoPoints", lambda r: ([bits(r), bits(r)], {})),
        ("cxUniform", lambda r: ([bits(r), bits(r)], {"indpb": 0.5})),
        ("cxMessyOnePoint", lambda r: ([bits(r), bits(r, 6)], {})),
        ("cxPartialyMatched", lambda r: ([perm(r), perm(r)], {})),
        ("cxUniformPartialyMatched", lambda r: ([perm(r), perm(r)], {"indpb": 0.5})),
        ("cxOrdered", lambda r: ([perm(r), perm(r)], {})),
        ("cxBlend", lambda r: ([reals(r), reals(r)], {"alpha": 0.4})),
        ("cxSimulatedBinary", lambda r: ([reals(r), reals(r)], {"eta": 15.0})),
        ("cxSimulatedBinaryBounded", lambda r: ([reals(r), reals(r)], {"eta": 15.0, "low": 0.0, "up": 1.0})),
        ("cxESBlend", lambda r: ([es(r), es(r)], {"alpha": 0.3})),
        ("cxESTwoPoint", lambda r: ([es(r), es(r)], {})),
        ("cxESTwoPoints", lambda r: ([es(r), es(r)], {})),
        ("mutGaussian", lambda r: ([reals(r)], {"mu": 0.0, "sigma": 0.3, "indpb": 0.6})),
        ("mutPolynomialBounded", lambda r: ([reals(r)], {"eta": 20.0, "low": 0.0, "up": 1.0, "indpb": 0.6})),
        ("mutShuffleIndexes", lambda r: ([perm(r)], {"indpb": 0.5})),
        ("mutFlipBit", lambda r: ([bits(r)], {"indpb": 0.5})),
        ("mutUniformInt", lambda r: ([bits(r)], {"low": 0, "up": 5, "indpb": 0.5})),
        ("mutInversion", lambda r: ([perm(r)], {})),
        ("mutESLogNormal", lambda r: ([es(r)], {"c": 1.0, "indpb": 0.6})),
        ("selRandom", lambda r: ([bitpop(r), 5], {})),
        ("selBest", lambda r: ([bitpop(r), 3], {})),
        ("selWorst", lambda r: ([bitpop(r), 3], {})),
        ("selTournament", lambda r: ([bitpop(r), 6], {"tournsize": 3})),
        ("selRoulette", lambda r: ([bitpop(r), 6], {})),
        ("selDoubleTournament", lambda r: ([bitpop(r), 6], {"fitness_size": 3, "parsimony_size": 1.4,
                                                            "fitness_first": bool(r.randint(0, 1))})),
        ("selStochasticUniversalSampling", lambda r: ([bitpop(r), 5], {})),
        ("selLexicase", lambda r: ([casepop(r), 4], {})),
        ("selEpsilonLexicase", lambda r: ([casepop(r), 4], {"epsilon": 1.0})),
        ("selAutomaticEpsilonLexicase", lambda r: ([casepop(r), 4], {})),
        ("selNSGA2", lambda r: ([mopop(r), 6], {})),
        ("selSPEA2", lambda r: ([mopop(r), 6], {})),
        ("selNSGA3", lambda r: ([mo3pop(r), 8, tools.uniform_reference_points(3, 3)], {})),
        ("sortNondominated", lambda r: ([mopop(r), 7], {})),
        ("sortLogNondominated", lambda r: ([mopop(r), 7], {})),
        ("uniform_reference_points", lambda r: ([3, r.randint(2, 4)], {})),
        ("hypervolume", lambda r: ([mopop(r, 5)], {})),
        ("initRepeat", lambda r: ([list, functools.partial(random.randint, 0, 9), 5], {})),
        ("initIterate", lambda r: ([list, functools.partial(random.sample, range(10), 4)], {})),
        ("initCycle", lambda r: ([list, [random.random, functools.partial(random.randint, 0, 3)], 3], {})),
]:
    _simple(T + _n, getattr(tools, _n), _mk)


@recipe(T + "selTournamentDCD")
def _r_dcd(r):
    pop = tools.selNSGA2(mopop(r, 8), 8)
    return (lambda: tools.selTournamentDCD(pop, 8)), [pop]


@recipe(T + "selNSGA3WithMemory")
def _r_nsga3mem(r):
    pop = mo3pop(r)
    sel = tools.selNSGA3WithMemory(tools.uniform_reference_points(3, 3))
    return (lambda: [sel(pop, 8), sel(pop[::-1], 6)]), [pop, sel]


@recipe(T + "migRing")
def _r_mig(r):
    demes = [bitpop(r, 5) for _ in range(3)]
    return (lambda: [tools.migRing(demes, 2, tools.selBest), tools.migRing(demes, 1, tools.selRandom, tools.selWorst),
                     tools.migRing(demes, 1, functools.partial(tools.selTournament, tournsize=2),
                                   migarray=[2, 0, 1])]), [demes]


@recipe(T + "HallOfFame")
def _r_hof(r):
    pop, hof = bitpop(r), tools.HallOfFame(3)
    return (lambda: [hof.update(pop), hof.update(pop[::-1]), hof.insert(pop[0]), len(hof)]), [hof, pop]


@recipe(T + "ParetoFront")
def _r_pf(r):
    pop, pf = mopop(r), tools.ParetoFront()
    return (lambda: [pf.update(pop), pf.update(pop[:3]), len(pf)]), [pf, pop]


@recipe(T + "History")
def _r_history(r):
    pop = bitpop(r, 4)
    tb = ga_toolbox()

    def go():
        h = tools.History()
        tb.decorate("mate", h.decorator)
        tb.decorate("mutate", h.decorator)
        h.update(pop)
        a, b = tb.mate(tb.clone(pop[0]), tb.clone(pop[1]))
        c, = tb.mutate(tb.clone(pop[2]))
        return [h.genealogy_index, sorted(h.genealogy_tree.items()), sorted(h.genealogy_history),
                sorted(h.getGenealogy(c).items()), a, b, c]
    return go, [pop]


@recipe(T + "Statistics")
def _r_stats(r):
    pop = bitpop(r)
    return (lambda: F.make_stats().compile(pop)), [pop]


@recipe(T + "MultiStatistics")
def _r_mstats(r):
    pop = bitpop(r)

    def go():
        ms = tools.MultiStatistics(fit=tools.Statistics(lambda i: i.fitness.values), size=tools.Statistics(len))
        ms.register("avg", numpy.mean)
        ms.register("max", numpy.max)
        return [ms.compile(pop), ms.fields]
    return go, [pop]


@recipe(T + "Logbook")
def _r_logbook(r):
    rows = [{"gen": g, "nevals": r.randint(1, 9), "fit": {"avg": r.random(), "max": r.random()}} for g in range(4)]

    def go():
        lb = tools.Logbook()
        lb.header = "gen", "nevals", "fit"
        out = []
        for row in rows[:3]:
            lb.record(**row)
            out.append(lb.stream)
        lb.record(**rows[3])
        out += [lb.select("gen", "nevals"), lb.chapters["fit"].select("avg"), lb.pop(1), str(lb), lb]
        return out
    return go, [rows]


@recipe(T + "DeltaPenalty")
def _r_delta(r):
    inds = [reals(r) for _ in range(4)]

    def go():
        f = tools.DeltaPenalty(feasible, 7.0, functools.partial(distance, [0.0] * 6))(eval_plain)
        g = tools.DeltaPenality(feasible, [7.0, 9.0])(eval_plain)
        return [[f(i), g(i)] for i in inds]
    return go, [inds]


@recipe(T + "ClosestValidPenalty")
def _r_closest(r):
    inds = [reals(r) for _ in range(4)]

    def go():
        f = tools.ClosestValidPenalty(feasible, closest, 1.0e-2, distance)(eval_plain)
        g = tools.ClosestValidPenality(feasible, closest, 0.5)(eval_plain)
        return [[f(i), g(i)] for i in inds]
    return go, [inds]


RECIPES[T + "DeltaPenality"] = RECIPES[T + "DeltaPenalty"]
RECIPES[T + "ClosestValidPenality"] = RECIPES[T + "ClosestValidPenalty"]

# ---- deap.gp ------------------------------------------------------------------------------------------------------

G = "deap.gp."
for _n, _mk in [
        ("genFull", lambda r: ([F.PSET, 1, 3], {})),
        ("genGrow", lambda r: ([F.PSET, 1, 3], {})),
        ("genHalfAndHalf", lambda r: ([F.PSET_PART, 1, 3], {})),
        ("generate", lambda r: ([F.TPSET, 1, 3, lambda h, d: d == h], {})),
        ("cxOnePoint", lambda r: ([tree(r, hi=4), tree(r, hi=4)], {})),
        ("cxOnePointLeafBiased", lambda r: ([tree(r, hi=4), tree(r, hi=4)], {"termpb": 0.3})),
        ("mutUniform", lambda r: ([tree(r)], {"expr": functools.partial(gp.genHalfAndHalf, min_=0, max_=2),
                                              "pset": F.PSET})),
        ("mutNodeReplacement", lambda r: ([tree(r, lo=2)], {"pset": F.PSET})),
        ("mutEphemeral", lambda r: ([tree(r, F.PSET_PART, lo=2)], {"mode": ("one", "all")[r.randint(0, 1)]})),
        ("mutInsert", lambda r: ([tree(r)], {"pset": F.PSET})),
        ("mutShrink", lambda r: ([tree(r, lo=2)], {})),
        ("graph", lambda r: ([tree(r)], {})),
        ("mutSemantic", lambda r: ([tree(r, SEM, 1, 2)], {"pset": SEM, "min": 1, "max": 2})),
        ("cxSemantic", lambda r: ([tree(r, SEM, 1, 2), tree(r, SEM, 1, 2)], {"pset": SEM, "min": 1, "max": 2})),
]:
    _simple(G + _n, getattr(gp, _n), _mk)


@recipe(G + "genRamped")
def _r_ramped(r):
    import warnings

    def go():
        with warnings.catch_warnings():
            warnings.simplefilter("ignore")
            return gp.genRamped(F.PSET, 1, 3)
    return go, []


@recipe(G + "compile")
def _r_compile(r):
    t, tt = tree(r), tree(r, F.TPSET, cls=F.IndTyped)
    return (lambda: [gp.compile(t, F.PSET)(0.5), gp.compile(tt, F.TPSET)(True, False, True), F.eval_symbreg(t)]), [t, tt]


@recipe(G + "compileADF")
def _r_compile_adf(r):
    random.seed(r.randint(0, 10 ** 9))
    ind = [gp.PrimitiveTree(gp.genFull(ADF[0], 1, 2)), gp.PrimitiveTree(gp.genFull(ADF[1], 1, 2))]
    return (lambda: gp.compileADF(ind, ADF)(2.0)), [ind]


@recipe(G + "staticLimit")
def _r_static(r):
    a, b = tree(r, hi=3), tree(r, hi=3)
    tb = base.Toolbox()
    tb.register("mate", gp.cxOnePoint)
    tb.decorate("mate", gp.staticLimit(key=operator.attrgetter("height"), max_value=2))
    return (lambda: tb.mate(a, b)), [a, b]


@recipe(G + "harm")
def _r_harm(r):
    pop = treepop(r, 8)
    fam = F.GPEph()
    return (lambda: gp.harm(pop, fam.toolbox, 0.5, 0.2, 2, alpha=0.05, beta=10, gamma=0.25, rho=0.9,
                            verbose=False)), [pop]


@recipe(G + "PrimitiveTree")
def _r_ptree(r):
    t = tree(r, lo=2)

    def go():
        s = str(t)
        u = gp.PrimitiveTree.from_string(s, F.PSET)
        return [s, str(u), t.height, t.root.name, t.searchSubtree(1), base.Toolbox().clone(t)]
    return go, [t]


@recipe(G + "PrimitiveSet")
def _r_pset(r):
    def go():
        ps = gp.PrimitiveSet("C17TMP", 2)
        ps.addPrimitive(operator.add, 2)
        ps.addTerminal(1)
        ps.addEphemeralConstant("c17_tmp_eph", F.eph_int)
        ps.renameArguments(ARG0="u")
        return [sorted(ps.mapping), ps.terminalRatio, [p.name for p in ps.primitives[object]],
                [getattr(t, "name", None) for t in ps.terminals[object]]]
    return go, []


@recipe(G + "PrimitiveSetTyped")
def _r_psett(r):
    def go():
        ps = F._make_typed_pset(bool(r.randint(0, 1)))
        return [sorted(ps.mapping), ps.terminalRatio,
                sorted((k.__name__, [p.name for p in v]) for k, v in ps.primitives.items()),
                sorted((k.__name__, [getattr(t, "name", None) for t in v]) for k, v in ps.terminals.items())]
    return go, []


@recipe(G + "Primitive")
def _r_prim(r):
    return (lambda: [gp.Primitive("f", [int, int], int).format("a", "b"), gp.Primitive("f", [int], int) ==
                     gp.Primitive("f", [int], int)]), []


@recipe(G + "Terminal")
def _r_term(r):
    return (lambda: [gp.Terminal(3, False, int).format(), gp.Terminal("x", True, int).format(),
                     gp.Terminal(3, False, int) == gp.Terminal(3, False, int)]), []


@recipe(G + "MetaEphemeral")
def _r_meta(r):
    node = [n for n in tree(r, F.PSET_PART, lo=3) if isinstance(type(n), gp.MetaEphemeral)]
    import pickle
    return (lambda: [type(n)().value for n in node] + [gp.MetaEphemeral.__reduce__(type(n))[1][0] for n in node] +
            [pickle.loads(pickle.dumps(type(n))) is type(n) for n in node]), []


# ---- deap.algorithms ----------------------------------------------------------------------------------------------

A = "deap.algorithms."
_simple(A + "varAnd", algorithms.varAnd, lambda r: ([bitpop(r), ga_toolbox(), 0.6, 0.4], {}))
_simple(A + "varOr", algorithms.varOr, lambda r: ([bitpop(r), ga_toolbox(), 7, 0.5, 0.3], {}))
for _n in F.PACKAGED:
    _full = {"pk_simple": "eaSimple", "pk_mupluslambda": "eaMuPlusLambda", "pk_mucommalambda": "eaMuCommaLambda",
             "pk_generateupdate": "eaGenerateUpdate"}[_n]

    def _rec(r, _n=_n):
        s = r.randint(0, 10 ** 6)
        return (lambda: F.run_packaged(_n, s, 2)), []
    RECIPES[A + _full] = _rec

# ---- deap.cma -----------------------------------------------------------------------------------------------------

C = "deap.cma."


def _cma(make, cls=F.IndCMA, ev=F.eval_sphere):
    def rec(r):
        def go():
            st = make()
            pop = st.generate(cls)
            for ind in pop:
                ind.fitness.values = ev(ind)
            st.update(pop)
            return [pop, st.generate(cls), st]
        return go, []
    return rec


def _parent():
    p = F.IndCMA([1.5, -0.5, 2.0, 0.25])
    p.fitness.values = F.eval_sphere(p)
    return p


def _mo_parents():
    pop = [F.IndCMA2([((3 * i + 2 * j) % 7) / 7.0 for j in range(4)]) for i in range(4)]
    for i in pop:
        i.fitness.values = F.eval_zdt1(i)
    return pop


RECIPES[C + "Strategy"] = _cma(lambda: cma.Strategy(centroid=[1.0, 2.0, -1.0], sigma=0.7, lambda_=6))
RECIPES[C + "StrategyOnePlusLambda"] = _cma(lambda: cma.StrategyOnePlusLambda(_parent(), sigma=1.0, lambda_=4))
RECIPES[C + "StrategyActiveOnePlusLambda"] = _cma(
    lambda: cma.StrategyActiveOnePlusLambda(_parent(), sigma=1.0, steps=[0.1] * 4, lambda_=4))
RECIPES[C + "StrategyMultiObjective"] = _cma(
    lambda: cma.StrategyMultiObjective(_mo_parents(), sigma=0.4, mu=4, lambda_=4), F.IndCMA2,
    lambda ind: F.eval_zdt1([min(max(x, 0.0), 1.0) for x in ind]))


def public_names():
    """What the library exports NOW (so that a new operator without a recipe shows up as uncovered)."""
    out = []
    for prefix, mod in ((T, tools), (G, gp), (A, algorithms), (C, cma)):
        for n in sorted(dir(mod)):
            if n.startswith("_"):
                continue
            v = getattr(mod, n)
            if isinstance(v, types.ModuleType):
                continue
            if not callable(v):
                continue
            m = getattr(v, "__module__", "") or ""
            if not m.startswith("deap"):
                continue
            if mod is not tools and m != mod.__name__:
                continue
            out.append(prefix + n)
    return out


ORDER = sorted(RECIPES)
