"""C13 — CMA-ES `Strategy` (deap/cma.py:33-208): every update equals the published (mu/mu_w, lambda)
equations and the stored state stays consistent.

Streams
  params : `computeParams` for (dim, lambda, mu, scheme, user-supplied rates) — model vs. the strategy's
           attributes; oracle = the documented default formulas, weights positive / non-increasing / sum 1.
  run    : a whole history (1..50 generations) of generate / evaluate / update on one objective.  Per
           generation three protocol lines: `generate` (the recorded standard-normal draws are replayed in the
           model), `update` (the model is given the strategy's own PRE-update state and the population as it
           was passed, i.e. unsorted, plus numpy's `eigh`/`argsort` answers for the new C) and `spec` (the
           model's published form).  Oracle = an independent numpy implementation of the published equations
           (Hansen's tutorial; its C^-1/2 comes from a fresh `eigh` of the pre-update C, not from the stored
           B/diagD), the consistency clauses, the `eigh` contract on numpy's answer, and order independence
           (a deep copy of the strategy updated with a permuted population must reach the identical state).
  sort   : `population.sort(key=fitness, reverse=True)` incl. ties (stable) — model vs. implementation.
  alias  : (first in `generate`) a small program over SEVERAL strategies and the objects the caller passed to their
           constructors: start point (list / tuple / int list / float32 / int64 / float64 ndarray), cmatrix (float64 or
           integer ndarray, or the default), the keyword dictionary (lambda_, mu, weights, rates).  The objects are
           shared by 2..4 strategies that are updated in any interleaving, modified by the caller between updates,
           re-used to build a further strategy after the first ones have run (restart); `lambda_ = k;
           computeParams(dictionary)` re-parameterises ONE strategy from the dictionary as it is then; populations are
           lists / arrays / views of one array and are handed to a second strategy as they are.  After every step
           of the library (construction, generate, update, computeParams) the oracle demands: the clauses of the
           statement for the strategy addressed, from ITS OWN state after its own last step (never from a fresh
           read); every other strategy bit-identical to what it was; every caller object (and every individual)
           bit-identical to what it was.  The model replays each strategy's history separately (`init`,
           `generate`, `update`, `relambda` lines built from that strategy's own recorded states) — theorems
           update_frame / strategies_independent / restart_fresh / computeParams_refresh.
"""
import copy
import math
import random

import numpy

from lib import Case, fbits
import tape as tapemod
from deap import base, cma

ANCHORS = [("deap/cma.py", ["Strategy"])]
LEVEL = "partial"
TOL = 1e-8          # parameter stream and the oracle (norm-wise)
# Histories: 1e-6 (per entry: relative 1e-6, or absolute 1e-9 of the largest entry of its vector/matrix).
# Looser than 1e-8 because p_sigma = ... B D^-1 B^T (m' - m)/sigma: the difference m' - m of two nearby
# centroids cancels (numpy's BLAS dot and the model's left-to-right sum differ by eps*|m|/|m' - m| there) and
# D^-1 amplifies that by sqrt(cond C).  Measured over 2200 histories: deviations up to 3e-11 for
# cond(C) <= 1e8 and 3e-10 at 1e9; histories are cut once cond(C) > 1e8.  A wrong coefficient changes
# the result by 1e-2 or more.
TOL_RUN = 1e-6
# `Strategy.cond` is diagD[-1] / diagD[0] with diagD already the SQUARE ROOTS of the eigenvalues, i.e. sqrt(cond(C)): the
# documented cut "cond(C) > 1e8" is cond > 1e4.  (The cut used to compare this square root with 1e8, so it never fired;
# VERIF_SEED=4 produced a 44-generation history on a constant objective that reached sqrt(cond) = 2.4e7 and deviated by
# 1e-5 from the Float model - a false alarm of the check on the unchanged tree, corrected here.)
COND_CUT = 1e4
RULE = ("fixed case list per (tier, seed): 7 structured + 40 (thorough 400) random multi-strategy programs (stream alias: dims 2..5, thorough 2..8; "
        "2..4 strategies, 6..12 steps out of update / update of two strategies with one population / caller write to centroid, cmatrix or "
        "keyword dictionary / restart from the same objects / lambda_ change + computeParams), then 42 structured + 1800 (thorough up to 6000, cut deterministically by a 1.5 GB protocol-volume cap) random histories, the parameter sweep "
        "+ 150 (1500) random rate sets, 60 (600) sorts; QUICK EXPLORES DIMENSIONS 2..8 ONLY, 9..20 are thorough-only. "
        "params: dims 2..8 (thorough 2..20) x lambda 4..14 x mu {default, 1, lambda/3, lambda} x 3 schemes, plus "
        "random user-supplied rates; runs: random (dim, lambda>=4, mu<=lambda, scheme, default or user-supplied "
        "cs/damps/ccum/ccov1/ccovmu, in 30% of the histories lambda_ is changed (or left) and computeParams(params) re-called at a random generation, centroid given as floats / ints only (list, tuple, range, int ndarray, [0]*n) / mixed, "
        "sigma, identity/diagonal/random SPD cmatrix with cond 1e1..1e5, or a well-conditioned cmatrix carrying the scale "
        "(variances 1e-30..1e-16 and 1e8..1e20)) "
        "on sphere/rosenbrock/linear/ellipsoid/step(ties)/const/two-objective fitnesses for 1..50 generations "
        "(generations with tied fitnesses and the four runs with cs in {0, 2} are compared with the model only), "
        "list and ndarray individuals, minimising and maximising weights. "
        "Non-trivial = distinct history (or parameter set); every run updates at least once.")
EXHAUSTIVE = {"quick": False, "thorough": False}
TIME_BUDGET = {"quick": 150, "thorough": 2400}     # measured need: ~20 s / ~300 s
MIN_CASES = 1500
CASE_TIMEOUT = 60
TRUSTED = ["numpy.linalg.eigh (LAPACK) — a parameter of the model with the contract V^T V = I, C = V diag(w) V^T; "
           "the contract is checked numerically on every answer numpy gives during the runs",
           "numpy.random.standard_normal — the distributional claim 'N(0, sigma^2 C)' rests on numpy's sampler; the "
           "theorems cover the affine map x = m + sigma BD z and (sigma BD)(sigma BD)^T = sigma^2 C",
           "IEEE-754 rounding: the Float run of the model and numpy agree to 1e-6 per entry (relative, or 1e-9 of the "
           "largest entry of the vector/matrix) along histories with cond(C) <= 1e8, 1e-8 for the parameters",
           "numpy.argsort — any permutation sorting the eigenvalues (checked by the model on every answer)"]
ASSUMPTIONS = ["finite inputs, sigma > 0, symmetric positive definite cmatrix, fitness values without NaN",
               "cmatrix is a numpy array (float or integer): a nested list raises TypeError at the first update "
               "(cma.py:158 multiplies it by a scalar) — reported, not explored",
               "the caller does not write to his cmatrix array between the construction of a strategy and that strategy's "
               "first update: until then `strategy.C is cmatrix` (cma.py:100 keeps the object, :158 re-binds) — reported; "
               "afterwards, and for the start point and the keyword dictionary at any time, caller writes are explored",
               "mu >= 1 and mu <= lambda = len(population) (numpy raises otherwise)",
               "well-posedness guard of the equation theorems (structure WellPosed): sigma > 0, 0 < cs < 2, damps != 0, "
               "diagD > 0 — outside it numpy divides by zero (inf/nan) while division over the reals is totalised",
               "which individuals are 'the mu best' is determined only for pairwise distinct fitnesses; with ties the "
               "code's stable order is compared with the model, not demanded by the oracle",
               "theorems are over the reals: rounding, overflow and underflow of binary64 are not modelled",
               "the eigenvalues LAPACK returns for the updated C are positive (over the reals they are >= 0 because the "
               "update keeps C positive semi-definite — theorem update_psd; a history whose C becomes numerically "
               "indefinite is cut there and tagged)"]
EXPLANATION = ("Algebra of update/computeParams/generate proved over the reals for all dimensions and populations "
               "(code form = published form, symmetry, BD BD^T = C under the eigh contract, sigma > 0, weights, order "
               "independence); the Float instance of the same definitions is diffed against numpy after every update "
               "from the strategy's own pre-update state.  Several strategies sharing / re-using the caller's parameter "
               "objects: each is compared with its own separate replay and must not change unless it is the one updated "
               "(update_frame, strategies_independent); caller objects must stay as they are.")

SCHEMES = ("superlinear", "linear", "equal")
RATES = ("cs", "damps", "ccum", "ccov1", "ccovmu")


# ----------------------------------------------------------------------------------------
# protocol formatting
# ----------------------------------------------------------------------------------------

def fv(v):
    v = [float(x) for x in v]
    return ",".join(fbits(x) for x in v) if v else "-"


def fm(M):
    M = [list(r) for r in M]
    return ";".join(fv(r) for r in M) if M else "-"


def _scaled(m, v):
    if m > 0.0 and math.isfinite(m):
        return fv([float(x) / m for x in v])
    return fv(v)


def nvec(v):
    v = [float(x) for x in v]
    m = max([abs(x) for x in v] + [0.0])
    return fbits(m) + " " + _scaled(m, v)


def nmat(M):
    M = [[float(x) for x in r] for r in M]
    m = max([abs(x) for r in M for x in r] + [0.0])
    return fbits(m) + " " + (";".join(_scaled(m, r) for r in M) if M else "-")


def opt(x, f=fbits):
    return "-" if x is None else f(x)


def params_answer(st):
    return "%d %s %s" % (st.mu, nvec(st.weights), " ".join(
        fbits(x) for x in (st.mueff, st.cc, st.cs, st.ccov1, st.ccovmu, st.damps)))


def state_tokens(pre):
    return " ".join([str(pre["dim"]), str(pre["mu"]), fv(pre["weights"]), fbits(pre["mueff"]), fbits(pre["cc"]),
                     fbits(pre["cs"]), fbits(pre["ccov1"]), fbits(pre["ccovmu"]), fbits(pre["damps"]),
                     fbits(pre["chiN"]), str(pre["count"]), fv(pre["centroid"]), fbits(pre["sigma"]), fv(pre["pc"]),
                     fv(pre["ps"]), fm(pre["C"]), fm(pre["B"]), fv(pre["diagD"])])


def snapshot(st):
    return dict(dim=st.dim, mu=st.mu, weights=numpy.array(st.weights, dtype=float), mueff=float(st.mueff),
                cc=float(st.cc), cs=float(st.cs), ccov1=float(st.ccov1), ccovmu=float(st.ccovmu),
                damps=float(st.damps), chiN=float(st.chiN), count=int(st.update_count),
                centroid=numpy.array(st.centroid, dtype=float), sigma=float(st.sigma),
                pc=numpy.array(st.pc, dtype=float), ps=numpy.array(st.ps, dtype=float),
                C=numpy.array(st.C, dtype=float), B=numpy.array(st.B, dtype=float),
                diagD=numpy.array(st.diagD, dtype=float), BD=numpy.array(st.BD, dtype=float),
                cond=float(st.cond), lambda_=int(st.lambda_))


# ----------------------------------------------------------------------------------------
# the statement, written from the published equations (independent of deap's code and of the model)
# ----------------------------------------------------------------------------------------

def close(a, b, tol=TOL):
    a, b = numpy.asarray(a, dtype=float), numpy.asarray(b, dtype=float)
    if a.shape != b.shape:
        return False
    if not (numpy.all(numpy.isfinite(a)) and numpy.all(numpy.isfinite(b))):
        return False
    if a.size == 0:
        return True
    scale = max(numpy.max(numpy.abs(a)), numpy.max(numpy.abs(b)))
    return bool(numpy.max(numpy.abs(a - b)) <= tol * scale + 1e-300)


def expected_chiN(n):
    return math.sqrt(n) * (1.0 - 1.0 / (4.0 * n) + 1.0 / (21.0 * n * n))


def published_weights(scheme, mu):
    i = numpy.arange(1, mu + 1, dtype=float)
    if scheme == "superlinear":
        w = math.log(mu + 0.5) - numpy.log(i)
    elif scheme == "linear":
        w = mu + 0.5 - i
    else:
        w = numpy.ones(mu)
    return w / w.sum()


def published_params(n, lam, mu, scheme, over):
    """documented defaults (table in the Strategy docstring / Hansen's tutorial), user values win"""
    w = published_weights(scheme, mu)
    mueff = 1.0 / float((w ** 2).sum())
    cc = over.get("ccum", 4.0 / (n + 4.0))
    cs = over.get("cs", (mueff + 2.0) / (n + mueff + 3.0))
    c1 = over.get("ccov1", 2.0 / ((n + 1.3) ** 2 + mueff))
    cmu = over.get("ccovmu", 2.0 * (mueff - 2.0 + 1.0 / mueff) / ((n + 2.0) ** 2 + mueff))
    cmu = min(1.0 - c1, cmu)
    damps = over.get("damps", 1.0 + 2.0 * max(0.0, math.sqrt((mueff - 1.0) / (n + 1.0)) - 1.0) + cs)
    return dict(weights=w, mueff=mueff, cc=cc, cs=cs, ccov1=c1, ccovmu=cmu, damps=damps)


def check_params(st, n, lam, mu, scheme, over):
    """None or the clause that fails"""
    w = numpy.asarray(st.weights, dtype=float)
    if st.mu != mu:
        return "mu=%r, documented int(lambda/2) or the supplied value gives %r" % (st.mu, mu)
    if w.shape != (mu,):
        return "weights have shape %r for mu=%d" % (w.shape, mu)
    if not numpy.all(w > 0):
        return "a recombination weight is not positive: %r" % (w.tolist(),)
    if numpy.any(w[1:] > w[:-1]):
        return "recombination weights increase somewhere: %r" % (w.tolist(),)
    if abs(float(w.sum()) - 1.0) > 1e-12:
        return "recombination weights sum to %r" % float(w.sum())
    want = published_params(n, lam, mu, scheme, over)
    for k in ("weights", "mueff", "cc", "cs", "ccov1", "ccovmu", "damps"):
        if not close(getattr(st, k), want[k], 1e-12):
            return "parameter %s=%r differs from the documented %r" % (k, getattr(st, k), want[k])
    return None


def published_update(pre, xs):
    """(mu/mu_w, lambda)-CMA-ES, Hansen's tutorial.  xs: the mu best points, best first (mu x n)."""
    n, m, sig, C = pre["dim"], pre["centroid"], pre["sigma"], pre["C"]
    w, mueff, cs, ds, cc, c1, cmu = (pre[k] for k in ("weights", "mueff", "cs", "damps", "cc", "ccov1", "ccovmu"))
    g = pre["count"]
    chiN = expected_chiN(n)
    y = (xs - m) / sig
    yw = numpy.zeros(n)
    mean = numpy.zeros(n)
    for i in range(len(w)):
        yw = yw + w[i] * y[i]
        mean = mean + w[i] * xs[i]
    ev, E = numpy.linalg.eigh(C)
    Cinvsqrt = (E * (ev ** -0.5)) @ E.T
    ps = (1 - cs) * pre["ps"] + math.sqrt(cs * (2 - cs) * mueff) * (Cinvsqrt @ yw)
    lhs = numpy.linalg.norm(ps) / math.sqrt(1 - (1 - cs) ** (2 * (g + 1)))
    rhs = (1.4 + 2.0 / (n + 1)) * chiN
    hsig = 1.0 if lhs < rhs else 0.0
    borderline = abs(lhs - rhs) <= 1e-9 * rhs
    pc = (1 - cc) * pre["pc"] + hsig * math.sqrt(cc * (2 - cc) * mueff) * yw
    rank_mu = numpy.zeros((n, n))
    for i in range(len(w)):
        rank_mu = rank_mu + w[i] * numpy.outer(y[i], y[i])
    Cn = (1 - c1 - cmu) * C + c1 * (numpy.outer(pc, pc) + (1 - hsig) * cc * (2 - cc) * C) + cmu * rank_mu
    sigma = sig * math.exp((cs / ds) * (numpy.linalg.norm(ps) / chiN - 1))
    return dict(centroid=mean, ps=ps, hsig=hsig, pc=pc, C=Cn, sigma=sigma, borderline=borderline)


def check_eigh_contract(C, w, V, tol=TOL):
    n = len(w)
    nC = max(float(numpy.max(numpy.abs(C))), 1e-300)
    if not close(C, C.T, 1e-12):
        return "covariance matrix is not symmetric (max |C - C^T| = %g)" % float(numpy.max(numpy.abs(C - C.T)))
    if float(numpy.max(numpy.abs(V.T @ V - numpy.identity(n)))) > 1e-10:
        return "eigh contract: V^T V differs from I"
    if float(numpy.max(numpy.abs((V * w) @ V.T - C))) > tol * nC:
        return "eigh contract: V diag(w) V^T differs from C"
    return None


def check_consistency(st):
    """the clauses 'after every update ...' on the strategy object"""
    n = st.dim
    C = numpy.asarray(st.C, dtype=float)
    B = numpy.asarray(st.B, dtype=float)
    d = numpy.asarray(st.diagD, dtype=float)
    BD = numpy.asarray(st.BD, dtype=float)
    if C.shape != (n, n) or B.shape != (n, n) or d.shape != (n,) or BD.shape != (n, n):
        return "shapes of C/B/diagD/BD are %r %r %r %r" % (C.shape, B.shape, d.shape, BD.shape)
    if not (numpy.all(numpy.isfinite(C)) and numpy.all(numpy.isfinite(B)) and numpy.all(numpy.isfinite(d))):
        return "non-finite entries in C, B or diagD"
    if not close(C, C.T, 1e-12):
        return "covariance matrix is not symmetric (max |C - C^T| = %g)" % float(numpy.max(numpy.abs(C - C.T)))
    nC = max(float(numpy.max(numpy.abs(C))), 1e-300)
    if float(numpy.max(numpy.abs((B * d ** 2) @ B.T - C))) > TOL * nC:
        return "stored eigen-decomposition does not reproduce C: max |B diag(diagD^2) B^T - C| = %g (|C| = %g)" % (
            float(numpy.max(numpy.abs((B * d ** 2) @ B.T - C))), nC)
    if float(numpy.max(numpy.abs(B.T @ B - numpy.identity(n)))) > 1e-10:
        return "B is not orthogonal"
    if not close(BD, B @ numpy.diag(d), 1e-13):
        return "BD differs from B diag(diagD)"
    if float(numpy.max(numpy.abs(BD @ BD.T - C))) > TOL * nC:
        return "BD BD^T differs from C"
    if not (st.sigma > 0 and math.isfinite(st.sigma)):
        return "step size sigma=%r is not positive" % (st.sigma,)
    w = numpy.asarray(st.weights, dtype=float)
    if not (numpy.all(w > 0) and not numpy.any(w[1:] > w[:-1]) and abs(float(w.sum()) - 1.0) <= 1e-12):
        return "recombination weights are not positive, non-increasing and summing to one: %r" % (w.tolist(),)
    return None


# ----------------------------------------------------------------------------------------
# case construction
# ----------------------------------------------------------------------------------------

_fit_classes = {}


def fit_class(weights):
    key = tuple(weights)
    if key not in _fit_classes:
        _fit_classes[key] = type("FitC13", (base.Fitness,), {"weights": key})
    return _fit_classes[key]


class ListInd(list):
    def __init__(self, a):
        list.__init__(self, (float(x) for x in a))
        self.fitness = None


class ArrInd(numpy.ndarray):
    def __new__(cls, a):
        return numpy.asarray(a, dtype=float).copy().view(cls)

    def __array_finalize__(self, obj):
        self.fitness = getattr(obj, "fitness", None)


def make_cmatrix(kind, n, rs):
    """(matrix or None, scale): `scale` = magnitude of the eigenvalues.  The kinds `tiny*` / `huge*` carry the
    scale of the search space in the covariance matrix instead of sigma (variances 1e-30..1e-16 resp.
    1e8..1e20, well conditioned): everything in the statement is scale-free, absolute thresholds are not."""
    if kind == "id":
        return None, 1.0
    if kind == "diag":
        return numpy.diag(numpy.exp(rs.uniform(-2.0, 2.0, n))), 1.0
    if kind in ("tinydiag", "hugediag", "tinyspd", "hugespd"):
        scale = 10.0 ** (rs.uniform(-30.0, -16.5) if kind.startswith("tiny") else rs.uniform(8.0, 20.0))
        ev = scale * 10.0 ** rs.uniform(-1.0, 0.0, n)
        if kind.endswith("diag"):
            return numpy.diag(ev), scale
        Q, _ = numpy.linalg.qr(rs.standard_normal((n, n)))
        A = (Q * ev) @ Q.T
        return (A + A.T) / 2.0, scale
    condexp = {"spd1": 1.0, "spd3": 3.0, "spd5": 5.0}[kind]
    Q, _ = numpy.linalg.qr(rs.standard_normal((n, n)))
    ev = 10.0 ** rs.uniform(-condexp, 0.0, n)
    ev[0], ev[-1] = 10.0 ** -condexp, 1.0
    ev = ev * 10.0 ** rs.uniform(-1.0, 1.0)
    A = (Q * ev) @ Q.T
    return (A + A.T) / 2.0, 1.0


SCALED_CM = ("tinydiag", "hugediag", "tinyspd", "hugespd")
INT_CENTROIDS = ("intlist", "tuple", "range", "intarray", "zeros")


def make_centroid(desc, n, rs, scale):
    """(object passed to Strategy, its float values).  `ctype` = how the documented 'iterable' start point is
    given: floats (list), or integers only (list of ints, tuple, range, int ndarray, [0]*n) — numpy.array() of
    those is an integer array; `mixed` = ints with one float (float dtype, control)."""
    ctype = desc.get("ctype", "float")
    if ctype == "float" or desc.get("cm") in SCALED_CM:
        c = rs.uniform(-desc.get("cscale", 3.0), desc.get("cscale", 3.0), n)
        if desc.get("cm") in SCALED_CM:
            c = c * 10.0 * math.sqrt(scale)         # start a few standard deviations away, not 1e9 of them
        return [float(x) for x in c], c
    ints = [int(v) for v in rs.randint(-5, 6, n)]
    if ctype == "intlist":
        obj = list(ints)
    elif ctype == "tuple":
        obj = tuple(ints)
    elif ctype == "range":
        k = int(ints[0])
        obj, ints = range(k, k + n), list(range(k, k + n))
    elif ctype == "intarray":
        obj = numpy.array(ints, dtype=int)
    elif ctype == "zeros":
        obj, ints = [0] * n, [0] * n
    elif ctype == "mixed":
        obj = [float(ints[0])] + ints[1:]
    else:
        raise ValueError(ctype)
    return obj, numpy.array(ints, dtype=float)


def objective(desc, n):
    kind = desc["obj"]
    rs = numpy.random.RandomState(desc["cseed"] + 7919)
    coef = rs.uniform(-1.0, 1.0, n)
    if kind == "sphere":
        return lambda x: (float(numpy.dot(x, x)),)
    if kind == "rosenbrock":
        return lambda x: (float(sum(100.0 * (x[i + 1] - x[i] ** 2) ** 2 + (1.0 - x[i]) ** 2 for i in range(n - 1))),)
    if kind == "linear":
        return lambda x: (float(numpy.dot(coef, x)),)
    if kind == "ellipsoid":
        sc = 10.0 ** (3.0 * numpy.arange(n) / max(n - 1, 1))
        return lambda x: (float(numpy.dot(sc * x, x)),)
    if kind == "step":                      # many ties: coarse rounding of the sphere
        return lambda x: (float(math.floor(2.0 * math.sqrt(float(numpy.dot(x, x))))),)
    if kind == "const":                     # all fitnesses equal: the sort must keep the given order
        return lambda x: (1.0,)
    if kind == "two":                       # two objectives, lexicographic; first one coarse so the second decides
        return lambda x: (float(math.floor(float(numpy.dot(x, x)))), float(numpy.dot(coef, x)))
    raise ValueError(kind)


def build_strategy(desc):
    n = desc["dim"]
    rs = numpy.random.RandomState(desc["cseed"])
    cm, scale = make_cmatrix(desc.get("cm", "id"), n, numpy.random.RandomState(desc["cseed"] + 104729))
    cobj, centroid = make_centroid(desc, n, rs, scale)
    kargs = {}
    if desc.get("lam") is not None:
        kargs["lambda_"] = desc["lam"]
    if desc.get("mu") is not None:
        kargs["mu"] = desc["mu"]
    if desc.get("scheme") is not None:
        kargs["weights"] = desc["scheme"]
    for k in RATES:
        if k in desc.get("over", {}):
            kargs[k] = desc["over"][k]
    if cm is not None:
        kargs["cmatrix"] = cm
    st = cma.Strategy(centroid=cobj, sigma=desc["sigma"], **kargs)
    return st, centroid, cm


def over_tokens(desc):
    o = desc.get("over", {})
    return " ".join(opt(o.get(k)) for k in RATES)


def eval_params(d):
    n, lam = d["dim"], d["lam"]
    scheme = d["scheme"]
    line = "C13 params %d %d %s %s %s" % (n, lam, opt(d.get("mu"), str), scheme, over_tokens(d))
    kargs = {"lambda_": lam, "weights": scheme}
    if d.get("mu") is not None:
        kargs["mu"] = d["mu"]
    kargs.update(d.get("over", {}))
    if scheme not in SCHEMES:
        try:
            cma.Strategy([0.0] * n, 1.0, **kargs)
        except RuntimeError:
            return Case(d, [line], ["error RuntimeError"], None, tag="params/unknown-scheme")
        return Case(d, [line], ["no-error"], "unknown weights scheme %r accepted" % scheme, tag="params/unknown-scheme")
    st = cma.Strategy([0.0] * n, 1.0, **kargs)
    mu = d["mu"] if d.get("mu") is not None else int(lam / 2)
    orc = check_params(st, n, lam, mu, scheme, d.get("over", {}))
    if orc is None and not (1 <= st.mu <= lam):
        orc = "mu=%d outside 1..lambda=%d" % (st.mu, lam)
    return Case(d, [line], [params_answer(st)], orc,
                tag="params/%s/%s" % (scheme, "user" if d.get("over") else "default"), tol=TOL)


def eval_sort(d):
    keys = d["keys"]
    F = fit_class(tuple(d["fw"]))
    pop = []
    for i, v in enumerate(keys):
        ind = ListInd([float(i)])
        ind.fitness = F(tuple(v))
        pop.append(ind)
    wv = [list(ind.fitness.wvalues) for ind in pop]
    pop.sort(key=lambda ind: ind.fitness, reverse=True)          # the statement of cma.py:133
    order = [int(ind[0]) for ind in pop]
    orc = None
    for a, b in zip(order, order[1:]):
        if tuple(wv[a]) < tuple(wv[b]):
            orc = "sorted population is not best-first"
    return Case(d, ["C13 sort %s" % fm(wv)], [",".join(str(i) for i in order) if order else "-"], orc,
                tag="sort/n=%d/%s" % (len(keys), "ties" if len(set(map(tuple, wv))) < len(wv) else "distinct"))


def states_identical(a, b):
    for k in ("centroid", "ps", "pc", "C", "B", "diagD", "BD"):
        if not numpy.array_equal(numpy.asarray(getattr(a, k)), numpy.asarray(getattr(b, k))):
            return k
    if a.sigma != b.sigma:
        return "sigma"
    if a.update_count != b.update_count:
        return "update_count"
    return None


def eval_run(d):
    n = d["dim"]
    st, centroid0, cm = build_strategy(d)
    lines, expect = [], []
    orc = None
    tags = []

    def fail(msg, g=None):
        nonlocal orc
        if orc is None:
            orc = msg if g is None else "generation %d: %s" % (g, msg)

    # ---- __init__ ---------------------------------------------------------------------------
    C0 = numpy.identity(n) if cm is None else cm
    w0, V0 = numpy.linalg.eigh(C0)
    i0 = numpy.argsort(w0)
    lines.append("C13 init %s %s %s %s %s %s %s %s %s %s" % (
        fv(centroid0), fbits(d["sigma"]), opt(d.get("lam"), str), opt(d.get("mu"), str),
        d.get("scheme") or "superlinear", over_tokens(d), "-" if cm is None else fm(cm), fv(w0), fm(V0),
        ",".join(str(int(i)) for i in i0)))
    expect.append(" ".join([str(st.dim), str(st.lambda_), fbits(st.chiN), nvec(st.pc), nvec(st.ps), nmat(st.C),
                            nvec(st.diagD), nmat(st.B), nmat(st.BD), fbits(st.cond), str(st.update_count), "1",
                            params_answer(st)]))
    lam = d["lam"] if d.get("lam") is not None else int(4 + 3 * math.log(n))
    mu = d["mu"] if d.get("mu") is not None else int(lam / 2)
    if st.lambda_ != lam:
        fail("lambda_=%r, documented default int(4 + 3 ln N) or the supplied value gives %r" % (st.lambda_, lam))
    if st.dim != n or not close(st.centroid, centroid0, 0) or st.sigma != d["sigma"]:
        fail("initial centroid / sigma / dim are not the given ones")
    if numpy.any(st.pc != 0) or numpy.any(st.ps != 0) or st.update_count != 0:
        fail("evolution paths / update_count do not start at zero")
    if not close(st.chiN, expected_chiN(n), 1e-13):
        fail("chiN=%r differs from sqrt(n)(1 - 1/(4n) + 1/(21 n^2))=%r" % (st.chiN, expected_chiN(n)))
    if not close(st.C, C0, 0):
        fail("initial C is not the given cmatrix / identity")
    e = check_params(st, n, lam, mu, d.get("scheme") or "superlinear", d.get("over", {}))
    if e:
        fail(e)
    e = check_consistency(st)
    if e:
        fail("after __init__: " + e)

    # ---- generations ------------------------------------------------------------------------
    F = fit_class(tuple(d["fw"]))
    f = objective(d, n)
    Ind = ArrInd if d.get("ind") == "ndarray" else ListInd
    prng = random.Random(d["zseed"] ^ 0x5bd1e995)
    ties_seen = False
    # user-supplied cs outside (0, 2): the h_sigma denominator sqrt(1 - (1-cs)^(2(g+1))) is 0, numpy yields
    # inf/nan there; outside the guard `WellPosed` of the theorems -> model comparison only, no equations oracle
    degenerate = not (0.0 < float(st.cs) < 2.0) or float(st.damps) == 0.0
    if degenerate:
        tags.append("degenerate-cs")
    relam = d.get("relam")
    for g in range(d["ngen"]):
        if relam and g == relam[0]:
            # the documented way of changing the population size during a run (docstring of computeParams:
            # "needs to be called again if lambda changes during evolution"); relam[1] = None re-calls it unchanged
            old = st.lambda_
            newlam = relam[1] if relam[1] is not None else old
            st.lambda_ = newlam
            st.computeParams(st.params)
            lines.append("C13 relambda %d %d %d %s %s %s" % (n, old, newlam, opt(d.get("mu"), str),
                                                            d.get("scheme") or "superlinear", over_tokens(d)))
            expect.append("%s %s" % (st.lambda_, params_answer(st)))
            lam = newlam
            mu = d["mu"] if d.get("mu") is not None else int(lam / 2)
            if st.lambda_ != newlam:
                fail("after `lambda_ = %d; computeParams(params)` the strategy's lambda_ is %r" % (newlam, st.lambda_), g)
                break
            e = check_params(st, n, lam, mu, d.get("scheme") or "superlinear", d.get("over", {}))
            if e:
                fail("after `lambda_ = %d; computeParams(params)`: %s" % (newlam, e), g)
                break
            tags.append("relambda")
        pre = snapshot(st)
        with tapemod.Tape(rng=random.Random(d["zseed"] * 1000 + g), numpy_too=True) as tp:
            pop = st.generate(Ind)
        draws = [x for x in tp.draws if x[0] == "np.standard_normal"]
        if len(draws) != 1 or draws[0][1] != [st.lambda_, n]:
            fail("TAPE: generate drew %r instead of one (lambda_, dim) standard-normal block" % (
                [(x[0], x[1]) for x in tp.draws],), g)
            break
        arz = numpy.array(draws[0][2], dtype=float).reshape(st.lambda_, n)
        # generate: exactly lambda individuals of dimension n built with ind_init, x = m + sigma B D z
        if len(pop) != st.lambda_ or len(pop) != lam:
            fail("generate returned %d individuals for lambda_=%d" % (len(pop), lam), g)
            break
        if any(type(x) is not Ind for x in pop):
            fail("generate did not build the individuals with the given ind_init", g)
        if any(len(x) != n for x in pop):
            fail("generate returned an individual whose size is not the problem dimension", g)
            break
        want = pre["centroid"] + pre["sigma"] * (arz * pre["diagD"]) @ pre["B"].T
        got = numpy.array([[float(v) for v in x] for x in pop])
        if not close(got, want):
            fail("generate: individuals differ from centroid + sigma B D z", g)
        # the model consumes exactly lambda_*dim draws of a flat tape; `extra` further draws must be left over
        extra = (d["zseed"] + g) % 4
        flat = list(draws[0][2]) + [0.5 * (j + 1) for j in range(extra)]
        lines.append("C13 generate %d %d %s %s %s %s" % (n, st.lambda_, fv(pre["centroid"]), fbits(pre["sigma"]),
                                                        fm(pre["BD"]), fv(flat)))
        expect.append("%d %d %s" % (len(pop), extra, nmat(got)))
        # evaluate
        for x in pop:
            x.fitness = F(f(numpy.array([float(v) for v in x])))
        wv = [tuple(x.fitness.wvalues) for x in pop]
        if not all(all(math.isfinite(v) for v in t) for t in wv):
            break                                   # objective overflowed: outside the assumptions
        distinct = len(set(wv)) == len(wv)
        ties_seen = ties_seen or not distinct
        given = list(pop)                           # order as passed
        keys_tok, pop_tok = fm(wv), fm(got)
        # order independence: same pre-state, permuted population
        twins = []
        if d.get("perm") and distinct:
            for kind in ("shuffle", "reverse"):
                q = list(given)
                if kind == "shuffle":
                    prng.shuffle(q)
                else:
                    q.reverse()
                twins.append((kind, copy.deepcopy(st), q))
        # the real update
        with numpy.errstate(all="ignore"):
            st.update(pop)
        post = snapshot(st)
        if not (numpy.all(numpy.isfinite(post["C"])) and math.isfinite(post["sigma"])
                and numpy.all(numpy.isfinite(post["centroid"]))):
            fail("non-finite state after update", g)
            break
        # eigh as the model's parameter: numpy's own answer on the new C, contract checked
        w1, V1 = numpy.linalg.eigh(st.C)
        i1 = numpy.argsort(w1)
        e = check_eigh_contract(post["C"], w1, V1)
        if e:
            fail(e, g)
        if numpy.min(w1) <= 0:
            # the assumption of the eig_reproduces theorem fails (C numerically indefinite): stop the history
            tags.append("indefinite")
            break
        for kind, st2, q in twins:
            with numpy.errstate(all="ignore"):
                st2.update(q)
            df = states_identical(st, st2)
            if df is not None:
                fail("order dependence: %s differs after updating with the %s population" % (
                    df, "shuffled" if kind == "shuffle" else "reversed"), g)
        if post["count"] != pre["count"] + 1:
            fail("update_count went from %d to %d" % (pre["count"], post["count"]), g)
        if post["cond"] > COND_CUT or pre["cond"] > COND_CUT:
            tags.append("stopped-illconditioned")
            break
        stoks = state_tokens(pre)
        lines.append("C13 update %s %s %s %s %s %s" % (stoks, keys_tok, pop_tok, fv(w1), fm(V1),
                                                      ",".join(str(int(i)) for i in i1)))
        expect.append(" ".join([nvec(post["centroid"]), nvec(post["ps"]), nvec(post["pc"]), nmat(post["C"]),
                                fbits(post["sigma"]), str(post["count"]), nvec(post["diagD"]), nmat(post["B"]),
                                nmat(post["BD"]), fbits(post["cond"]), "1"]))
        # published equations on the mu best.  Which individuals are "the mu best" is only determined when the
        # fitnesses are pairwise distinct (the statement says nothing about the order among equal fitnesses):
        # with ties, and outside the guard, only the model comparison above applies.
        if not distinct or degenerate:
            e = check_consistency(st)
            if e:
                fail(e, g)
            if post["cond"] > COND_CUT or post["sigma"] > 1e100 or post["sigma"] < 1e-100:
                tags.append("stopped-illconditioned")
                break
            if orc is not None:
                break
            continue
        order = sorted(range(len(given)), key=lambda i: wv[i], reverse=True)
        xs = got[order[:pre["mu"]]]
        pub = published_update(pre, xs)
        # C^-1/2 y from two different eigen-decompositions (ours: fresh eigh; deap's: stored B, diagD) and the
        # published form evaluated in Float agree only to about eps * cond(C): widen the tolerance beyond 1e6
        condC = float(pre["diagD"][-1] / pre["diagD"][0]) ** 2
        otol = TOL * max(1.0, condC * 1e-6)
        # the published form builds C^-1/2 = B D^-1 B^T explicitly: in Float it agrees with numpy's
        # B (D^-1 (B^T c)) only to about eps * cond(C), so the `spec` line is sent while cond(C) <= 1e4
        if not pub["borderline"] and condC <= 1e4:
            lines.append("C13 spec %s %s %s" % (stoks, keys_tok, pop_tok))
            expect.append(" ".join([nvec(post["centroid"]), nvec(post["ps"]), fbits(pub["hsig"]), nvec(post["pc"]),
                                    nmat(post["C"]), fbits(post["sigma"])]))
        if not pub["borderline"]:
            for k, what in (("centroid", "centroid is not the weighted mean of the mu best individuals"),
                            ("ps", "evolution path p_sigma differs from the published equation"),
                            ("pc", "evolution path p_c differs from the published equation"),
                            ("C", "covariance matrix differs from the published rank-one + rank-mu update"),
                            ("sigma", "step size differs from the published update")):
                if not close(post[k], pub[k], otol):
                    fail("%s (max deviation %g, h_sigma=%g)" % (
                        what, float(numpy.max(numpy.abs(numpy.asarray(post[k]) - numpy.asarray(pub[k])))),
                        pub["hsig"]), g)
        e = check_consistency(st)
        if e:
            fail(e, g)
        if post["cond"] > COND_CUT or post["sigma"] > 1e100 or post["sigma"] < 1e-100:
            tags.append("stopped-illconditioned")
            break
        if orc is not None:
            break
    over = "user" if d.get("over") else "default"
    tag = "run/%s/%s/%s/%s%s" % (d.get("scheme") or "superlinear(default)", d["obj"], over, d.get("cm", "id"),
                                 "/ties" if ties_seen else "")
    if d.get("ctype", "float") in INT_CENTROIDS and d.get("cm") not in SCALED_CM:
        tag += "/int-centroid"
    for t in sorted(set(tags)):
        tag += "/" + t
    return Case(d, lines, expect, orc, tag=tag, tol=TOL_RUN)


# ----------------------------------------------------------------------------------------
# stream `alias`: several strategies, the caller keeps / shares / modifies / re-uses the objects he passed
# ----------------------------------------------------------------------------------------

CENT_KINDS = ("list", "tuple", "intlist", "f32", "i64", "f64")
CM_KINDS = ("f64", "int", "none")       # a nested list as cmatrix raises TypeError at the first update (see ASSUMPTIONS)
IND_KINDS = ("list", "ndarray", "view")


class ViewInd(numpy.ndarray):
    """an individual that is a VIEW of what `ind_init` is given: `generate` hands out the rows of one array, so all
    individuals of a generation share that array's memory"""
    def __new__(cls, a):
        return numpy.asarray(a).view(cls)

    def __array_finalize__(self, obj):
        self.fitness = getattr(obj, "fitness", None)


def alias_objects(d):
    """the caller's objects: (centroid object, cmatrix object or None, keyword dictionary)"""
    n = d["dim"]
    rs = numpy.random.RandomState(d["cseed"])
    kind = d["cent"]
    fl = rs.uniform(-3.0, 3.0, n)
    ints = [int(v) for v in rs.randint(-5, 6, n)]
    if kind == "list":
        cobj = [float(x) for x in fl]
    elif kind == "tuple":
        cobj = tuple(float(x) for x in fl)
    elif kind == "intlist":
        cobj = list(ints)
    elif kind == "f32":
        cobj = numpy.array(fl, dtype=numpy.float32)
    elif kind == "i64":
        cobj = numpy.array(ints, dtype=numpy.int64)
    elif kind == "f64":
        cobj = numpy.array(fl, dtype=numpy.float64)
    else:
        raise ValueError(kind)
    if d["cm"] == "f64":
        cm, _ = make_cmatrix(d.get("cmk", "spd1"), n, numpy.random.RandomState(d["cseed"] + 104729))
        cm = numpy.array(cm, dtype=numpy.float64)
    elif d["cm"] == "int":
        M = numpy.random.RandomState(d["cseed"] + 104729).randint(-1, 2, (n, n))
        cm = (M @ M.T + numpy.identity(n, dtype=numpy.int64)).astype(numpy.int64)     # SPD, eigenvalues >= 1
    elif d["cm"] == "none":
        cm = None
    else:
        raise ValueError(d["cm"])
    P = {"lambda_": d["lam"]}
    if d.get("mu") is not None:
        P["mu"] = d["mu"]
    if d.get("scheme") is not None:
        P["weights"] = d["scheme"]
    for k in RATES:
        if k in d.get("over", {}):
            P[k] = d["over"][k]
    if cm is not None:
        P["cmatrix"] = cm
    return cobj, cm, P


def _shadow(obj):
    """a value copy of a caller object, with everything that identifies its representation"""
    if isinstance(obj, numpy.ndarray):
        return ("nd", str(obj.dtype), obj.shape, obj.tobytes())
    if isinstance(obj, (list, tuple)):
        return (type(obj).__name__, tuple((type(x).__name__, repr(x)) for x in obj))
    if isinstance(obj, dict):
        return ("dict", tuple((k, id(v), _shadow(v)) for k, v in obj.items()))
    return (type(obj).__name__, repr(obj))


def snap_diff(a, b):
    """name of the first attribute in which two snapshots differ (bitwise), or None"""
    for k in sorted(a):
        x, y = a[k], b[k]
        if isinstance(x, numpy.ndarray) or isinstance(y, numpy.ndarray):
            x, y = numpy.asarray(x), numpy.asarray(y)
            if x.shape != y.shape or x.tobytes() != y.tobytes():
                return k
        elif x != y and not (x != x and y != y):
            return k
    return None


def eval_alias(d):
    n = d["dim"]
    cobj, cm, P = alias_objects(d)
    share = d.get("share", True)
    lines, expect, tags = [], [], []
    orc = None
    F = fit_class(tuple(d["fw"]))
    f = objective(d, n)
    Ind = {"list": ListInd, "ndarray": ArrInd, "view": ViewInd}[d["ind"]]
    strats, last = [], []
    gcount = [0]
    shadow = {}

    def fail(msg):
        nonlocal orc
        if orc is None:
            orc = msg

    def caller_objects():
        return (("centroid", cobj), ("cmatrix", cm), ("keyword dictionary", P))

    def remember():
        for name, o in caller_objects():
            shadow[name] = _shadow(o)

    def check_world(what, touched=()):
        """after the library did `what`: no strategy but the touched ones changed, no caller object changed"""
        for j, st in enumerate(strats):
            if j in touched:
                continue
            df = snap_diff(last[j], snapshot(st))
            if df is not None:
                fail("strategy #%d changed (attribute %s) although it was not updated: it happened during %s" % (j, df, what))
        for name, o in caller_objects():
            if _shadow(o) != shadow[name]:
                fail("the caller's %s object was modified by the library during %s" % (name, what))

    def cur_params():
        lam_mu = P.get("mu")
        return lam_mu, P.get("weights") or "superlinear", {k: P[k] for k in RATES if k in P}

    def over_tok(over):
        return " ".join(opt(over.get(k)) for k in RATES)

    def construct(sigma):
        """Strategy(centroid object, sigma, **keyword dictionary) from the caller's objects as they are NOW"""
        if share:
            c_arg, kw = cobj, dict(P)
        else:
            c_arg, kw = copy.deepcopy(cobj), copy.deepcopy(P)
        cvals = numpy.array([float(x) for x in cobj], dtype=float)
        cmvals = None if cm is None else numpy.array(cm, dtype=float)
        mu_u, scheme, over = cur_params()
        st = cma.Strategy(c_arg, sigma, **kw)
        k = len(strats)
        C0 = numpy.identity(n) if cmvals is None else cmvals
        w0, V0 = numpy.linalg.eigh(C0)
        i0 = numpy.argsort(w0)
        lines.append("C13 init %s %s %s %s %s %s %s %s %s %s" % (
            fv(cvals), fbits(sigma), str(P["lambda_"]), opt(mu_u, str), scheme, over_tok(over),
            "-" if cmvals is None else fm(cmvals), fv(w0), fm(V0), ",".join(str(int(i)) for i in i0)))
        expect.append(" ".join([str(st.dim), str(st.lambda_), fbits(st.chiN), nvec(st.pc), nvec(st.ps), nmat(st.C),
                                nvec(st.diagD), nmat(st.B), nmat(st.BD), fbits(st.cond), str(st.update_count), "1",
                                params_answer(st)]))
        lam = P["lambda_"]
        mu = mu_u if mu_u is not None else int(lam / 2)
        if st.lambda_ != lam:
            fail("strategy #%d: lambda_=%r, supplied %r" % (k, st.lambda_, lam))
        if st.dim != n or not close(st.centroid, cvals, 0) or st.sigma != sigma:
            fail("strategy #%d: initial centroid / sigma / dim are not the given ones" % k)
        if numpy.any(st.pc != 0) or numpy.any(st.ps != 0) or st.update_count != 0:
            fail("strategy #%d: evolution paths / update_count do not start at zero" % k)
        if not close(st.C, C0, 0):
            fail("strategy #%d: initial C is not the given cmatrix / identity (as the caller's object is now)" % k)
        e = check_params(st, n, lam, mu, scheme, over)
        if e:
            fail("strategy #%d: %s" % (k, e))
        e = check_consistency(st)
        if e:
            fail("strategy #%d after __init__: %s" % (k, e))
        strats.append(st)
        last.append(snapshot(st))
        check_world("the construction of strategy #%d" % k, touched=(k,))

    def sample(k):
        """generate + evaluate with strategy k; None when the history has to stop here"""
        st, pre = strats[k], last[k]
        g = gcount[0]
        gcount[0] += 1
        with tapemod.Tape(rng=random.Random(d["zseed"] * 1000 + g), numpy_too=True) as tp:
            pop = st.generate(Ind)
        draws = [x for x in tp.draws if x[0] == "np.standard_normal"]
        if len(draws) != 1 or draws[0][1] != [pre["lambda_"], n]:
            fail("TAPE: generate drew %r instead of one (lambda_, dim) standard-normal block" % (
                [(x[0], x[1]) for x in tp.draws],))
            return None
        arz = numpy.array(draws[0][2], dtype=float).reshape(pre["lambda_"], n)
        if len(pop) != pre["lambda_"]:
            fail("strategy #%d: generate returned %d individuals for lambda_=%d" % (k, len(pop), pre["lambda_"]))
            return None
        if any(type(x) is not Ind for x in pop):
            fail("strategy #%d: generate did not build the individuals with the given ind_init" % k)
        if any(len(x) != n for x in pop):
            fail("strategy #%d: generate returned an individual whose size is not the problem dimension" % k)
            return None
        want = pre["centroid"] + pre["sigma"] * (arz * pre["diagD"]) @ pre["B"].T
        got = numpy.array([[float(v) for v in x] for x in pop])
        if not close(got, want):
            fail("strategy #%d: generate: individuals differ from centroid + sigma B D z of its own state" % k)
        lines.append("C13 generate %d %d %s %s %s %s" % (n, pre["lambda_"], fv(pre["centroid"]), fbits(pre["sigma"]),
                                                        fm(pre["BD"]), fv(draws[0][2])))
        expect.append("%d %d %s" % (len(pop), 0, nmat(got)))
        check_world("generate of strategy #%d" % k)
        for x in pop:
            x.fitness = F(f(numpy.array([float(v) for v in x])))
        wv = [tuple(x.fitness.wvalues) for x in pop]
        if not all(all(math.isfinite(v) for v in t) for t in wv):
            return None
        return pop

    def do_update(k, pop):
        """strategy k is updated with `pop`; everything is demanded from ITS OWN state after its own last step.
        False = stop the history."""
        st, pre = strats[k], last[k]
        if pre["mu"] > len(pop):
            tags.append("skipped-mu>len")
            return True
        ids = [id(x) for x in pop]
        vals = numpy.array([[float(v) for v in x] for x in pop])
        wv = [tuple(x.fitness.wvalues) for x in pop]
        keys_tok, pop_tok = fm(wv), fm(vals)
        distinct = len(set(wv)) == len(wv)
        with numpy.errstate(all="ignore"):
            st.update(pop)
        post = snapshot(st)
        what = "update of strategy #%d" % k
        if sorted(ids) != sorted(id(x) for x in pop):
            fail("%s: the population list no longer holds the individuals that were passed" % what)
            return False
        byid = {id(x): x for x in pop}
        for i, ident in enumerate(ids):
            x = byid[ident]
            if [float(v) for v in x] != list(vals[i]) or tuple(x.fitness.wvalues) != wv[i]:
                fail("%s: an individual of the population (a caller object) was modified by the library" % what)
        if not (numpy.all(numpy.isfinite(post["C"])) and math.isfinite(post["sigma"])
                and numpy.all(numpy.isfinite(post["centroid"]))):
            # a population that was sampled by ANOTHER strategy can lie hundreds of this strategy's standard deviations
            # away: exp(|p_sigma| / chiN ...) overflows in the published equations themselves (outside `finite inputs`)
            order = sorted(range(len(wv)), key=lambda i: wv[i], reverse=True)
            try:
                with numpy.errstate(all="ignore"):
                    pub = published_update(pre, vals[order[:pre["mu"]]])
            except OverflowError:
                pub = None
            if distinct and pub is not None and numpy.all(numpy.isfinite(pub["C"])) and math.isfinite(pub["sigma"]) \
                    and numpy.all(numpy.isfinite(pub["centroid"])):
                fail("%s: non-finite state where the published equations give a finite one" % what)
            else:
                tags.append("overflow")
            return False
        w1, V1 = numpy.linalg.eigh(st.C)
        i1 = numpy.argsort(w1)
        e = check_eigh_contract(post["C"], w1, V1)
        if e:
            fail("%s: %s" % (what, e))
        if numpy.min(w1) <= 0:
            tags.append("indefinite")
            return False
        if post["count"] != pre["count"] + 1:
            fail("%s: update_count went from %d to %d" % (what, pre["count"], post["count"]))
        lines.append("C13 update %s %s %s %s %s %s" % (state_tokens(pre), keys_tok, pop_tok, fv(w1), fm(V1),
                                                      ",".join(str(int(i)) for i in i1)))
        expect.append(" ".join([nvec(post["centroid"]), nvec(post["ps"]), nvec(post["pc"]), nmat(post["C"]),
                                fbits(post["sigma"]), str(post["count"]), nvec(post["diagD"]), nmat(post["B"]),
                                nmat(post["BD"]), fbits(post["cond"]), "1"]))
        if distinct:
            order = sorted(range(len(wv)), key=lambda i: wv[i], reverse=True)
            pub = published_update(pre, vals[order[:pre["mu"]]])
            condC = float(pre["diagD"][-1] / pre["diagD"][0]) ** 2
            otol = TOL * max(1.0, condC * 1e-6)
            if not pub["borderline"]:
                for key, text in (("centroid", "centroid is not the weighted mean of the mu best individuals"),
                                  ("ps", "evolution path p_sigma differs from the published equation"),
                                  ("pc", "evolution path p_c differs from the published equation"),
                                  ("C", "covariance matrix differs from the published rank-one + rank-mu update"),
                                  ("sigma", "step size differs from the published update")):
                    if not close(post[key], pub[key], otol):
                        fail("%s, from its own state after its own last step: %s (max deviation %g)" % (
                            what, text, float(numpy.max(numpy.abs(numpy.asarray(post[key]) - numpy.asarray(pub[key]))))))
        e = check_consistency(st)
        if e:
            fail("%s: %s" % (what, e))
        for key in ("dim", "mu", "weights", "mueff", "cc", "cs", "ccov1", "ccovmu", "damps", "chiN", "lambda_"):
            if snap_diff({key: pre[key]}, {key: post[key]}) is not None:
                fail("%s changed the parameter %s" % (what, key))
        last[k] = post
        check_world(what, touched=(k,))
        return not (post["cond"] > COND_CUT or post["sigma"] > 1e100 or post["sigma"] < 1e-100)

    def recompute(k, newlam):
        """strategy.lambda_ = newlam; strategy.computeParams(the caller's keyword dictionary as it is NOW)"""
        st, pre = strats[k], last[k]
        old = st.lambda_
        lam = old if newlam is None else newlam
        mu_u, scheme, over = cur_params()
        mu = mu_u if mu_u is not None else int(lam / 2)
        if not (1 <= mu <= lam):
            tags.append("skipped-mu>lambda")
            return
        st.lambda_ = lam
        st.computeParams(P)
        lines.append("C13 relambda %d %d %d %s %s %s" % (n, old, lam, opt(mu_u, str), scheme, over_tok(over)))
        expect.append("%s %s" % (st.lambda_, params_answer(st)))
        what = "`lambda_ = %d; computeParams(params)` on strategy #%d" % (lam, k)
        if st.lambda_ != lam:
            fail("after %s its lambda_ is %r" % (what, st.lambda_))
        e = check_params(st, n, lam, mu, scheme, over)
        if e:
            fail("after %s: %s" % (what, e))
        post = snapshot(st)
        for key in ("centroid", "sigma", "pc", "ps", "C", "B", "diagD", "BD", "count", "chiN", "dim"):
            if snap_diff({key: pre[key]}, {key: post[key]}) is not None:
                fail("%s changed the search distribution (%s)" % (what, key))
        last[k] = post
        check_world(what, touched=(k,))
        tags.append("recompute")

    def poke(what, j):
        """the caller modifies HIS object; strategies must not notice"""
        nonlocal cobj, cm
        rs = numpy.random.RandomState(d["cseed"] + 31 * j + 5)
        if what == "centroid":
            if isinstance(cobj, tuple):
                return
            for i in range(n):
                if d["cent"] in ("intlist", "i64"):
                    cobj[i] = int(cobj[i]) + int(rs.randint(-3, 4))
                else:
                    cobj[i] = float(cobj[i]) + float(rs.uniform(-1.0, 1.0))
        elif what == "cmatrix":
            # F40 (fixed): `Strategy.__init__` kept the caller's array (`self.C is cmatrix` until the first update), so a
            # caller write before a strategy's first update changed that strategy; the write is now made at any time
            if cm is None:
                tags.append("skipped-poke")
                return
            cm *= 2
            cm[numpy.arange(n), numpy.arange(n)] += 1            # still symmetric positive definite
        elif what == "params":
            lo = min([s["lambda_"] for s in last] + [P["lambda_"]])
            r = int(rs.randint(0, 3))
            if r == 0:
                P["mu"] = int(rs.randint(1, lo + 1))
            elif r == 1:
                P.pop("mu", None)
            P["weights"] = SCHEMES[int(rs.randint(0, 3))]
            if rs.uniform() < 0.5:
                P["ccov1"] = float(rs.uniform(0.0, 0.3))
            if rs.uniform() < 0.5:
                P["cs"] = float(rs.uniform(0.1, 0.8))
            mu_now = P.get("mu")
            if mu_now is not None and mu_now > P["lambda_"]:
                P["lambda_"] = mu_now
        else:
            raise ValueError(what)
        remember()
        for jj, st in enumerate(strats):
            df = snap_diff(last[jj], snapshot(st))
            if df is not None:
                fail("strategy #%d changed (attribute %s) when the caller modified his own %s object after the "
                     "strategies had been built and updated" % (jj, df, what))
        tags.append("poke-" + what)

    remember()
    for j, op in enumerate(d["ops"]):
        kind = op[0]
        if kind == "new":
            construct(float(op[1]))
        elif kind in ("upd", "upd2"):
            if op[1] >= len(strats) or (kind == "upd2" and op[2] >= len(strats)):
                continue
            pop = sample(op[1])
            if pop is None:
                break
            if not do_update(op[1], pop):
                tags.append("stopped")
                break
            if kind == "upd2":                       # the SAME list and individuals go to a second strategy
                tags.append("reused-population")
                if not do_update(op[2], pop):
                    tags.append("stopped")
                    break
        elif kind == "recomp":
            if op[1] < len(strats):
                recompute(op[1], op[2])
        elif kind == "poke":
            poke(op[1], j)
        else:
            raise ValueError("unknown op %r" % (op,))
        if orc is not None:
            break
    tag = "alias/%s/%s/%s/%s" % (d["cent"], d["cm"], d["ind"], "shared" if share else "own-copies")
    for t in sorted(set(tags)):
        tag += "/" + t
    return Case(d, lines, expect, orc, tag=tag, tol=TOL_RUN, nontrivial=len(strats) >= 2)


def rand_alias(rng, maxdim=5, nops=None):
    n = rng.randint(2, maxdim)
    lam = rng.randint(4, 4 + n)
    d = {"k": "alias", "dim": n, "lam": lam,
         "mu": rng.choice([None, None, rng.randint(1, 4)]),
         "scheme": rng.choice([None, "superlinear", "linear", "equal"]),
         "over": rand_over(rng, n, clip=False) if rng.random() < 0.3 else {},
         "cent": rng.choice(CENT_KINDS), "cm": rng.choice(["f64", "f64", "f64", "int", "none"]),
         "cmk": rng.choice(["diag", "spd1", "spd1", "spd3"]),
         "ind": rng.choice(IND_KINDS), "share": rng.random() < 0.85,
         "cseed": rng.randrange(1 << 30), "zseed": rng.randrange(1 << 30),
         "obj": rng.choice(["sphere", "rosenbrock", "linear", "ellipsoid"]),
         "fw": rng.choice([[-1.0], [-1.0], [1.0]])}
    ns = rng.choice([2, 2, 3])
    sig = lambda: rng.choice([1.0, 0.5, 2.0, round(10.0 ** rng.uniform(-1, 0.5), 4)])
    ops = [["new", sig()] for _ in range(ns)]
    fresh = set(range(ns))
    for _ in range(nops if nops is not None else rng.randint(6, 12)):
        r = rng.random()
        if r < 0.55:
            k = rng.randrange(ns)
            if fresh:                                  # strategies that were not updated yet come first
                k = min(fresh)
            if rng.random() < 0.2 and ns > 1:
                j = rng.choice([x for x in range(ns) if x != k])
                ops.append(["upd2", k, j])
                fresh.discard(j)
            else:
                ops.append(["upd", k])
            fresh.discard(k)
        elif r < 0.7:
            what = rng.choice(["centroid", "cmatrix", "params"])
            if what == "cmatrix" and fresh:
                what = "centroid"
            ops.append(["poke", what])
        elif r < 0.82 and ns < 4:
            ops.append(["new", sig()])                 # restart / further start from the same objects
            fresh.add(ns)
            ns += 1
        else:
            ops.append(["recomp", rng.randrange(ns), rng.choice([None, rng.randint(4, 4 + 2 * n)])])
    for k in sorted(fresh):
        ops.append(["upd", k])
    d["ops"] = ops
    return d


def alias_structured(rng):
    """fixed skeletons (the same for every seed), random numbers inside"""
    rr = ["upd", 0], ["upd", 1], ["upd", 2]
    skeletons = [
        # three starts from ONE covariance object, interleaved (multi-start / islands)
        dict(cent="f64", cm="f64", ind="list", ops=[["new", 0.5], ["new", 1.0], ["new", 2.0]] + list(rr) + list(rr)
             + [["poke", "cmatrix"], ["poke", "centroid"], ["upd", 1], ["new", 1.0], ["upd", 3], ["upd", 0]]),
        # one strategy runs, then a second one is built from the same objects (restart) while the first lives on
        dict(cent="list", cm="f64", ind="ndarray", ops=[["new", 1.0], ["upd", 0], ["upd", 0], ["new", 1.0], ["upd", 1],
                                                      ["upd", 0], ["upd", 1], ["poke", "centroid"], ["new", 0.5],
                                                      ["upd", 2], ["upd", 0]]),
        dict(cent="i64", cm="int", ind="list", ops=[["new", 1.0], ["new", 2.0], ["upd", 0], ["upd", 1], ["upd", 0],
                                                   ["poke", "cmatrix"], ["poke", "centroid"], ["upd", 1], ["new", 1.0],
                                                   ["upd", 2]]),
        dict(cent="f32", cm="none", ind="view", ops=[["new", 1.0], ["new", 0.5], ["upd2", 0, 1], ["upd", 1],
                                                     ["poke", "centroid"], ["upd2", 1, 0], ["upd", 0]]),
        # the keyword dictionary is shared: the caller edits it, re-parameterises ONE strategy, the other keeps its own
        dict(cent="tuple", cm="f64", ind="list", ops=[["new", 1.0], ["new", 1.0], ["upd", 0], ["upd", 1],
                                                     ["poke", "params"], ["recomp", 0, 9], ["upd", 0], ["upd", 1],
                                                     ["recomp", 1, None], ["upd", 1], ["upd", 0], ["new", 1.0],
                                                     ["upd", 2]]),
        dict(cent="intlist", cm="f64", ind="view", ops=[["new", 2.0], ["new", 0.5], ["upd", 0], ["upd", 1],
                                                       ["recomp", 1, 12], ["upd", 1], ["upd", 0], ["poke", "cmatrix"],
                                                       ["upd", 0], ["upd", 1]]),
        # F40: the caller re-uses HIS covariance array right after constructing a strategy, before its first update
        dict(cent="f64", cm="f64", ind="list", ops=[["new", 1.0], ["poke", "cmatrix"], ["upd", 0], ["new", 0.5],
                                                   ["poke", "cmatrix"], ["upd", 1], ["upd", 0]]),
        dict(cent="list", cm="int", ind="ndarray", ops=[["new", 1.0], ["new", 2.0], ["upd", 0], ["poke", "cmatrix"],
                                                       ["upd", 1], ["upd", 0]]),
    ]
    for sk in skeletons:
        d = rand_alias(rng, nops=0)
        d.update(sk)
        d["share"] = True
        d["mu"] = None if d["mu"] is None else min(d["mu"], 4)
        yield d
    # control: every strategy gets its own copies of the objects
    d = rand_alias(rng, nops=0)
    d.update(skeletons[0])
    d["share"] = False
    yield d


def evaluate(d):
    if d["k"] == "params":
        return eval_params(d)
    if d["k"] == "sort":
        return eval_sort(d)
    if d["k"] == "run":
        return eval_run(d)
    if d["k"] == "alias":
        return eval_alias(d)
    raise ValueError("unknown case kind %r" % (d,))


# ----------------------------------------------------------------------------------------
# generator
# ----------------------------------------------------------------------------------------

def rand_over(rng, n, p=0.5, clip=True):
    """user-supplied learning rates inside their meaningful ranges.  clip=True also draws ccovmu > 1 - ccov1
    (the `min` of cma.py:205 acts; only for the parameter stream: with ccov1 + ccovmu = 1 the old C is
    forgotten completely and the new C has rank <= mu + 1, i.e. is singular for mu + 1 < N)."""
    o = {}
    if rng.random() < p:
        o["cs"] = rng.uniform(0.05, 0.9)
    if rng.random() < p:
        o["damps"] = rng.uniform(0.5, 4.0)
    if rng.random() < p:
        o["ccum"] = rng.uniform(0.05, 0.95)
    if rng.random() < p:
        o["ccov1"] = rng.uniform(0.0, 0.4)
    if rng.random() < p:
        o["ccovmu"] = rng.choice([rng.uniform(0.0, 0.5), rng.uniform(0.5, 1.5)]) if clip else rng.uniform(0.0, 0.5)
    return o


def rand_run(rng, maxdim, long_ok=True):
    n = rng.randint(2, maxdim)
    d = {"k": "run", "dim": n}
    r = rng.random()
    if r < 0.25:
        d["lam"] = None
    else:
        d["lam"] = rng.randint(4, 4 + 2 * n if rng.random() < 0.8 else 30)
    lam = d["lam"] if d["lam"] is not None else int(4 + 3 * math.log(n))
    r = rng.random()
    if r < 0.4:
        d["mu"] = None
    elif r < 0.55:
        d["mu"] = lam
    elif r < 0.65:
        d["mu"] = 1
    else:
        d["mu"] = rng.randint(1, lam)
    d["scheme"] = rng.choice([None, "superlinear", "linear", "equal", "linear", "equal"])
    d["over"] = rand_over(rng, n, clip=False) if rng.random() < 0.45 else {}
    d["cseed"] = rng.randrange(1 << 30)
    d["zseed"] = rng.randrange(1 << 30)
    d["sigma"] = rng.choice([1.0, 0.5, 2.0, round(10.0 ** rng.uniform(-2, 1), 6)])
    d["cscale"] = rng.choice([3.0, 0.5, 10.0])
    d["cm"] = rng.choice(["id", "id", "diag", "spd1", "spd3", "spd5", "tinydiag", "tinyspd", "hugediag", "hugespd"])
    d["ctype"] = rng.choice(["float", "float", "float", "mixed"] + list(INT_CENTROIDS))
    d["obj"] = rng.choice(["sphere", "sphere", "rosenbrock", "rosenbrock", "linear", "linear", "ellipsoid",
                           "step", "const", "two"])
    if d["obj"] == "two":
        d["fw"] = rng.choice([[-1.0, -1.0], [-1.0, 1.0], [-0.5, -2.0]])
    else:
        d["fw"] = rng.choice([[-1.0], [-1.0], [1.0], [-2.5], [0.5]])
    d["ind"] = rng.choice(["list", "ndarray"])
    r = rng.random()
    d["ngen"] = rng.randint(1, 4) if r < 0.55 else (rng.randint(5, 15) if r < 0.9 or not long_ok else rng.randint(16, 50))
    d["perm"] = rng.random() < 0.7
    # re-parameterisation in the middle of the run: lambda_ changed (or not) + computeParams(params) re-called
    r = rng.random()
    if r < 0.3:
        lo = max(4, d["mu"] or 0)
        newlam = rng.choice([None, rng.randint(lo, lo + 2 * n), rng.randint(lo, lo + 2 * n)])
        d["relam"] = [rng.randrange(d["ngen"]), newlam]
    else:
        d["relam"] = None
    return d


N_RUNS = {"quick": 1800, "thorough": 6000}
N_PARAMS = {"quick": 150, "thorough": 1500}
N_SORT = {"quick": 60, "thorough": 600}
N_ALIAS = {"quick": 40, "thorough": 400}


def generate(tier, rng, mult):
    """The case list is a function of (tier, seed, mult) only — fixed counts, never cut by the clock in normal
    operation (TIME_BUDGET is several times the measured need; a truncated run prints TRUNCATED and is an
    infrastructure error below MIN_CASES).  Streams that carry whole clauses of the property come first."""
    thorough = tier == "thorough"
    maxdim = 20 if thorough else 8            # quick explores dimensions 2..8 only; 9..20 are thorough-only
    # -- several strategies / shared, re-used and caller-modified parameter objects (clause-carrying, small) ----
    for d in alias_structured(rng):
        yield d
    for _ in range(N_ALIAS[tier] * mult):
        yield rand_alias(rng, maxdim=8 if thorough else 5)
    # -- histories: one of every (scheme, objective) first ------------------------------------
    for scheme in SCHEMES:
        for obj in ("sphere", "rosenbrock", "linear", "step"):
            d = rand_run(rng, maxdim, long_ok=False)
            d["scheme"], d["obj"], d["fw"] = scheme, obj, [-1.0]
            yield d
    d = rand_run(rng, maxdim)
    d.update({"ngen": 50, "obj": "sphere", "fw": [-1.0], "dim": 5, "lam": None, "mu": None, "over": {}, "cm": "id"})
    yield d                                                   # the unit test's configuration, 50 generations
    d = rand_run(rng, maxdim)
    d.update({"ngen": 50, "obj": "linear", "fw": [-1.0], "cm": "spd3"})
    yield d
    # lambda_ changed during the run, then computeParams(params) as documented (and a plain re-call)
    for k in range(5):
        d = rand_run(rng, maxdim, long_ok=False)
        lo = max(4, d["mu"] or 0)
        d.update({"ngen": max(d["ngen"], 3), "obj": rng.choice(["sphere", "rosenbrock", "linear"]), "fw": [-1.0],
                  "relam": [k % 3, None if k == 4 else rng.randint(lo, lo + 12)]})
        if k < 2:
            d.update({"lam": None if k == 0 else d["lam"], "mu": None})
            d["relam"][1] = rng.randint(9, 20)
        yield d
    # start point given with integer coordinates only (numpy.array() of it is an integer array)
    for ctype in INT_CENTROIDS + ("mixed",):
        d = rand_run(rng, maxdim, long_ok=False)
        d.update({"ctype": ctype, "cm": rng.choice(["id", "diag", "spd1"]), "obj": rng.choice(["sphere", "rosenbrock", "linear"]),
                  "fw": [-1.0]})
        yield d
    # the scale of the search space carried by cmatrix (variances 1e-30..1e-16 / 1e8..1e20) instead of sigma
    for cmk in SCALED_CM + SCALED_CM:
        d = rand_run(rng, maxdim, long_ok=False)
        d.update({"cm": cmk, "ctype": "float", "obj": rng.choice(["sphere", "rosenbrock", "linear", "ellipsoid"]),
                  "fw": [-1.0], "sigma": rng.choice([1.0, 2.0, 0.5])})
        yield d
    # user-supplied learning rates that are exactly zero (boundary of the range: rank-one-only / rank-mu-only /
    # no covariance adaptation), as float and as int
    for over in ({"ccovmu": 0.0}, {"ccov1": 0.0}, {"ccov1": 0.0, "ccovmu": 0.0}, {"ccum": 0.0}, {"ccov1": 0, "ccovmu": 0}):
        d = rand_run(rng, maxdim, long_ok=False)
        d.update({"over": dict(over), "obj": rng.choice(["sphere", "rosenbrock", "linear"]), "fw": [-1.0],
                  "cm": rng.choice(["id", "spd1"]), "ctype": "float"})
        yield d
    # outside the guard 0 < cs < 2 (flagged `degenerate-cs`, model comparison only)
    for cs in (0.0, 2.0, 0.0, 2.0):
        d = rand_run(rng, maxdim, long_ok=False)
        d["over"] = dict(d.get("over") or {}, cs=cs)
        d["ngen"] = min(d["ngen"], 3)
        yield d
    # -- random histories (fixed count; the protocol volume cap is a deterministic safety net: all lines are
    #    held in memory and piped to the driver at once, about 22 bytes per float token) -------
    cap = 1500e6 * mult
    vol = 0.0
    for _ in range(N_RUNS[tier] * mult):
        d = rand_run(rng, maxdim)
        n = d["dim"]
        lam = d["lam"] if d["lam"] is not None else int(4 + 3 * math.log(n))
        vol += 22.0 * d["ngen"] * (6 * n * n + 3 * lam * n + 10 * n)
        if vol > cap:
            break
        yield d
    # -- computeParams: structured sweep, then random user-supplied rates ---------------------
    dims = range(2, maxdim + 1) if not thorough else list(range(2, 13)) + [16, 20]
    for n in dims:
        for lam in ((4, 5, 6, 7, 9, 12, 14) if not thorough else range(4, 31)):
            for mu in [None] + sorted(set([1, max(1, lam // 3), lam])):
                for scheme in SCHEMES:
                    yield {"k": "params", "dim": n, "lam": lam, "mu": mu, "scheme": scheme, "over": {}}
    for scheme in ("cubic", "", "Linear"):
        yield {"k": "params", "dim": 3, "lam": 6, "mu": None, "scheme": scheme, "over": {}}
    for k in ("ccov1", "ccovmu", "ccum"):                     # exactly-zero user rates, float and int
        for z in (0.0, 0):
            for scheme in SCHEMES:
                yield {"k": "params", "dim": rng.randint(2, maxdim), "lam": rng.randint(4, 14), "mu": None,
                       "scheme": scheme, "over": {k: z}}
    for _ in range(N_PARAMS[tier] * mult):
        n = rng.randint(2, maxdim)
        lam = rng.randint(4, 40)
        yield {"k": "params", "dim": n, "lam": lam, "mu": rng.choice([None, rng.randint(1, lam)]),
               "scheme": rng.choice(SCHEMES), "over": rand_over(rng, n, 0.6)}
    # -- sort --------------------------------------------------------------------------------
    for _ in range(N_SORT[tier] * mult):
        m = rng.randint(0, 9)
        two = rng.random() < 0.4
        keys = [[float(rng.randint(0, 3))] + ([float(rng.randint(0, 2))] if two else []) for _ in range(m)]
        yield {"k": "sort", "keys": keys, "fw": rng.choice([[-1.0, 1.0], [1.0, 1.0]]) if two else rng.choice([[-1.0], [1.0], [2.0]])}


# ----------------------------------------------------------------------------------------
# shrinking / classification
# ----------------------------------------------------------------------------------------

def _valid_run(d):
    """mu <= lambda at every point of the history (otherwise numpy.dot raises on the unmodified code too)"""
    lam = d["lam"] if d.get("lam") is not None else int(4 + 3 * math.log(d["dim"]))
    mu = d.get("mu")
    if mu is not None and not (1 <= mu <= lam):
        return False
    r = d.get("relam")
    if r and r[1] is not None and mu is not None and mu > r[1]:
        return False
    if r and r[0] >= d["ngen"]:
        return False
    return lam >= 2


def shrink(d):
    for c in _shrink(d):
        if c.get("k") != "run" or _valid_run(c):
            yield c


def _shrink(d):
    if d.get("k") == "alias":
        ops = d["ops"]
        for i in range(len(ops) - 1, -1, -1):
            if ops[i][0] != "new":
                yield dict(d, ops=ops[:i] + ops[i + 1:])
        news = [i for i, o in enumerate(ops) if o[0] == "new"]
        if len(news) > 1:                     # drop the last strategy and every step addressed to it
            k = len(news) - 1
            yield dict(d, ops=[o for i, o in enumerate(ops) if i != news[-1]
                               and not (o[0] in ("upd", "recomp") and o[1] == k)
                               and not (o[0] == "upd2" and k in (o[1], o[2]))])
        for key, simple in (("cent", "list"), ("cm", "none"), ("ind", "list"), ("obj", "sphere"), ("scheme", None),
                            ("mu", None)):
            if d.get(key) != simple:
                yield dict(d, **{key: simple})
        if d.get("over"):
            yield dict(d, over={})
        if d["dim"] > 2:
            yield dict(d, dim=2)
        return
    if d.get("k") != "run":
        if d.get("k") == "sort" and d["keys"]:
            for i in range(len(d["keys"])):
                yield dict(d, keys=d["keys"][:i] + d["keys"][i + 1:])
        if d.get("k") == "params" and d.get("over"):
            for k in list(d["over"]):
                yield dict(d, over={a: b for a, b in d["over"].items() if a != k})
        return
    def cut(d, k):
        r = d.get("relam")
        return dict(d, ngen=k, relam=(r if (r and r[0] < k) else None))
    if d["ngen"] > 1:
        yield cut(d, 1)
        yield cut(d, d["ngen"] // 2)
        yield cut(d, d["ngen"] - 1)
    if d.get("over"):
        yield dict(d, over={})
        for k in list(d["over"]):
            yield dict(d, over={a: b for a, b in d["over"].items() if a != k})
    if d.get("cm", "id") != "id":
        yield dict(d, cm="id")
    if d.get("ctype", "float") != "float":
        yield dict(d, ctype="float")
    if d["obj"] != "sphere":
        yield dict(d, obj="sphere", fw=[-1.0])
    if d.get("perm"):
        yield dict(d, perm=False)
    if d.get("relam"):
        yield dict(d, relam=None)
        if d["relam"][0] > 0:
            yield dict(d, relam=[0, d["relam"][1]], ngen=max(1, d["ngen"] - d["relam"][0]))
    if d["dim"] > 2:
        yield dict(d, dim=2)
        yield dict(d, dim=d["dim"] - 1)
    if d.get("lam") is not None and d["lam"] > 4:
        yield dict(d, lam=4, mu=None if d.get("mu") is None else min(d["mu"], 4))
    if d.get("mu") is not None:
        yield dict(d, mu=None)
    if d.get("scheme") is not None:
        yield dict(d, scheme=None)
    if d["sigma"] != 1.0:
        yield dict(d, sigma=1.0)
    if d.get("ind") != "list":
        yield dict(d, ind="list")


def classify(desc, msg, known):
    return None
