"""Algorithm families for C17 (reproducible / resumable / map-schedule independent runs).

Importable by the check and by every child process (fresh interpreter, killed worker, resuming process, pool
workers).  DEAP is imported from $DEAP_REPO (inserted first in sys.path).

Every family is an explicit generation loop built from the library's operators:
    init(seed)            seeds BOTH generators, builds the initial state (generation 0 evaluated)
    step(state, mapper)   one more generation, evaluations go through `mapper` (the toolbox's map)
`state` is a dict holding *everything the loop owns*: population, archive / hall of fame, logbook, strategy,
selector memory, generation counter.  The two generator states are added by `checkpoint`.

Command line (child processes):
    run      <family> <seed> <ngen>                       -> prints the trace of fingerprints (JSON)
    crash    <family> <seed> <g> <dir> <protocols,...>    -> runs to generation g, writes one checkpoint file per
                                                             protocol, prints READY and waits to be killed
    resume   <family> <file> <ngen>                        -> restores, continues to ngen, prints the trace
"""
import functools
import hashlib
import json
import math
import operator
import os
import pickle
import random
import sys
import time
import warnings

_REPO = os.environ.get("DEAP_REPO", "/repo")
if _REPO not in sys.path:
    sys.path.insert(0, _REPO)

import numpy  # noqa: E402

from deap import algorithms, base, benchmarks, cma, creator, gp, tools  # noqa: E402

warnings.simplefilter("ignore", RuntimeWarning)

# ----------------------------------------------------------------------------------------------------
# classes (module level: created once per interpreter, found again by unpickling)
# ----------------------------------------------------------------------------------------------------


def _create(name, *a, **k):
    if not hasattr(creator, name):
        creator.create(name, *a, **k)
    return getattr(creator, name)


FitMax = _create("C17FitMax", base.Fitness, weights=(1.0,))
FitMin = _create("C17FitMin", base.Fitness, weights=(-1.0,))
FitMin2 = _create("C17FitMin2", base.Fitness, weights=(-1.0, -1.0))
FitMin3 = _create("C17FitMin3", base.Fitness, weights=(-1.0, -1.0, -1.0))
IndBits = _create("C17IndBits", list, fitness=FitMax)
IndMO = _create("C17IndMO", list, fitness=FitMin2)
IndMO3 = _create("C17IndMO3", list, fitness=FitMin3)
IndTree = _create("C17IndTree", gp.PrimitiveTree, fitness=FitMin)
import array as _array  # noqa: E402
IndCMA = _create("C17IndCMA", _array.array, typecode="d", fitness=FitMin)      # array-based individual
IndCMA2 = _create("C17IndCMA2", list, fitness=FitMin2)
IndTyped = _create("C17IndTyped", gp.PrimitiveTree, fitness=FitMin)
IndNP32 = _create("C17IndNP32", numpy.ndarray, fitness=FitMin)                 # float32 numpy individual

# ----------------------------------------------------------------------------------------------------
# evaluation functions (module level: picklable for process pools); all pure
# ----------------------------------------------------------------------------------------------------


def eval_onemax(ind):
    return (float(sum(ind)) + 0.125 * ind[0],)


def eval_zdt1(ind):
    return benchmarks.zdt1(ind)


def eval_dtlz2(ind):
    return benchmarks.dtlz2(ind, 3)


def eval_sphere(ind):
    return benchmarks.sphere(ind)


def eval_np_sphere(ind):
    """Computed in the individual's own element type (float32 arithmetic for a float32 individual)."""
    return (float((ind * ind).sum() + ind[0] * numpy.float32(0.1)),)


def eph_int():
    return random.randint(-2, 2)


def eph_unit():
    return random.random()


def protected_div(a, b):
    return a / b if b != 0 else 1.0


def _make_pset():
    ps = gp.PrimitiveSet("C17MAIN", 1)
    ps.addPrimitive(operator.add, 2)
    ps.addPrimitive(operator.sub, 2)
    ps.addPrimitive(operator.mul, 2)
    ps.addPrimitive(protected_div, 2)
    ps.addPrimitive(operator.neg, 1)
    ps.addEphemeralConstant("c17_eph_int", eph_int)
    ps.addEphemeralConstant("c17_eph_unit", eph_unit)
    ps.renameArguments(ARG0="x")
    return ps


PSET = _make_pset()
GP_POINTS = [x / 4.0 for x in range(-4, 5)]


def eval_symbreg(ind):
    f = gp.compile(ind, PSET)
    err = 0.0
    for x in GP_POINTS:
        try:
            y = f(x)
            d = y - (x ** 3 + x ** 2 + x)
            err += d * d
        except (OverflowError, ZeroDivisionError, ValueError):
            err += 1e6
    if err != err or err > 1e12:
        err = 1e12
    return (err / len(GP_POINTS),)


# ----------------------------------------------------------------------------------------------------
# helpers
# ----------------------------------------------------------------------------------------------------

def make_stats():
    st = tools.Statistics(lambda ind: ind.fitness.values)
    st.register("avg", numpy.mean, axis=0)
    st.register("min", numpy.min, axis=0)
    st.register("max", numpy.max, axis=0)
    return st


def evaluate_invalid(pop, evaluate, mapper):
    invalid = [ind for ind in pop if not ind.fitness.valid]
    fits = mapper(evaluate, invalid)
    for ind, fit in zip(invalid, fits):           # results consumed in submission order
        ind.fitness.values = fit
    return len(invalid)


def seed_all(seed):
    random.seed(seed)
    numpy.random.seed(seed % (2 ** 32))


class Family(object):
    name = None
    ngen_quick = 4
    ngen_thorough = 6

    def __init__(self, small=False):
        self.small = small
        self.toolbox = base.Toolbox()
        self.stats = make_stats()
        if small:                      # tiny populations: every completion order of a map call is enumerable
            for k, v in self.SMALL.items():
                setattr(self, k, v)
        self.setup()

    SMALL = {}

    def setup(self):
        pass

    def init(self, seed, mapper=map):
        raise NotImplementedError

    def step(self, st, mapper=map):
        raise NotImplementedError

    def record(self, st, pop, nevals):
        st["logbook"].record(gen=st["gen"], nevals=nevals, **self.stats.compile(pop))


# ---- 1. GA on lists (eaSimple written out) ---------------------------------------------------------

class GAList(Family):
    name = "ga_list"
    N, MU, CXPB, MUTPB = 12, 10, 0.6, 0.4
    SMALL = {"MU": 4}

    def setup(self):
        tb = self.toolbox
        tb.register("attr", random.randint, 0, 1)
        tb.register("individual", tools.initRepeat, IndBits, tb.attr, self.N)
        tb.register("population", tools.initRepeat, list, tb.individual)
        tb.register("evaluate", eval_onemax)
        tb.register("mate", tools.cxTwoPoint)
        tb.register("mutate", tools.mutFlipBit, indpb=0.1)
        tb.register("select", tools.selTournament, tournsize=3)

    def init(self, seed, mapper=map):
        seed_all(seed)
        pop = self.toolbox.population(n=self.MU)
        st = {"gen": 0, "population": pop, "halloffame": tools.HallOfFame(3), "logbook": tools.Logbook()}
        n = evaluate_invalid(pop, self.toolbox.evaluate, mapper)
        st["halloffame"].update(pop)
        self.record(st, pop, n)
        return st

    def step(self, st, mapper=map):
        tb = self.toolbox
        st["gen"] += 1
        off = tb.select(st["population"], len(st["population"]))
        off = algorithms.varAnd(off, tb, self.CXPB, self.MUTPB)
        n = evaluate_invalid(off, tb.evaluate, mapper)
        st["halloffame"].update(off)
        st["population"][:] = off
        self.record(st, off, n)
        return st


# ---- 2. NSGA-II ------------------------------------------------------------------------------------

class NSGA2(Family):
    name = "nsga2"
    N, MU = 6, 16
    NGEN = 10          # long enough that truncated fronts and crowding-distance tie-breaks matter at a resume
    SMALL = {"MU": 4}

    def setup(self):
        tb = self.toolbox
        tb.register("attr", random.random)
        tb.register("individual", tools.initRepeat, IndMO, tb.attr, self.N)
        tb.register("population", tools.initRepeat, list, tb.individual)
        tb.register("evaluate", eval_zdt1)
        tb.register("mate", tools.cxSimulatedBinaryBounded, low=0.0, up=1.0, eta=20.0)
        tb.register("mutate", tools.mutPolynomialBounded, low=0.0, up=1.0, eta=20.0, indpb=1.0 / self.N)
        tb.register("select", tools.selNSGA2)

    def init(self, seed, mapper=map):
        seed_all(seed)
        pop = self.toolbox.population(n=self.MU)
        st = {"gen": 0, "population": pop, "archive": tools.ParetoFront(), "logbook": tools.Logbook()}
        n = evaluate_invalid(pop, self.toolbox.evaluate, mapper)
        st["population"] = self.toolbox.select(pop, len(pop))      # assigns crowding distances
        st["archive"].update(pop)
        self.record(st, pop, n)
        return st

    def step(self, st, mapper=map):
        tb = self.toolbox
        st["gen"] += 1
        pop = st["population"]
        off = tools.selTournamentDCD(pop, len(pop))
        off = [tb.clone(ind) for ind in off]
        for a, b in zip(off[::2], off[1::2]):
            if random.random() <= 0.9:
                tb.mate(a, b)
            tb.mutate(a)
            tb.mutate(b)
            del a.fitness.values, b.fitness.values
        n = evaluate_invalid(off, tb.evaluate, mapper)
        st["population"] = tb.select(pop + off, self.MU)
        st["archive"].update(st["population"])
        self.record(st, st["population"], n)
        return st


# ---- 3. SPEA2 --------------------------------------------------------------------------------------

class SPEA2(Family):
    name = "spea2"
    N, MU, NBAR = 5, 12, 8
    SMALL = {"MU": 4, "NBAR": 3}

    def setup(self):
        tb = self.toolbox
        tb.register("attr", random.random)
        tb.register("individual", tools.initRepeat, IndMO, tb.attr, self.N)
        tb.register("population", tools.initRepeat, list, tb.individual)
        tb.register("evaluate", eval_zdt1)
        tb.register("mate", tools.cxSimulatedBinaryBounded, low=0.0, up=1.0, eta=15.0)
        tb.register("mutate", tools.mutPolynomialBounded, low=0.0, up=1.0, eta=15.0, indpb=0.3)
        tb.register("select", tools.selSPEA2)
        tb.register("selectTournament", tools.selTournament, tournsize=2)

    def init(self, seed, mapper=map):
        seed_all(seed)
        pop = self.toolbox.population(n=self.MU)
        st = {"gen": 0, "population": pop, "archive": [], "logbook": tools.Logbook()}
        n = evaluate_invalid(pop, self.toolbox.evaluate, mapper)
        st["archive"] = self.toolbox.select(pop, self.NBAR)
        self.record(st, pop, n)
        return st

    def step(self, st, mapper=map):
        tb = self.toolbox
        st["gen"] += 1
        mating = tb.selectTournament(st["archive"], self.MU)
        off = [tb.clone(ind) for ind in mating]
        for a, b in zip(off[::2], off[1::2]):
            if random.random() < 0.8:
                tb.mate(a, b)
                del a.fitness.values, b.fitness.values
        for m in off:
            if random.random() < 0.5:
                tb.mutate(m)
                del m.fitness.values
        n = evaluate_invalid(off, tb.evaluate, mapper)
        st["population"] = off
        st["archive"] = tb.select(off + st["archive"], self.NBAR)
        self.record(st, st["archive"], n)
        return st


# ---- 4. NSGA-III with memory -----------------------------------------------------------------------

class NSGA3Mem(Family):
    name = "nsga3_mem"
    N, MU = 6, 12
    NGEN = 6           # a stale selector memory shows only some generations after a restore
    SMALL = {"MU": 4}

    def setup(self):
        tb = self.toolbox
        self.ref_points = tools.uniform_reference_points(3, 3)
        tb.register("attr", random.random)
        tb.register("individual", tools.initRepeat, IndMO3, tb.attr, self.N)
        tb.register("population", tools.initRepeat, list, tb.individual)
        tb.register("evaluate", eval_dtlz2)
        tb.register("mate", tools.cxSimulatedBinaryBounded, low=0.0, up=1.0, eta=30.0)
        tb.register("mutate", tools.mutPolynomialBounded, low=0.0, up=1.0, eta=20.0, indpb=1.0 / self.N)

    def init(self, seed, mapper=map):
        seed_all(seed)
        pop = self.toolbox.population(n=self.MU)
        st = {"gen": 0, "population": pop, "memory": tools.selNSGA3WithMemory(self.ref_points),
              "logbook": tools.Logbook()}
        n = evaluate_invalid(pop, self.toolbox.evaluate, mapper)
        self.record(st, pop, n)
        return st

    def step(self, st, mapper=map):
        tb = self.toolbox
        st["gen"] += 1
        off = algorithms.varAnd(st["population"], tb, 1.0, 1.0)
        n = evaluate_invalid(off, tb.evaluate, mapper)
        st["population"] = st["memory"](st["population"] + off, self.MU)     # the selector carries state
        self.record(st, st["population"], n)
        return st


# ---- 5. GP with ephemerals -------------------------------------------------------------------------

class GPEph(Family):
    name = "gp_eph"
    MU = 12
    NGEN = 6
    HASH_SENSITIVE = True
    SMALL = {"MU": 4}

    def setup(self):
        tb = self.toolbox
        tb.register("expr", gp.genHalfAndHalf, pset=PSET, min_=2, max_=3)
        tb.register("individual", tools.initIterate, IndTree, tb.expr)
        tb.register("population", tools.initRepeat, list, tb.individual)
        tb.register("evaluate", eval_symbreg)
        tb.register("select", tools.selTournament, tournsize=3)
        tb.register("mate", gp.cxOnePoint)
        tb.register("expr_mut", gp.genFull, min_=0, max_=2)
        tb.register("mutate", gp.mutUniform, expr=tb.expr_mut, pset=PSET)
        tb.register("mutate_eph", gp.mutEphemeral, mode="one")
        tb.register("mutate_node", gp.mutNodeReplacement, pset=PSET)
        tb.register("mutate_insert", gp.mutInsert, pset=PSET)
        tb.register("mutate_shrink", gp.mutShrink)
        for alias in ("mate", "mutate", "mutate_insert"):
            # tight limit: the fallback `random.choice(keep_inds)` of staticLimit runs in every generation
            tb.decorate(alias, gp.staticLimit(key=operator.attrgetter("height"), max_value=3))

    def init(self, seed, mapper=map):
        seed_all(seed)
        pop = self.toolbox.population(n=self.MU)
        st = {"gen": 0, "population": pop, "halloffame": tools.HallOfFame(2), "logbook": tools.Logbook()}
        n = evaluate_invalid(pop, self.toolbox.evaluate, mapper)
        st["halloffame"].update(pop)
        self.record(st, pop, n)
        return st

    def step(self, st, mapper=map):
        tb = self.toolbox
        st["gen"] += 1
        off = tb.select(st["population"], len(st["population"]))
        off = algorithms.varAnd(off, tb, 0.5, 0.3)
        # the other GP mutations in rotation: node replacement, ephemeral, insert, shrink
        extra = [tb.mutate_eph, tb.mutate_insert, tb.mutate_shrink]
        for i, ind in enumerate(off):
            if random.random() < 0.7:                       # node replacement: the candidate list is drawn from
                off[i], = tb.mutate_node(off[i])
                del off[i].fitness.values
            if random.random() < 0.4:
                off[i], = extra[(i + st["gen"]) % 3](off[i])
                del off[i].fitness.values
        n = evaluate_invalid(off, tb.evaluate, mapper)
        st["halloffame"].update(off)
        st["population"] = off
        self.record(st, off, n)
        return st


# ---- 5c. GP whose ephemerals are declared with the idiom the library recommends: functools.partial over a METHOD of
#      the random module (a bound method of the hidden generator object, F32), whose mutation subtrees come from
#      genHalfAndHalf as well, and whose population size is ODD (anything that alternates / counts calls outside the
#      two generators is out of step after generation 0 already) ------------------------------------------------

def _make_partial_pset():
    ps = gp.PrimitiveSet("C17PART", 1)
    ps.addPrimitive(operator.add, 2)
    ps.addPrimitive(operator.sub, 2)
    ps.addPrimitive(operator.mul, 2)
    ps.addPrimitive(operator.neg, 1)
    ps.addEphemeralConstant("c17_eph_part_int", functools.partial(random.randint, -100, 100))
    ps.addEphemeralConstant("c17_eph_part_uni", functools.partial(random.uniform, -1.0, 1.0))
    ps.renameArguments(ARG0="x")
    return ps


PSET_PART = _make_partial_pset()


def eval_part(ind):
    f = gp.compile(ind, PSET_PART)
    err = 0.0
    for x in GP_POINTS:
        try:
            d = f(x) - (7.0 * x * x - 3.0)
            err += d * d
        except (OverflowError, ValueError):
            err += 1e6
    if err != err or err > 1e12:
        err = 1e12
    return (err / len(GP_POINTS),)


class GPPartial(Family):
    name = "gp_partial"
    MU = 11
    NGEN = 4
    HASH_SENSITIVE = True
    SMALL = {"MU": 3}

    def setup(self):
        tb = self.toolbox
        tb.register("expr", gp.genHalfAndHalf, pset=PSET_PART, min_=1, max_=3)
        tb.register("individual", tools.initIterate, IndTree, tb.expr)
        tb.register("population", tools.initRepeat, list, tb.individual)
        tb.register("evaluate", eval_part)
        tb.register("select", tools.selTournament, tournsize=2)
        tb.register("mate", gp.cxOnePoint)
        tb.register("expr_mut", gp.genHalfAndHalf, min_=0, max_=2)
        tb.register("mutate_sub", gp.mutUniform, expr=tb.expr_mut, pset=PSET_PART)
        tb.register("mutate_eph", gp.mutEphemeral, mode="all")
        tb.register("mutate_one", gp.mutEphemeral, mode="one")
        for alias in ("mate", "mutate_sub"):
            tb.decorate(alias, gp.staticLimit(key=operator.attrgetter("height"), max_value=6))

    def init(self, seed, mapper=map):
        seed_all(seed)
        pop = self.toolbox.population(n=self.MU)
        st = {"gen": 0, "population": pop, "halloffame": tools.HallOfFame(2), "logbook": tools.Logbook()}
        n = evaluate_invalid(pop, self.toolbox.evaluate, mapper)
        st["halloffame"].update(pop)
        self.record(st, pop, n)
        return st

    def step(self, st, mapper=map):
        tb = self.toolbox
        st["gen"] += 1
        off = tb.select(st["population"], len(st["population"]))
        off = [tb.clone(ind) for ind in off]
        for a, b in zip(off[::2], off[1::2]):
            if random.random() < 0.5:
                tb.mate(a, b)
                del a.fitness.values, b.fitness.values
        muts = [tb.mutate_eph, tb.mutate_sub, tb.mutate_one]
        for i in range(len(off)):
            if random.random() < 0.6:             # every ephemeral of a (possibly RESTORED) tree is re-drawn
                off[i], = muts[(i + st["gen"]) % 3](off[i])
                del off[i].fitness.values
        n = evaluate_invalid(off, tb.evaluate, mapper)
        st["halloffame"].update(off)
        st["population"] = off
        self.record(st, off, n)
        return st


# ---- 5a. strongly typed GP with a TYPE HIERARCHY (bool < int) and a user-defined type ----------------------------

class Level(object):
    """A user-defined GP type (its class object lives on the heap, unlike bool / int)."""

    def __init__(self, v):
        self.v = int(v) % 3

    def __repr__(self):
        return "Level(%d)" % self.v


class Shade(object):
    def __init__(self, v):
        self.v = int(v) % 2

    def __repr__(self):
        return "Shade(%d)" % self.v


class Tone(object):
    def __init__(self, v):
        self.v = bool(v)

    def __repr__(self):
        return "Tone(%r)" % self.v


def shade_of(x):
    return Shade(x)


def shade_add(s, x):
    return int(x) - s.v


def tone_of(b):
    return Tone(b)


def tone_pick(t, a, b):
    return a if t.v else b


def if_then_else(c, a, b):
    return a if c else b


def level_of(x):
    return Level(x)


def level_add(l, x):
    return int(x) + l.v


def to_float(x):
    return float(x) / 2.0


def fl_add(f, x):
    return int(x) + int(f)


def eph_small():
    return random.randint(-3, 3)


def _make_typed_pset(user):
    # the supertype `int` is used for the first time AFTER several terminals/primitives of its subtype `bool`
    ps = gp.PrimitiveSetTyped("C17TYPEDU" if user else "C17TYPED", [bool, bool, bool], int)
    ps.addTerminal(True, bool)
    ps.addTerminal(False, bool)
    ps.addPrimitive(operator.and_, [bool, bool], bool)
    ps.addPrimitive(operator.or_, [bool, bool], bool)
    ps.addPrimitive(operator.not_, [bool], bool)
    ps.addPrimitive(operator.add, [int, int], int)
    ps.addPrimitive(operator.mul, [int, int], int)
    ps.addPrimitive(if_then_else, [bool, int, int], int)
    ps.addEphemeralConstant("c17_eph_small", eph_small, int)
    if user:       # a third, user-defined type (a heap-allocated class object)
        ps.addPrimitive(level_of, [int], Level)
        ps.addPrimitive(level_add, [Level, int], int)
        ps.addTerminal(Level(1), Level, name="L1")
        ps.addTerminal(Level(2), Level, name="L2")
        ps.addPrimitive(shade_of, [int], Shade)
        ps.addPrimitive(shade_add, [Shade, int], int)
        ps.addTerminal(Shade(1), Shade, name="S1")
        ps.addPrimitive(tone_of, [bool], Tone)
        ps.addPrimitive(tone_pick, [Tone, int, int], int)
        ps.addTerminal(Tone(True), Tone, name="T1")
    else:          # a third builtin type
        ps.addPrimitive(to_float, [int], float)
        ps.addPrimitive(fl_add, [float, int], int)
        ps.addTerminal(0.5, float)
        ps.addTerminal(1.5, float)
    return ps


TPSET = _make_typed_pset(False)
TPSET_USER = _make_typed_pset(True)
_TCASES = [(a, b, c) for a in (False, True) for b in (False, True) for c in (False, True)]


def eval_typed_user(ind):
    return eval_typed(ind, TPSET_USER)


def eval_typed(ind, pset=None):
    f = gp.compile(ind, TPSET if pset is None else pset)
    err = 0
    for a, b, c in _TCASES:
        try:
            err += abs(int(f(a, b, c)) - (int(a) + 2 * int(b and c)))
        except (OverflowError, ValueError, TypeError):
            err += 1000
    return (float(min(err, 10 ** 9)),)


class GPTyped(Family):
    name = "gp_typed"
    MU = 12
    NGEN = 4
    SMALL = {"MU": 4}
    HASH_SENSITIVE = True      # compared across interpreters started with DIFFERENT string-hash seeds
    pset = TPSET
    evaluate = staticmethod(eval_typed)

    def setup(self):
        TPSET = self.pset
        tb = self.toolbox
        tb.register("expr", gp.genHalfAndHalf, pset=TPSET, min_=1, max_=3)
        tb.register("individual", tools.initIterate, IndTyped, tb.expr)
        tb.register("population", tools.initRepeat, list, tb.individual)
        tb.register("evaluate", self.evaluate)
        tb.register("select", tools.selTournament, tournsize=3)
        tb.register("mate", gp.cxOnePoint)
        tb.register("expr_mut", gp.genFull, min_=0, max_=2)
        tb.register("mutate", gp.mutUniform, expr=tb.expr_mut, pset=TPSET)
        tb.register("mutate_node", gp.mutNodeReplacement, pset=TPSET)
        tb.register("mutate_insert", gp.mutInsert, pset=TPSET)
        for alias in ("mate", "mutate", "mutate_insert"):
            tb.decorate(alias, gp.staticLimit(key=operator.attrgetter("height"), max_value=5))

    def init(self, seed, mapper=map):
        seed_all(seed)
        pop = self.toolbox.population(n=self.MU)
        st = {"gen": 0, "population": pop, "halloffame": tools.HallOfFame(2), "logbook": tools.Logbook()}
        n = evaluate_invalid(pop, self.toolbox.evaluate, mapper)
        st["halloffame"].update(pop)
        self.record(st, pop, n)
        return st

    def step(self, st, mapper=map):
        tb = self.toolbox
        st["gen"] += 1
        off = tb.select(st["population"], len(st["population"]))
        off = algorithms.varAnd(off, tb, getattr(self, "CXPB", 0.6), 0.4)
        for i, ind in enumerate(off):
            if random.random() < 0.5:
                off[i], = (tb.mutate_node, tb.mutate_insert)[(i + st["gen"]) % 2](off[i])
                del off[i].fitness.values
        n = evaluate_invalid(off, tb.evaluate, mapper)
        st["halloffame"].update(off)
        st["population"] = off
        self.record(st, off, n)
        return st


class GPTypedUser(GPTyped):
    """Same with a USER-DEFINED third type (a heap-allocated class object: anything ordered by the addresses of type
    objects — F31, gp.cxOnePoint drawing from a set of classes — depends on the interpreter's allocation history)."""
    name = "gp_typed_user"
    MU = 30
    NGEN = 8
    CXPB = 0.9
    pset = TPSET_USER
    evaluate = staticmethod(eval_typed_user)


# ---- 5b. evolution strategy on float32 numpy individuals --------------------------------------------

def _np_similar(a, b):
    return bool(numpy.array_equal(a, b))


class ESNumpy32(Family):
    name = "es_np32"
    N, MU = 5, 8
    SMALL = {"MU": 4}

    def setup(self):
        tb = self.toolbox
        tb.register("evaluate", eval_np_sphere)
        tb.register("mate", tools.cxBlend, alpha=0.3)
        tb.register("mutate", tools.mutGaussian, mu=0.0, sigma=0.3, indpb=0.5)
        tb.register("select", tools.selTournament, tournsize=2)

    def init(self, seed, mapper=map):
        seed_all(seed)
        pop = [IndNP32(numpy.random.uniform(-2, 2, self.N).astype(numpy.float32)) for _ in range(self.MU)]
        st = {"gen": 0, "population": pop, "halloffame": tools.HallOfFame(2, similar=_np_similar),
              "logbook": tools.Logbook()}
        n = evaluate_invalid(pop, self.toolbox.evaluate, mapper)
        st["halloffame"].update(pop)
        self.record(st, pop, n)
        return st

    def step(self, st, mapper=map):
        tb = self.toolbox
        st["gen"] += 1
        off = tb.select(st["population"], len(st["population"]))
        off = algorithms.varAnd(off, tb, 0.5, 0.6)
        n = evaluate_invalid(off, tb.evaluate, mapper)
        st["halloffame"].update(off)
        st["population"] = off
        self.record(st, off, n)
        return st


# ---- 6.-8. CMA-ES variants (ask / tell) ------------------------------------------------------------

class CMAFamily(Family):
    ind_class = IndCMA
    LAMBDA = 8
    SMALL = {"LAMBDA": 4}
    evaluate = staticmethod(eval_sphere)

    def make_strategy(self):
        raise NotImplementedError

    def init(self, seed, mapper=map):
        seed_all(seed)
        st = {"gen": 0, "population": [], "halloffame": tools.HallOfFame(2), "logbook": tools.Logbook()}
        st["strategy"] = self.make_strategy(mapper)
        return st

    def step(self, st, mapper=map):
        st["gen"] += 1
        pop = st["strategy"].generate(self.ind_class)
        n = evaluate_invalid(pop, self.evaluate, mapper)
        st["halloffame"].update(pop)
        st["strategy"].update(pop)
        st["population"] = pop
        self.record(st, pop, n)
        return st


class CMAES(CMAFamily):
    name = "cma_es"

    def make_strategy(self, mapper):
        return cma.Strategy(centroid=[2.0, -1.0, 0.5, 3.0], sigma=1.5, lambda_=self.LAMBDA)


class CMAESBig(CMAFamily):
    """Large dimension, small lambda: the covariance matrix changes slowly, so anything that refreshes the
    eigendecomposition lazily (or re-derives B, diagD, BD on restore) is exposed by a resume."""
    name = "cma_es_big"
    LAMBDA = 6
    NGEN = 6
    SMALL = {"LAMBDA": 4}

    def make_strategy(self, mapper):
        return cma.Strategy(centroid=[((3 * i) % 7) - 3.0 for i in range(30)], sigma=0.8, lambda_=self.LAMBDA)


class CMAESHuge(CMAFamily):
    """Dimension 200: with the default parameters c1 + cmu is below 1/(10 N), the regime in which a lazily refreshed
    eigendecomposition (Hansen's `eigen_gap`) actually skips generations; a checkpoint that drops and re-derives
    B / diagD / BD then differs from the live strategy at every crash point that is not a multiple of the gap
    (seeded change C17-r7m2; invisible at N = 30).  Used for determinism, same-process restore and kill-and-restore only."""
    name = "cma_es_huge"
    LAMBDA = 6
    NGEN = 4
    SMALL = {"LAMBDA": 4}

    def make_strategy(self, mapper):
        return cma.Strategy(centroid=[((3 * i) % 7) - 3.0 for i in range(200)], sigma=0.8, lambda_=self.LAMBDA)


class CMA1pL(CMAFamily):
    name = "cma_1pl"
    LAMBDA = 6
    SMALL = {"LAMBDA": 3}

    def make_strategy(self, mapper):
        parent = IndCMA((numpy.random.rand() * 5) - 1 for _ in range(4))
        parent.fitness.values = list(mapper(eval_sphere, [parent]))[0]
        return cma.StrategyOnePlusLambda(parent, sigma=2.0, lambda_=self.LAMBDA)


class MOCMA(CMAFamily):
    name = "mo_cma"
    LAMBDA = 6
    MU = 6
    SMALL = {"LAMBDA": 3, "MU": 3}
    ind_class = IndCMA2
    evaluate = staticmethod(eval_zdt1)

    def make_strategy(self, mapper):
        pop = [IndCMA2(x) for x in numpy.random.uniform(0, 1, (self.MU, 4))]
        for ind, fit in zip(pop, mapper(eval_zdt1, pop)):
            ind.fitness.values = fit
        return cma.StrategyMultiObjective(pop, sigma=0.5, mu=self.MU, lambda_=self.LAMBDA)

    def step(self, st, mapper=map):
        st["gen"] += 1
        pop = st["strategy"].generate(self.ind_class)
        for ind in pop:                       # keep inside the domain of zdt1 (sqrt of a negative otherwise)
            for i, x in enumerate(ind):
                ind[i] = min(max(x, 0.0), 1.0)
        n = evaluate_invalid(pop, self.evaluate, mapper)
        st["strategy"].update(pop)
        st["population"] = pop
        self.record(st, pop, n)
        return st


class MOCMALt(MOCMA):
    """mu < lambda: `generate` draws the parents at random from the first front (the `else` branch)."""
    name = "mo_cma_lt"
    MU, LAMBDA = 3, 6
    SMALL = {"LAMBDA": 4, "MU": 2}


class MOCMAGt(MOCMA):
    """mu > lambda."""
    name = "mo_cma_gt"
    MU, LAMBDA = 6, 3
    SMALL = {"LAMBDA": 2, "MU": 4}


# ---- GA whose logbook is STREAMED (as `verbose=True` does) and whose statistics are MultiStatistics chapters:
#      buffindex / header_streamed / chapters / columns_len are live state across a checkpoint --------------------

def _ind_size(ind):
    return sum(ind)


class GAStream(GAList):
    name = "ga_stream"
    EVERY = 2

    def setup(self):
        GAList.setup(self)
        fit = tools.Statistics(lambda ind: ind.fitness.values)
        ones = tools.Statistics(_ind_size)
        self.stats = tools.MultiStatistics(fitness=fit, ones=ones)
        self.stats.register("avg", numpy.mean)
        self.stats.register("max", numpy.max)

    def init(self, seed, mapper=map):
        seed_all(seed)
        pop = self.toolbox.population(n=self.MU)
        lb = tools.Logbook()
        lb.header = "gen", "nevals", "fitness", "ones"
        lb.chapters["fitness"].header = "avg", "max"
        lb.chapters["ones"].header = "max", "avg"
        st = {"gen": 0, "population": pop, "halloffame": tools.HallOfFame(3), "logbook": lb, "streamed": []}
        n = evaluate_invalid(pop, self.toolbox.evaluate, mapper)
        st["halloffame"].update(pop)
        self.record(st, pop, n)
        st["streamed"].append(lb.stream)                 # generation 0 is printed at once (header + first row)
        return st

    def step(self, st, mapper=map):
        st = GAList.step(self, st, mapper)
        if st["gen"] % self.EVERY == 0:
            st["streamed"].append(st["logbook"].stream)  # only the rows not printed yet
        return st


# ---- GA on several DEMES with ring migration (tools.migRing; examples/ga/onemax_multidemic.py) ------------------------
#      the population is a list of demes; emigrants are chosen with selBest, the replaced ones alternately are the
#      emigrants themselves (replacement=None) and the worst (selWorst); the migration array is a random permutation

class GADemes(GAList):
    name = "ga_demes"
    NDEMES, MU, FREQ = 3, 6, 2
    NGEN = 4
    SMALL = {"NDEMES": 2, "MU": 2}

    def init(self, seed, mapper=map):
        seed_all(seed)
        demes = [self.toolbox.population(n=self.MU) for _ in range(self.NDEMES)]
        st = {"gen": 0, "population": demes, "halloffame": tools.HallOfFame(3), "logbook": tools.Logbook()}
        flat = [ind for d in demes for ind in d]
        n = evaluate_invalid(flat, self.toolbox.evaluate, mapper)
        st["halloffame"].update(flat)
        self.record(st, flat, n)
        return st

    def step(self, st, mapper=map):
        tb = self.toolbox
        st["gen"] += 1
        demes = st["population"]
        for i, deme in enumerate(demes):
            off = tb.select(deme, len(deme))
            demes[i] = algorithms.varAnd(off, tb, self.CXPB, self.MUTPB)
        flat = [ind for d in demes for ind in d]
        n = evaluate_invalid(flat, tb.evaluate, mapper)                 # ONE map call over all demes
        st["halloffame"].update(flat)
        if st["gen"] % self.FREQ == 0:
            k = min(2, self.MU - 1)
            ring = random.sample(range(len(demes)), len(demes))
            if (st["gen"] // self.FREQ) % 2:
                tools.migRing(demes, k, tools.selBest, migarray=ring)
            else:
                tools.migRing(demes, k, tools.selBest, replacement=tools.selWorst)
        self.record(st, flat, n)
        return st


# ---- the packaged loops of deap.algorithms (results of toolbox.map consumed there, algorithms.py:150-152 etc.) ----

PACKAGED = ["pk_simple", "pk_mupluslambda", "pk_mucommalambda", "pk_generateupdate"]


def run_packaged(name, seed, ngen, mapper=map):
    seed_all(seed)
    hof = tools.HallOfFame(3)
    stats = make_stats()
    if name == "pk_generateupdate":
        strategy = cma.Strategy(centroid=[1.0, -2.0, 0.5], sigma=1.0, lambda_=6)
        tb = base.Toolbox()
        tb.register("evaluate", eval_sphere)
        tb.register("generate", strategy.generate, IndCMA)
        tb.register("update", strategy.update)
        tb.register("map", mapper)
        pop, log = algorithms.eaGenerateUpdate(tb, ngen, stats=stats, halloffame=hof, verbose=False)
        return {"gen": ngen, "population": pop, "halloffame": hof, "logbook": log, "strategy": strategy}
    fam = GAList()
    tb = fam.toolbox
    tb.register("map", mapper)
    pop = tb.population(n=8)
    if name == "pk_simple":
        pop, log = algorithms.eaSimple(pop, tb, 0.6, 0.3, ngen, stats=stats, halloffame=hof, verbose=False)
    elif name == "pk_mupluslambda":
        pop, log = algorithms.eaMuPlusLambda(pop, tb, 8, 10, 0.5, 0.3, ngen, stats=stats, halloffame=hof,
                                             verbose=False)
    elif name == "pk_mucommalambda":
        pop, log = algorithms.eaMuCommaLambda(pop, tb, 6, 10, 0.5, 0.3, ngen, stats=stats, halloffame=hof,
                                              verbose=False)
    else:
        raise KeyError(name)
    return {"gen": ngen, "population": pop, "halloffame": hof, "logbook": log}


# ---- strategies built from objects the CALLER owns and re-uses (module-level constants): a second run in the same
#      interpreter starts from the very same input objects, which a run must therefore leave untouched ----------

_M = (numpy.arange(16, dtype=float).reshape(4, 4) % 5 - 2.0) / 4.0
SHARED_C = numpy.diag(numpy.linspace(0.5, 3.0, 4)) + numpy.dot(_M, _M.T)
SHARED_CENTROID = [2.0, -1.0, 0.5, 3.0]
SHARED_PARENT = IndCMA([1.5, -0.5, 2.0, 0.25])
SHARED_PARENT.fitness.values = eval_sphere(SHARED_PARENT)
SHARED_MO_POP = [IndCMA2([((3 * i + 2 * j) % 7) / 7.0 for j in range(4)]) for i in range(6)]
for _ind in SHARED_MO_POP:
    _ind.fitness.values = eval_zdt1(_ind)


class CMAESShared(CMAES):
    name = "cma_es_shared"

    def make_strategy(self, mapper):
        return cma.Strategy(centroid=SHARED_CENTROID, sigma=1.5, lambda_=self.LAMBDA, cmatrix=SHARED_C)


class CMA1pLShared(CMA1pL):
    name = "cma_1pl_shared"

    def make_strategy(self, mapper):
        return cma.StrategyOnePlusLambda(SHARED_PARENT, sigma=2.0, lambda_=self.LAMBDA)


class MOCMAShared(MOCMA):
    name = "mo_cma_shared"

    def make_strategy(self, mapper):
        return cma.StrategyMultiObjective(SHARED_MO_POP, sigma=0.5, mu=len(SHARED_MO_POP), lambda_=self.LAMBDA)


SHARED = ["cma_es_shared", "cma_1pl_shared", "mo_cma_shared"]


def shared_inputs_fp():
    return digest([fp_value(SHARED_C), fp_value(SHARED_CENTROID), fp_value(SHARED_PARENT), fp_value(SHARED_MO_POP),
                   [id(x) for x in SHARED_MO_POP], len(SHARED_MO_POP)])


FAMILIES = dict((f.name, f) for f in (GAList, NSGA2, SPEA2, NSGA3Mem, GPEph, CMAES, CMA1pL, MOCMA,
                                       CMAESShared, CMA1pLShared, MOCMAShared, ESNumpy32, CMAESBig, CMAESHuge,
                                       MOCMALt, MOCMAGt, GAStream, GPTyped, GPTypedUser, GPPartial, GADemes))
PENDING = []
HEAVY = ["cma_es_huge"]      # determinism, same-process restore and crash points only (no pools / permutations)
EXTRA = ["es_np32", "cma_es_big", "mo_cma_lt", "mo_cma_gt", "ga_stream", "gp_typed", "gp_typed_user", "gp_partial", "ga_demes"]


def hash_sensitive(family):
    return (not family.startswith("pk_")) and bool(getattr(FAMILIES[family.partition(":")[0]], "HASH_SENSITIVE", False))


def ngen_for(family, default):
    return getattr(FAMILIES[family.partition(":")[0]], "NGEN", default) if not family.startswith("pk_") else default
ORDER = ["ga_list", "nsga2", "gp_eph", "cma_es", "spea2", "nsga3_mem", "cma_1pl", "mo_cma"]

# ----------------------------------------------------------------------------------------------------
# fingerprints
# ----------------------------------------------------------------------------------------------------


def _h(b):
    return hashlib.sha1(b).hexdigest()[:16]


def fp_value(v, depth=0):
    """Canonical, exact description of a value (floats by repr, arrays byte-wise)."""
    if depth > 12:
        return "deep"
    if isinstance(v, numpy.ndarray):
        body = ["nd", str(v.dtype), list(v.shape), _h(numpy.ascontiguousarray(v).tobytes())]
        if hasattr(v, "fitness"):
            return ["ind", type(v).__name__, body, fp_fit(v), fp_attrs(v, depth)]
        return body
    if isinstance(v, (numpy.generic,)):
        return ["np", str(v.dtype), repr(v.item())]
    if isinstance(v, float):
        return ["f", repr(v)]
    if v is None or isinstance(v, (bool, int, str)):
        return v
    if isinstance(v, gp.PrimitiveTree):
        return ["tree", str(v), [[type(n).__name__, n.name, repr(getattr(n, "value", None))] for n in v],
                fp_fit(v), fp_attrs(v, depth)]
    if isinstance(v, base.Fitness):
        return ["fit", [repr(x) for x in v.wvalues]]
    if isinstance(v, (tools.HallOfFame,)):
        return ["hof", [fp_value(x, depth + 1) for x in v.items], [fp_value(k, depth + 1) for k in v.keys]]
    if isinstance(v, tools.Logbook):
        return ["logbook", [sorted([k, fp_value(x, depth + 1)] for k, x in row.items()) for row in v],
                sorted([k, fp_value(c, depth + 1)] for k, c in v.chapters.items()),
                sorted([k, fp_value(x, depth + 1)] for k, x in vars(v).items() if k != "chapters")]
    if isinstance(v, (list, tuple, _array.array)):
        body = [fp_value(x, depth + 1) for x in v]
        if hasattr(v, "fitness"):
            return ["ind", type(v).__name__, body, fp_fit(v), fp_attrs(v, depth)]
        return body
    if isinstance(v, dict):
        return ["dict", sorted(([repr(k), fp_value(x, depth + 1)] for k, x in v.items()), key=repr)]
    if hasattr(v, "__dict__"):
        return ["obj", type(v).__name__, fp_attrs(v, depth, skip=())]
    return ["repr", repr(v)]


def fp_fit(ind):
    """Weighted values AND whatever else the selections hung on the fitness (crowding_dist is state the next
    generation's selTournamentDCD consumes)."""
    f = getattr(ind, "fitness", None)
    if f is None:
        return None
    return [[repr(x) for x in f.wvalues],
            sorted([k, fp_value(x, 1)] for k, x in vars(f).items() if k != "wvalues")]


def fp_attrs(o, depth, skip=("fitness",)):
    """`_ps` (MO-CMA-ES parent/offspring tag) is left out: generate() rewrites it on every parent before update()
    reads it, so its value at the end of a generation is dead scratch, not state."""
    if not hasattr(o, "__dict__"):
        return []
    return sorted([k, fp_value(x, depth + 1)] for k, x in vars(o).items()
                  if k not in skip and k != "_ps" and not callable(x))


def fp_rng():
    ps = random.getstate()
    ns = numpy.random.get_state()
    return {"random": _h(repr(ps).encode()),
            "numpy": [ns[0], _h(numpy.asarray(ns[1]).tobytes()), int(ns[2]), int(ns[3]), repr(float(ns[4]))]}


def fingerprint(st):
    d = dict((k, fp_value(v)) for k, v in st.items())
    d["rng"] = fp_rng()
    return d


def digest(fp):
    return _h(json.dumps(fp, sort_keys=True).encode())


SHARED_FP0 = None


# ----------------------------------------------------------------------------------------------------
# running, checkpointing, resuming
# ----------------------------------------------------------------------------------------------------

SHARED_FP0 = shared_inputs_fp()      # the caller's objects as they were when this module was imported


def make(family):
    """`name` or `name:s` (the small-population variant)."""
    name, _, var = family.partition(":")
    return FAMILIES[name](small=(var == "s"))


def run(family, seed, ngen, mapper=map, start=None, on_gen=None):
    """Returns (state, trace): trace[g] = digest of the fingerprint after generation g (from the start point).
    `on_gen(state)` is called after generation 0 / the start point and after every further generation."""
    if family.startswith("pk_"):
        st = run_packaged(family, seed, ngen, mapper)
        if on_gen is not None:
            on_gen(st)
        return st, {ngen: digest(fingerprint(st))}
    fam = make(family)
    if start is None:
        st = fam.init(seed, mapper)
        trace = {0: digest(fingerprint(st))}
    else:
        st = start
        trace = {st["gen"]: digest(fingerprint(st))}
    if on_gen is not None:
        on_gen(st)
    while st["gen"] < ngen:
        st = fam.step(st, mapper)
        trace[st["gen"]] = digest(fingerprint(st))
        if on_gen is not None:
            on_gen(st)
    return st, trace


def script_roots():
    """The script-level objects a restoring process re-creates by executing the script (not part of a checkpoint):
    handed to the hidden-state detector as extra roots."""
    return {"PSET": PSET, "PSET_PART": PSET_PART, "TPSET": TPSET, "TPSET_USER": TPSET_USER,
            "SHARED_C": SHARED_C, "SHARED_CENTROID": SHARED_CENTROID}


def checkpoint(st):
    """Everything the tutorial says to save (doc/tutorials/advanced/checkpoint.rst) — the loop's objects and the
    states of both generators."""
    cp = dict(st)
    cp["rndstate"] = random.getstate()
    cp["npstate"] = numpy.random.get_state()
    return cp


def restore(cp):
    st = dict(cp)
    random.setstate(st.pop("rndstate"))
    numpy.random.set_state(st.pop("npstate"))
    return st


def main(argv):
    cmd = argv[0]
    if cmd == "run":
        family, seed, ngen = argv[1], int(argv[2]), int(argv[3])
        st, trace = run(family, seed, ngen)
        print(json.dumps({"trace": trace, "final": fingerprint(st)}))
    elif cmd == "crash":
        family, seed, g, d = argv[1], int(argv[2]), int(argv[3]), argv[4]
        protos = [int(p) for p in argv[5].split(",")]
        st, _ = run(family, seed, g)
        cp = checkpoint(st)
        for p in protos:
            tmp = os.path.join(d, "cp%d.tmp" % p)
            with open(tmp, "wb") as fh:
                pickle.dump(cp, fh, p)
                fh.flush()
                os.fsync(fh.fileno())
            os.rename(tmp, os.path.join(d, "cp%d.pkl" % p))
        sys.stdout.write("READY\n")
        sys.stdout.flush()
        time.sleep(3600)                      # killed by the parent with SIGKILL
    elif cmd == "resume":
        family, path, ngen = argv[1], argv[2], int(argv[3])
        with open(path, "rb") as fh:
            cp = pickle.load(fh)
        st = restore(cp)
        st, trace = run(family, None, ngen, start=st)
        print(json.dumps({"trace": trace, "final": fingerprint(st)}))
    else:
        raise SystemExit("unknown command")


if __name__ == "__main__":
    # run under the module's import name so that pickles written here resolve in other processes
    sys.path.insert(0, os.path.dirname(os.path.dirname(os.path.abspath(__file__))))
    import props.c17_families as _self  # noqa
    _self.main(sys.argv[1:])
