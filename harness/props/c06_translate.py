"""C06 — the translator tie: `translate(repo)` for harness/lib.py::_translated_obligations.

Reads deap/tools/selection.py and deap/tools/emo.py (selTournamentDCD) of `repo` AS THEY ARE NOW, renders every selection
operator the sub-language of harness/py2lean_c06.py reaches as a Lean definition `Gen.<name>` over the tape monad of
lean/DeapModel/Core/GenPreludeC06.lean and appends the committed theorems of lean/DeapModel/GenEq/C06.lean.tmpl
(`Gen.<name> pop w (List.range pop.length) … tape = Selection.<name> … tape`).  A function that has a theorem block in
the template but is no longer translatable is a PROBLEM (the tie is broken); a function without a block is only listed."""
import hashlib
import os
import re
import shutil
import subprocess
import tempfile

import py2lean_c06 as p2l
from py2lean_c06 import IND, NAT, Q, ATTR, BOOLP, L, Refuse

HERE = os.path.dirname(os.path.abspath(__file__))
LEAN_DIR = os.path.normpath(os.path.join(HERE, "..", "..", "lean"))
TEMPLATE = os.path.join(LEAN_DIR, "DeapModel", "GenEq", "C06.lean.tmpl")
DIGEST = os.path.join(LEAN_DIR, "DeapModel", "GenEq", "C06.defs.sha256")

# parameter types: an ASSUMPTION of the tie (a population is a list of individuals = positions; counts are naturals)
COMMON = {"individuals": L(IND), "k": NAT, "tournsize": NAT, "fit_attr": ATTR, "fitness_size": NAT, "parsimony_size": Q,
          "epsilon": Q, "fitness_first": BOOLP}
TARGETS = [
    ("deap/tools/selection.py", ["selRandom", "selBest", "selWorst", "selTournament", "selRoulette",
                                 "selStochasticUniversalSampling", "selLexicase", "selEpsilonLexicase",
                                 "selAutomaticEpsilonLexicase", "selDoubleTournament"]),
    ("deap/tools/emo.py", ["selTournamentDCD"]),
]

HEADER = """import DeapModel.Lemmas.C06Gen

set_option linter.unusedVariables false
set_option linter.unusedSimpArgs false
set_option linter.unusedTactic false
set_option linter.unreachableTactic false

namespace Gen

"""


def template_blocks():
    src = open(TEMPLATE).read()
    blocks, pre, cur, buf = {}, [], None, []
    for line in src.splitlines():
        m = re.match(r"^--! begin (\S+)\s*$", line)
        if m:
            cur, buf = m.group(1), []
            continue
        if re.match(r"^--! end\s*$", line):
            blocks[cur] = "\n".join(buf)
            cur = None
            continue
        (buf if cur is not None else pre).append(line)
    return "\n".join(pre), blocks


def theorem_names(text):
    return re.findall(r"^theorem\s+([\w.']+)", text, re.M)


def translate(repo):
    problems, defs, refused, table = [], [], [], []
    pre, blocks = template_blocks()
    out = [HEADER]
    done, lost, gen_texts = [], [], []
    for rel, names in TARGETS:
        path = os.path.join(repo, rel)
        try:
            mod = p2l.Module(path)
        except (OSError, SyntaxError) as e:
            problems.append("%s unreadable: %s" % (rel, e))
            continue
        for name in names:
            full = "Gen." + name
            try:
                text, rty = p2l.translate_function(mod, name, COMMON, name)
            except Refuse as e:
                refused.append("%s:%s (%s)" % (rel, name, e))
                table.append((rel, name, "refused", str(e)))
                if full in blocks:
                    lost.append(full)
                    problems.append("%s:%s has left the translated sub-language (%s); its theorems %s cannot be checked"
                                    % (rel, name, e, theorem_names(blocks[full])))
                continue
            out.append("/-- `%s:%s` (line %d), regenerated from the source -/" % (rel, name, mod.functions[name].lineno))
            out.append(text)
            out.append("")
            gen_texts.append(text)
            defs.append(full)
            done.append(full)
            table.append((rel, name, "translated", "theorem" if full in blocks else "no theorem"))
    for full in blocks:
        if full not in done and full not in lost:
            problems.append("%s has theorems in the template but its function is not a target any more" % full)
    out.append("end Gen\n")
    out.append(pre)
    theorems = []
    for full in done:
        if full in blocks:
            out.append(blocks[full])
            theorems += theorem_names(blocks[full])
    source = "\n".join(out)
    digest = hashlib.sha256("\n".join(gen_texts).encode()).hexdigest()
    try:
        known = open(DIGEST).read().split()
    except OSError:
        known = []
    if digest not in known:
        # name the theorems that broke (lib reports only Lean's error lines); costs time on a changed tree only
        failing = failing_theorems(source)
        if failing:
            problems.append("regenerated definitions differ from the committed digest; theorems that no longer hold: %s"
                            % ", ".join(failing))
    return {"problems": problems, "source": source, "theorems": theorems, "definitions": defs, "refused": refused,
            "table": table, "digest": digest}


def failing_theorems(source):
    d = tempfile.mkdtemp(prefix="deapverif-gendiag-")
    try:
        f = os.path.join(d, "GenEqDiag.lean")
        with open(f, "w") as fh:
            fh.write(source + "\n")
        p = subprocess.run(["lake", "env", "lean", f], cwd=LEAN_DIR, stdout=subprocess.PIPE, stderr=subprocess.STDOUT,
                           text=True, timeout=3000)
    finally:
        shutil.rmtree(d, ignore_errors=True)
    lines = source.split("\n")
    starts = [(k + 1, m.group(1)) for k, l in enumerate(lines)
              for m in [re.match(r"^(?:theorem|def|example)\s+([\w.']+)?", l)] if m]
    bad = []
    for m in re.finditer(r":(\d+):\d+: error", p.stdout):
        ln = int(m.group(1))
        owner = None
        for k, nm in starts:
            if k <= ln:
                owner = nm or "example"
        if owner and owner not in bad:
            bad.append(owner)
    return bad


if __name__ == "__main__":
    import sys
    r = translate(sys.argv[1] if len(sys.argv) > 1 else os.environ.get("DEAP_REPO", "/repo"))
    if len(sys.argv) > 2:
        open(sys.argv[2], "w").write(r["source"] + "\n" + "".join("#print axioms %s\n" % n for n in r["theorems"]))
    for row in r["table"]:
        print("%-28s %-32s %-10s %s" % row)
    print("problems:", r["problems"])
    print(len(r["definitions"]), "definitions,", len(r["theorems"]), "theorems,", len(r["refused"]), "refused; digest", r["digest"])
