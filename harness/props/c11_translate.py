"""C11 — the translator tie: `translate(repo)` for harness/lib.py::_translated_obligations.

Reads deap/gp.py of `repo` AS IT IS NOW, renders the PrimitiveTree methods / module functions listed in SIG as Lean
definitions `Gen.<Class>_<method>` (rendering rules: the docstring of harness/py2lean_c11.py = the trusted base, with
lean/DeapModel/Core/GenPreludeC11.lean) and appends the committed theorems of lean/DeapModel/GenEq/C11.lean.tmpl
(`Gen.<f> … = <hand-written model> …`).  A function that has a theorem block in the template but is no longer translatable
is a PROBLEM (the tie is broken); one without a block is just listed.

SIG is part of the trusted base: declared parameter / local variable types, the result type, and the iteration bound of every
`while` loop (a Lean term over the variables at loop entry) in source order."""
import ast
import hashlib
import os
import re
import sys

HERE = os.path.dirname(os.path.abspath(__file__))
sys.path.insert(0, os.path.normpath(os.path.join(HERE, "..")))
import py2lean_c11                                                  # noqa: E402
from props.c20_translate import failing_theorems, theorem_names    # noqa: E402  (diagnostics helpers, reused unchanged)

TEMPLATE = os.path.normpath(os.path.join(HERE, "..", "..", "lean", "DeapModel", "GenEq", "C11.lean.tmpl"))
DIGEST = os.path.normpath(os.path.join(HERE, "..", "..", "lean", "DeapModel", "GenEq", "C11.defs.sha256"))
REL = "deap/gp.py"

TREE = "List Gen11.Node"
# (class or None, function, Lean name, params, locals, result, while bounds, returns the mutated self)
SIG = [
    ("PrimitiveTree", "root", "PrimitiveTree_root", [("self", TREE)], {}, "Gen11.Node", [], False),
    ("PrimitiveTree", "height", "PrimitiveTree_height", [("self", TREE)],
     {"stack": "List Int", "max_depth": "Int", "depth": "Int"}, "Int", [], False),
    ("PrimitiveTree", "searchSubtree", "PrimitiveTree_searchSubtree", [("self", TREE), ("begin", "Int")],
     {"end": "Int", "total": "Int", "begin": "Int"}, "Gen11.Slice", ["3 * self.length + 2"], False),
    ("PrimitiveTree", "__setitem__", "PrimitiveTree_setitem_slice", [("self", TREE), ("key", "Gen11.Slice"), ("val", TREE)],
     {"total": "Int"}, TREE, [], True),
    ("PrimitiveTree", "__str__", "PrimitiveTree_str", [("self", TREE)],
     {"string": "Gen11.Str", "stack": "List (Gen11.Node × List Gen11.Str)", "prim": "Gen11.Node", "args": "List Gen11.Str"},
     "Gen11.Str", ["stack.length + 1"], False),
    (None, "graph", "graph", [("expr", TREE)],
     {"nodes": "List Int", "edges": "List (Int × Int)", "labels": "Gen11.Dict", "stack": "List (Int × Int)"},
     "(List Int) × (List (Int × Int)) × Gen11.Dict", ["stack.length + 1"], False),
]

HEADER = """import DeapModel.Lemmas.C11Tie

set_option linter.unusedVariables false
set_option linter.unusedSimpArgs false

namespace Gen

"""


def template_blocks():
    src = open(TEMPLATE).read()
    blocks, pre, cur, buf = {}, [], None, []
    for line in src.splitlines():
        m = re.match(r"^--! begin (\S+)\s*$", line)
        if m:
            cur, buf = m.group(1), []
            continue
        if re.match(r"^--! end\s*$", line):
            blocks[cur] = "\n".join(buf)
            cur = None
            continue
        (buf if cur is not None else pre).append(line)
    return "\n".join(pre), blocks


def find_function(tree, cls, name):
    body = tree.body
    if cls is not None:
        body = next((n.body for n in tree.body if isinstance(n, ast.ClassDef) and n.name == cls), None)
        if body is None:
            return None
    hits = [n for n in body if isinstance(n, ast.FunctionDef) and n.name == name]
    return hits[-1] if hits else None


def translate(repo, diagnose=True):
    problems, defs, refused, table, gen_texts, done, lost = [], [], [], [], [], [], []
    pre, blocks = template_blocks()
    out = [HEADER]
    try:
        tree = ast.parse(open(os.path.join(repo, REL)).read())
    except (OSError, SyntaxError) as e:
        return {"problems": ["%s unreadable: %s" % (REL, e)], "source": None, "theorems": [], "definitions": [], "refused": []}
    for cls, name, lean, params, locals_, result, fuels, rself in SIG:
        full = "Gen." + lean
        label = (cls + "." if cls else "") + name
        fdef = find_function(tree, cls, name)
        text, why = None, None
        if fdef is None:
            why = "no such function"
        else:
            try:
                text = py2lean_c11.translate_function(fdef, lean, params, locals_, result, fuels, rself)
            except py2lean_c11.Refuse as e:
                why = str(e)
        if text is None:
            refused.append("%s:%s (%s)" % (REL, label, why))
            table.append((label, "refused", why))
            if full in blocks:
                lost.append(full)
                problems.append("%s has left the translated sub-language (%s); its theorems %s cannot be checked"
                                % (label, why, theorem_names(blocks[full])))
            continue
        out.append("/-- `%s:%s`, regenerated from the source -/" % (REL, label))
        out.append(text)
        out.append("")
        gen_texts.append(text)
        defs.append(full)
        done.append(full)
        table.append((label, "translated", "theorem" if full in blocks else "no theorem"))
    for full in blocks:
        if full not in done and full not in lost:
            problems.append("%s has theorems in the template but no function of that name is in SIG" % full)
    out.append("end Gen\n")
    out.append(pre)
    theorems = []
    for full in done:
        if full in blocks:
            out.append(blocks[full])
            theorems += theorem_names(blocks[full])
    source = "\n".join(out)
    digest = hashlib.sha256("\n".join(gen_texts).encode()).hexdigest()
    try:
        known = open(DIGEST).read().split()
    except OSError:
        known = []
    if diagnose and digest not in known:
        failing = failing_theorems(source)
        if failing:
            problems.append("regenerated definitions differ from the committed digest; theorems that no longer hold: %s" % ", ".join(failing))
    return {"problems": problems, "source": source, "theorems": theorems, "definitions": defs, "refused": refused,
            "table": table, "digest": digest}


if __name__ == "__main__":
    r = translate(sys.argv[1] if len(sys.argv) > 1 else os.environ.get("DEAP_REPO", "/repo"), diagnose="--diagnose" in sys.argv)
    if len(sys.argv) > 2 and not sys.argv[2].startswith("--"):
        open(sys.argv[2], "w").write((r["source"] or "") + "\n" + "".join("#print axioms %s\n" % n for n in r["theorems"]))
    for row in r.get("table", []):
        print("%-28s %-11s %s" % row)
    print("problems:", r["problems"])
    print(len(r["definitions"]), "definitions,", len(r["theorems"]), "theorems,", len(r["refused"]), "refused; digest", r.get("digest"))
