"""C02, stream `hist` — call HISTORIES of varAnd / varOr with operators decorated by one `tools.History()`
(deap/tools/support.py History.update / decorator / getGenealogy; model lean/DeapModel/Core/History.lean, protocol op `C02 hist`).

One case = one process-level history: an optional `history.update(population)`, then several generations of the real
`algorithms.varAnd` / `varOr` on a toolbox whose mate and / or mutate went through `toolbox.decorate(..., history.decorator)`
(library operators, plain or wrapped: functional copies, `gp.staticLimit`), evaluation of some offspring and a new population drawn
from parents and offspring (clones carry `history_index` forward), finally `history.getGenealogy` queries.

Correspondence: the model replays every generation (decision draws, scripted genomes) with its own `History` and must arrive at the
same offspring oids, genomes, fitness validity, `history_index` of every offspring, call log, `genealogy_index`, `genealogy_tree`
(dict order), the oid and content of every `genealogy_history` entry (an entry that IS a live object or shares mutable state with one
shows up as a disagreement) and the same `getGenealogy` answers (`recursion` = RecursionError).
Oracle: the statement of C02 on every single call of the history (parents untouched — a parent that receives a `history_index` is
modified —, count, independence, stale fitness, valid fitness = parent's genotype and fitness)."""
import random
import warnings

from lib import Case, fbits
import tape as tapemod
from deap import algorithms, base, tools

from props import c02 as B

# size-preserving operator pairs: a history runs several generations on what the operators produced
HOPS = {
    "list": (["cxOnePoint", "cxTwoPoint", "cxUniform"], ["mutFlipBit", "mutShuffleIndexes", "mutUniformInt", "mutInversion"]),
    "array": (["cxOnePoint", "cxTwoPoint", "cxBlend", "cxUniform"], ["mutGaussian", "mutShuffleIndexes", "mutInversion"]),
    "numpy": (["cxTwoPointCopy", "cxUniform", "cxBlend"], ["mutGaussian", "mutFlipBit", "mutShuffleIndexes"]),
    "perm": (["cxPartialyMatched", "cxUniformPartialyMatched", "cxOrdered"], ["mutShuffleIndexes", "mutInversion"]),
    "es": (["cxESBlend", "cxESTwoPoint"], ["mutESLogNormal"]),
    "tree": (["gp.cxOnePoint", "gp.cxOnePointLeafBiased"], ["gp.mutUniform", "gp.mutNodeReplacement", "gp.mutShrink", "gp.mutEphemeral"]),
}


class OperatorDomain(Exception):
    """a library operator raised on what earlier generations produced: outside the domain of the operators, not of varAnd / varOr"""


class HRecorder(B.Recorder):
    """objects are `<genome>|<fit>|<history_index>`; for an object an operator just returned, the index it carried when the
    (undecorated) operator handed it back (`pre`, filled by the innermost wrapper)"""
    check_frame = True

    def obj(self, ind):
        h = self.pre[id(ind)] if id(ind) in self.pre else getattr(ind, "history_index", None)
        return "%s|%s" % (B.Recorder.obj(self, ind), "-" if h is None else "%d" % h)


def _tree_tok(d):
    if not d:
        return "-"
    return ";".join("%d>%s" % (k, ".".join("%d" % p for p in v)) for k, v in d.items())


def evaluate(d):
    rep, fk = d["rep"], d["fk"]
    inds = [B.build(rep, fk, s) for s in d["inds"]]
    for x, s in zip(inds, d["inds"]):
        if s.get("hidx") is not None:
            x.history_index = int(s["hidx"])      # an index handed out by ANOTHER history object
    pop = [inds[i] for i in d["pop"]]
    tb = base.Toolbox()
    m, u = B.operator_pair(d["mate"], d["mutate"], d.get("indpb", 0.5))
    m, u = B.wrap_ops(m, u, d.get("mwrap"), d.get("uwrap"), d.get("limit", 1))
    pre = {}

    def raw_mate(a, b):
        try:
            r = m(a, b)
        except (ValueError, IndexError, ZeroDivisionError, OverflowError) as e:
            raise OperatorDomain(repr(e))
        for z in r:
            pre[id(z)] = getattr(z, "history_index", None)
        return r

    def raw_mutate(a):
        try:
            r = u(a)
        except (ValueError, IndexError, ZeroDivisionError, OverflowError) as e:
            raise OperatorDomain(repr(e))
        for z in r:
            pre[id(z)] = getattr(z, "history_index", None)
        return r

    tb.register("mate", raw_mate)
    tb.register("mutate", raw_mutate)
    history = tools.History()
    if d["dm"]:
        tb.decorate("mate", history.decorator)
    if d["du"]:
        tb.decorate("mutate", history.decorator)
    rng = random.Random(d["seed"])
    erng = random.Random(d["seed"] ^ 0x5bd1e995)
    gens_tok, gens_ans, orc = [], [], None
    seen = [0]
    entry_alias = []
    try:
        with tapemod.Tape(rng=rng) as tp:
            rec = HRecorder(tp, inds)
            rec.pre = pre
            heap_tok = ";".join(rec.obj(x) for x in inds) if inds else "-"
            rec.wrap(tb)

            def sync():
                for k in range(seen[0] + 1, history.genealogy_index + 1):
                    e = history.genealogy_history.get(k)
                    if e is None or id(e) in rec.oid:
                        entry_alias.append(k)          # no entry, or the entry IS an object that lives elsewhere
                    else:
                        rec.new(e)
                seen[0] = history.genealogy_index
                pre.clear()

            m1, u1 = tb.mate, tb.mutate

            def mate(a, b):
                r = m1(a, b)
                sync()
                return r

            def mutate(a):
                r = u1(a)
                sync()
                return r

            tb.mate, tb.mutate = mate, mutate
            init_tok = "-"
            if d["init"]:
                init_tok = B.sl(rec.of(x) for x in pop)
                history.update(pop)
                sync()
            for g in d["gens"]:
                fn = g["fn"]
                cxpb, mutpb, lam = float(g["cxpb"]), float(g["mutpb"]), int(g.get("lam", 0))
                if fn == "or":
                    if len(pop) < 2:
                        cxpb = 0.0
                    if not pop:
                        lam = 0
                uniq = []
                for x in pop:
                    if not any(x is y for y in uniq):
                        uniq.append(x)
                before = [B.snap(x) for x in uniq]
                before_pop = [B.snap(x) for x in pop]
                pop_ids = [id(x) for x in pop]
                npop = len(pop)
                rec.touched = set()
                d0, e0, c0 = len(tp.draws), len(rec.events), len(rec.calls)
                pops = B.sl(rec.of(x) for x in pop)
                with warnings.catch_warnings():
                    warnings.simplefilter("ignore")
                    if fn == "and":
                        out = algorithms.varAnd(pop, tb, cxpb, mutpb)
                    else:
                        out = algorithms.varOr(pop, tb, lam, cxpb, mutpb)
                inside = set()
                for a, b in rec.ranges:
                    inside.update(range(a, b))
                draws = [x for i, x in enumerate(tp.draws) if i >= d0 and i not in inside]
                script = ";".join(rec.calls[c0:]) if len(rec.calls) > c0 else "-"
                if orc is None:
                    orc = B.statement_oracle(fn, pop, pop_ids, npop, uniq, before, before_pop, out,
                                             len(pop) if fn == "and" else lam, rec.touched)
                    if orc is not None:
                        orc = "generation %d of a History-decorated run: %s" % (len(gens_tok), orc)
                ans = "off=%s objs=%s log=%s" % (B.sl(rec.of(o) for o in out),
                                                 ";".join(rec.obj(o) for o in out) if out else "-", B.sl(rec.events[e0:]))
                # evaluation of (some of) the offspring, then the next population
                evs = []
                for o in out:
                    if not o.fitness.valid and erng.random() < g.get("evalp", 0.7):
                        vals = tuple(float(erng.randint(-3, 3)) for _ in o.fitness.weights)
                        o.fitness.values = vals
                        evs.append("%d=%s" % (rec.of(o), ",".join("%d" % int(v) for v in vals)))
                ev_tok = ";".join(evs) if evs else "-"
                if fn == "and":
                    if any(x[0] != "random" for x in draws):
                        return Case(d, ["C02 tape-error"], ["TAPE: varAnd made a random call the model does not know"], orc,
                                    tag="hist/tape-error", nontrivial=False)
                    gens_tok.append("and@%s@%s@%s@%s@%s@%s" % (pops, fbits(cxpb), fbits(mutpb),
                                                            B.sl(fbits(x[1]) for x in draws), script, ev_tok))
                else:
                    toks = []
                    for x in draws:
                        if x[0] == "random":
                            toks.append("r:" + fbits(x[1]))
                        elif x[0] == "sample":
                            toks.append("s:%d:%d" % tuple(x[3]))
                        elif x[0] == "choice":
                            toks.append("c:%d" % x[2])
                        else:
                            return Case(d, ["C02 tape-error"], ["TAPE: varOr made a random call the model does not know"], orc,
                                        tag="hist/tape-error", nontrivial=False)
                    gens_tok.append("or@%s@%d@%s@%s@%s@%s@%s" % (pops, lam, fbits(cxpb), fbits(mutpb), B.sl(toks), script, ev_tok))
                gens_ans.append(ans)
                comb = pop + list(out)
                pop = [comb[i % len(comb)] for i in g.get("sel", [])] if comb else []
            # getGenealogy
            q_tok, q_ans = [], []
            for pos, md in d.get("queries", []):
                if not pop:
                    break
                ind = pop[pos % len(pop)]
                if not hasattr(ind, "history_index"):
                    continue
                q_tok.append("%d:%s" % (ind.history_index, "inf" if md is None else "%d" % md))
                try:
                    gt = history.getGenealogy(ind) if md is None else history.getGenealogy(ind, md)
                    q_ans.append(_tree_tok(gt))
                except RecursionError:
                    q_ans.append("recursion")
    except OperatorDomain:
        return Case(d, [], [], orc, tag="hist/excluded-domain", nontrivial=False)
    except AssertionError:
        return Case(d, [], [], "AssertionError although cxpb + mutpb <= 1" if orc is None else orc, tag="hist/assert", nontrivial=False)
    # the history's own state
    hist_tok = []
    for k, e in history.genealogy_history.items():
        hist_tok.append("%d:%d:%s" % (k, rec.of(e), rec.obj(e)))
    alias = None
    if entry_alias:
        alias = "genealogy_history[%d] is a live object, not a copy" % entry_alias[0]
    else:
        live = [x for x in rec.keep]
        parts = [B.mutable_parts(x) for x in live]
        ent = set(id(e) for e in history.genealogy_history.values())
        for i, x in enumerate(live):
            if id(x) not in ent:
                continue
            for j, y in enumerate(live):
                if j != i and alias is None:
                    if set(parts[i][0]) & set(parts[j][0]) or any(
                            B.numpy.shares_memory(a, b) for a in parts[i][1] for b in parts[j][1]):
                        alias = "the genealogy_history entry #%d shares mutable state with object #%d" % (i, j)
    line = "C02 hist %s %d %d %s %s %s" % (heap_tok, 1 if d["dm"] else 0, 1 if d["du"] else 0, init_tok,
                                           "#".join(gens_tok) if gens_tok else "-", ";".join(q_tok) if q_tok else "-")
    ans = "%s index=%d tree=%s hist=%s q=%s" % (
        " | ".join(gens_ans) if gens_ans else "-", history.genealogy_index, _tree_tok(history.genealogy_tree),
        ";".join(hist_tok) if hist_tok else "-", "/".join(q_ans) if q_ans else "-")
    if rec.contract:
        ans = "operator-contract-violated: " + rec.contract
    elif alias:
        ans += " ALIAS: " + alias
    cyc = "/cycle" if "recursion" in q_ans else ""
    tag = "hist/%s/%s%s%s/g%d%s" % (rep, "M" if d["dm"] else "", "U" if d["du"] else "", "/init" if d["init"] else "",
                                    len(d["gens"]), cyc)
    return Case(d, [line], [ans], orc, tag=tag, nontrivial=history.genealogy_index > 0)


def mk_case(rng, rep=None, dm=None, du=None, ngen=None, foreign=None):
    rep = rep or rng.choice(B.REPS)
    fk = rng.choice(["max", "max", "mo", "cmax", "intw"])
    n = rng.randint(2, 5)
    plen = rng.randint(3, 6)
    inds = []
    for i in range(n + rng.choice([0, 0, 1])):
        if rep == "perm":
            g = list(range(plen))
            rng.shuffle(g)
        else:
            g = B.mk_genome(rng, rep)
        spec = {"g": g, "fit": B.mk_fit(rng, fk) if rng.random() < 0.6 else None}
        if rep == "es":
            spec["strategy"] = [rng.randint(1, 8) / 4.0 for _ in g]
        if rng.random() < 0.3:
            spec["extra"] = i + 1
        inds.append(spec)
    foreign = rng.random() < 0.25 if foreign is None else foreign
    if foreign:
        for s in inds:
            if rng.random() < 0.7:
                s["hidx"] = rng.randint(1, 6)
    pop = list(range(n))
    if rng.random() < 0.25:
        pop[rng.randrange(n)] = pop[0]            # the same object twice
    mates, muts = HOPS[rep]
    if dm is None:
        dm, du = rng.choice([(True, True), (True, True), (True, False), (False, True)])
    d = {"fn": "hist", "rep": rep, "fk": fk, "inds": inds, "pop": pop, "mate": rng.choice(mates), "mutate": rng.choice(muts),
         "indpb": rng.choice([0.5, 0.5, 1.0]), "seed": rng.getrandbits(32), "dm": dm, "du": du,
         "init": rng.random() < 0.7}
    r = rng.random()
    if r < 0.2:
        d["mwrap"], d["limit"] = "id", rng.randrange(8)
        d["uwrap"] = rng.choice([None, "pure"])
    elif r < 0.35:
        d["mwrap"], d["uwrap"] = rng.choice([("pure", None), (None, "pure"), ("pure", "pure"), ("swap", None)])
    elif r < 0.5 and rep == "tree":
        d["mwrap"], d["uwrap"] = rng.choice([("limit", None), (None, "limit"), ("limit", "limit")])
        d["limit"] = rng.choice([1, 2])
    gens = []
    for _ in range(rng.randint(1, 4) if ngen is None else ngen):
        fn = rng.choice(["and", "or"])
        cxpb = rng.choice([0.0, 0.5, 0.5, 1.0, rng.randint(0, 16) / 16.0])
        if fn == "and":
            mutpb = rng.choice([0.0, 0.5, 1.0, rng.randint(0, 16) / 16.0])
        else:
            mutpb = rng.choice([0.0, 1.0 - cxpb, rng.randint(0, 16) / 16.0 * (1.0 - cxpb)])
        g = {"fn": fn, "cxpb": cxpb, "mutpb": mutpb, "lam": rng.randint(1, 5), "evalp": rng.choice([0.0, 0.7, 1.0]),
             "sel": [rng.randrange(64) for _ in range(rng.randint(2, 5))]}
        gens.append(g)
    d["gens"] = gens
    d["queries"] = [[rng.randrange(8), rng.choice([None, None, 0, 1, 2, 3])] for _ in range(3)]
    return d


def generate(tier, rng, mult):
    thorough = tier == "thorough"
    for rep in B.REPS:
        for dm, du in ((True, True), (True, False), (False, True)):
            for ngen in (1, 2, 3):
                for foreign in (False, True):
                    for _ in range(6 if thorough else 2):
                        yield mk_case(rng, rep, dm, du, ngen, foreign)
    for _ in range((4000 if thorough else 150) * mult):
        yield mk_case(rng)


def shrink(d):
    if len(d["gens"]) > 1:
        for i in range(len(d["gens"])):
            e = dict(d)
            e["gens"] = d["gens"][:i] + d["gens"][i + 1:]
            yield e
    if d.get("queries"):
        e = dict(d)
        e["queries"] = []
        yield e
    for key in ("mwrap", "uwrap"):
        if d.get(key):
            e = dict(d)
            e[key] = None
            yield e
    if d["init"]:
        e = dict(d)
        e["init"] = False
        yield e
    if any(s.get("hidx") is not None for s in d["inds"]):
        e = dict(d)
        e["inds"] = [{k: v for k, v in s.items() if k != "hidx"} for s in d["inds"]]
        yield e
    for i, g in enumerate(d["gens"]):
        if len(g.get("sel", [])) > 2:
            e = dict(d)
            e["gens"] = [dict(x) for x in d["gens"]]
            e["gens"][i]["sel"] = g["sel"][:-1]
            yield e
