"""C04 — Non-dominated sorting returns the exact Pareto ranking (deap/tools/emo.py)."""
import itertools
import math
from fractions import Fraction as Fr

from lib import Case
from deap import base
from deap.tools import emo

ANCHORS = [("deap/tools/emo.py", ["sortNondominated", "sortLogNondominated", "sortNDHelperA", "sortNDHelperB",
                                  "splitA", "splitB", "sweepA", "sweepB", "median", "identity", "isDominated"]),
           ("deap/base.py", ["Fitness"])]
LEVEL = "proof"
RULE = ("exhaustive part: every multiset of n individuals over {0,1,2}^m in one random order (all distinct orders only for "
        "n<=3 and m<=2), every k in 0..n+1, both first_front_only values, both procedures (log-time for m>=2), weight "
        "signs/magnitudes drawn per case -- quick: m<=2 complete for n<=4; m=3 complete for n<=3 plus a 6% random sample of the "
        "27405 multisets of n=4 -- thorough: n<=4 complete for m<=3, n=5 complete for m<=2 and a 40% sample for m=3. "
        "near-tie part: values 0..3 ulps apart around non-dyadic doubles (0.3 vs 0.1+0.2, 1000.004, ...), weights +-1, exact "
        "bit patterns transported as rationals, n<=12, m<=4. random part (families cycled round-robin, so every seed runs every "
        "family): n<=40, m<=6, grids of width 2/3/8, dyadic values, chains, antichains, duplicates, layers, one varying "
        "objective. large part: 7 populations per quick run (60 thorough) of 120..300 individuals, 3 or 4 objectives, "
        "dyadic leading objectives and a two- or three-valued last objective, k in {n//3, n+1}. Non-trivial = a population with at least two individuals")
EXHAUSTIVE = {"quick": False, "thorough": False}
TIME_BUDGET = {"quick": 55, "thorough": 840}
CASE_TIMEOUT = 5           # the largest case (300 individuals) takes ~0.5 s; 5 s without an answer is a hang
MIN_CASES = 2000
TRUSTED = ["IEEE-754: value*weight of the small dyadic inputs used here is exact, so the Rat model and the float "
           "implementation sort the same numbers",
           "CPython dict insertion order, list.sort/sorted stability, bisect.bisect_right, tuple comparison "
           "(modelled in Core/NDSort.lean and Core/Py.lean; exercised by every line)"]
ASSUMPTIONS = ["all fitnesses of a population have the same number of objectives (>= 1; >= 2 for sortLogNondominated), "
               "finite values (no NaN), non-zero weights, k >= 0",
               "weighted values small enough that the sum of two of them does not overflow (|v| < ~8.9e307): the median "
               "(a+b)/2.0 of sortLogNondominated becomes inf beyond that, splitA returns its input and the real code ends in "
               "RecursionError; the theorems are over an ordered field and do not see overflow",
               "individuals are distinct objects (an object listed twice is outside 'appearing once')"]
EXPLANATION = ("C04.sortStd_eq_peel and C04.sortLog_eq_peel prove that the models of sortNondominated and of "
               "sortLogNondominated (at least two objectives, ordered field) terminate and return the leading fronts of the "
               "Pareto ranking defined by peeling, for every population and k, hence always agree (C04.sortLog_eq_sortStd); the "
               "helper specifications (sweepA/sweepB/sortNDHelperA/sortNDHelperB) are theorems of their own; "
               "C04.ranking_unique / C04.checkRanking_sound additionally certify every complete output of both real "
               "procedures through the driver's checker; the correspondence ties the models of both procedures and the "
               "peeling spec to the real code.")


def sfr(q):
    q = Fr(q)
    return str(q.numerator) if q.denominator == 1 else "%d/%d" % (q.numerator, q.denominator)


_classes = {}


def fit_class(weights):
    key = tuple(weights)
    if key not in _classes:
        _classes[key] = type("Fit", (base.Fitness,), {"weights": tuple(float(w) for w in weights)})
    return _classes[key]


_cclasses = {}


def cfit_class(weights):
    """F39: a fitness class derived from base.ConstrainedFitness (feasible, evaluated fitnesses: a violation record
    that is absent or all-false).  ConstrainedFitness defines __eq__; before the repair that removed the inherited
    __hash__ and sortNondominated, which keys a dictionary on fitness objects, raised TypeError."""
    key = tuple(weights)
    if key not in _cclasses:
        _cclasses[key] = type("CFit", (base.ConstrainedFitness,), {"weights": tuple(float(w) for w in weights)})
    return _cclasses[key]


class Indiv(list):
    __slots__ = ("fitness",)


def xfloat(v):
    """value of an `extreme` case: a float literal such as '1.5e308', 'inf', '-inf', '5e-324'"""
    return float(v)


def build(d):
    w = [Fr(x) for x in d["w"]]
    F = fit_class(w)
    pop = []
    if d.get("extreme"):
        # F37: finite doubles near the overflow threshold, infinities and subnormals.  Built from float literals;
        # the weights of these cases are +-1, so the weighted values are the values up to sign.
        for vals in d["pop"]:
            ind = Indiv(xfloat(v) for v in vals)
            ind.fitness = F(tuple(xfloat(v) for v in vals))
            pop.append(ind)
        return pop
    if d.get("parent"):
        # HISTORY: the class under test derives from a class with OTHER weights that has been used (values assigned and
        # read, both procedures run) before; nothing remembered per fitness type may be found again through inheritance
        # (seeded change C04-r8m2 caches the float weights on the class)
        par = d["parent"]
        P = type("FitP", (base.Fitness,), {"weights": tuple(float(Fr(x)) for x in par["w"])})
        pp = []
        for vals in par["pop"]:
            ind = Indiv(float(Fr(v)) for v in vals)
            ind.fitness = P(tuple(float(Fr(v)) for v in vals))
            ind.fitness.values
            pp.append(ind)
        emo.sortNondominated(pp, len(pp))
        if len(par["w"]) >= 2:
            emo.sortLogNondominated(pp, len(pp))
        F = type("FitC", (P,), {"weights": tuple(float(x) for x in w)})
    if d.get("constrained"):
        CF = cfit_class(w)
        for j, vals in enumerate(d["pop"]):
            ind = Indiv(float(Fr(v)) for v in vals)
            cv = None if (d["constrained"] == "none" or (d["constrained"] == "mixed" and j % 2)) else [False] * (1 + j % 3)
            ind.fitness = CF(tuple(float(Fr(v)) for v in vals), cv)
            pop.append(ind)
        return pop
    for vals in d["pop"]:
        ind = Indiv(float(Fr(v)) for v in vals)
        ind.fitness = F(tuple(float(Fr(v)) for v in vals))
        pop.append(ind)
    return pop


def dom(a, b):
    """a dominates b on weighted values: nowhere worse, somewhere strictly better."""
    return all(x >= y for x, y in zip(a, b)) and any(x > y for x, y in zip(a, b))


def brute_depths(wv):
    """Dominance depth by peeling, written directly from the statement: repeatedly remove the individuals that no
    remaining individual dominates.  (The dominators of every individual are listed once, so that large populations
    stay affordable.)"""
    n = len(wv)
    dominators = [[j for j in range(n) if dom(wv[j], wv[i])] for i in range(n)]
    depth = [None] * n
    remaining = set(range(n))
    d = 0
    while remaining:
        front = [i for i in remaining if not any(j in remaining for j in dominators[i])]
        assert front
        for i in front:
            depth[i] = d
        remaining -= set(front)
        d += 1
    return depth


def fast_depths(wv):
    """the same peeling for populations of a thousand and more individuals: the dominance matrix is computed with
    numpy on the exact values (integers below 2**53 as float64 compare exactly), then peeled front by front"""
    import numpy
    a = numpy.array([[float(x) for x in t] for t in wv], dtype=float)
    assert all(Fr(float(x)) == x for t in wv for x in t)
    ge = (a[:, None, :] >= a[None, :, :]).all(axis=2)
    gt = (a[:, None, :] > a[None, :, :]).any(axis=2)
    dommat = ge & gt                      # dommat[j, i]: j dominates i
    n = len(wv)
    depth = numpy.full(n, -1)
    alive = numpy.ones(n, dtype=bool)
    d = 0
    while alive.any():
        dominated = (dommat & alive[:, None]).any(axis=0)
        front = alive & ~dominated
        assert front.any()
        depth[front] = d
        alive &= ~front
        d += 1
    return [int(x) for x in depth]


def canon(fronts, index_of):
    """fronts (list of lists of objects) -> list of sorted input indices; None on a foreign object"""
    out = []
    for f in fronts:
        ids = []
        for o in f:
            i = index_of.get(id(o))
            if i is None:
                return None
            ids.append(i)
        out.append(sorted(ids))
    return out


def show(fr):
    if not fr:
        return "[]"
    return ";".join(",".join(map(str, f)) if f else "-" for f in fr)


def check_result(name, res_ids, raw, k, ffo, depth, n, wv):
    """The property statement on one returned value.  res_ids = canonical fronts (with duplicates kept)."""
    if res_ids is None:
        return "%s(k=%d, first_front_only=%s) returned an object that is not one of the inputs" % (name, k, ffo)
    flat = [i for f in res_ids for i in f]
    if len(flat) != len(set(flat)):
        return "%s(k=%d, first_front_only=%s) returns an individual more than once: %s" % (name, k, ffo, show(res_ids))
    if k == 0:
        return None if raw == [] else "%s(k=0) returned %r instead of no fronts" % (name, raw)
    by_depth = {}
    for i, dd in enumerate(depth):
        by_depth.setdefault(dd, []).append(i)
    if ffo:
        want = [sorted(by_depth[0])]
    else:
        want, cnt, dd = [], 0, 0
        while cnt < min(k, n):
            want.append(sorted(by_depth[dd]))
            cnt += len(by_depth[dd])
            dd += 1
    if res_ids != want:
        return ("%s(k=%d, first_front_only=%s) returned fronts %s, the Pareto ranking by peeling gives %s"
                % (name, k, ffo, show(res_ids), show(want)))
    # equal fitness => same front (implied by the above; checked on its own as the statement names it)
    where = {}
    for fi, f in enumerate(res_ids):
        for i in f:
            where[i] = fi
    for i in where:
        for j in where:
            if wv[i] == wv[j] and where[i] != where[j]:
                return "%s: equal fitnesses %d,%d in different fronts" % (name, i, j)
    return None


def evaluate(d):
    if d.get("pre"):
        # HISTORY on the same objects: the individuals are first evaluated to other values and sorted by both
        # procedures, then RE-EVALUATED IN PLACE (`ind.fitness.values = new`, no `del` in between) and sorted again.
        # Nothing a fitness object remembers besides its weighted values may survive the assignment (seeded change
        # C04-r7m1 caches the weighted sum and resets it only in the deleter).
        pop = build(dict(d, pop=d["pre"]))
        emo.sortNondominated(pop, len(pop))
        if len(d["w"]) >= 2 and pop:
            emo.sortLogNondominated(pop, len(pop))
        for ind, vals in zip(pop, d["pop"]):
            ind.fitness.values = tuple(float(Fr(v)) for v in vals)
    else:
        pop = build(d)
    n = len(pop)
    m = len(d["w"])
    index_of = dict((id(o), i) for i, o in enumerate(pop))
    if d.get("extreme"):
        # The ranking depends only on the ORDER of the weighted values in each objective (C01.compare_order_invariant;
        # dominance is defined by per-objective comparisons), so the model and the brute-force oracle see the dense
        # ranks of the doubles — an order-isomorphic image that exists for infinities and needs no arithmetic.
        fw = [tuple(ind.fitness.wvalues) for ind in pop]
        if any(x != x for t in fw for x in t):
            return Case(d, [], [], oracle="weighted values contain nan (input outside the domain)", tag="inexact")
        wv = []
        ranks = []
        for j in range(m):
            col = sorted(set(t[j] for t in fw))
            ranks.append(dict((x, i) for i, x in enumerate(col)))
        wv = [tuple(Fr(ranks[j][t[j]]) for j in range(m)) for t in fw]
    else:
        wv = [tuple(Fr(x) for x in ind.fitness.wvalues) for ind in pop]
        # exactness of the transport: wvalues == value*weight as rationals
        for vals, t in zip(d["pop"], wv):
            if t != tuple(Fr(v) * Fr(w) for v, w in zip(vals, d["w"])):
                return Case(d, [], [], oracle="weighted values are not value*weight (inexact input)", tag="inexact")
    ptok = ";".join(",".join(sfr(x) for x in t) for t in wv) if wv else "-"
    ks, ffos = d["ks"], d["ffos"]
    ktok = ",".join(map(str, ks))
    ftok = ",".join("1" if f else "0" for f in ffos)
    depth = (fast_depths(wv) if d.get("light") else brute_depths(wv)) if n else []
    lines, expect, orc = [], [], None
    answers = {}
    procs = [p for p in d["procs"] if not (p == "log" and (m < 2 or n == 0))]
    if d.get("abort") is not None and n > 0:
        # call history: a sort of a twin population (equal fitness values, other objects) that is ABORTED by an
        # exception (one fitness cannot be compared: complex value), then the sorts under test.  The result of a
        # sort depends on its argument only, whatever happened in earlier calls.
        twin = build(d)
        bad = Indiv([0.0])
        bad.fitness = fit_class([Fr(x) for x in d["w"]])()
        bad.fitness.wvalues = (1j,) + (0.0,) * (m - 1)
        twin.insert(min(max(0, d["abort"]), n), bad)
        for proc in procs:
            fn = emo.sortNondominated if proc == "std" else emo.sortLogNondominated
            try:
                fn(twin, len(twin))
            except Exception:
                pass
    for proc in procs:
        fn = emo.sortNondominated if proc == "std" else emo.sortLogNondominated
        name = "sortNondominated" if proc == "std" else "sortLogNondominated"
        outs = []
        for k in ks:
            for ffo in ffos:
                raw = fn(pop, k, bool(ffo))
                if proc == "log" and ffo and k != 0:
                    fronts = [raw]            # the log-time procedure returns the bare first front
                else:
                    fronts = raw
                ids = canon(fronts, index_of)
                answers[(proc, k, ffo)] = ids
                outs.append("foreign" if ids is None else show(ids))
                if orc is None and n > 0:
                    orc = check_result(name, ids, raw, k, ffo, depth, n, wv)
        # `light` (>1000 individuals): the model of the quadratic procedure needs minutes there, the model of the
        # divide-and-conquer one a second; C04.sortLog_eq_sortStd proves them equal, so both implementations are
        # compared with the latter
        lines.append("C04 run %s %s %s %s" % ("log" if d.get("light") else proc, ptok, ktok, ftok))
        expect.append("|".join(outs))
        # certificate on the complete ranking
        if n > 0 and not d.get("light"):
            full = canon(fn(pop, n, False), index_of)
            if full is not None:
                lines.append("C04 cert %s %s" % (ptok, show(full)))
                expect.append("1")
    if "std" in procs and "log" in procs and orc is None:
        for k in ks:
            for ffo in ffos:
                if answers[("std", k, ffo)] != answers[("log", k, ffo)]:
                    orc = "the two procedures disagree for k=%d first_front_only=%s: %s vs %s" % (
                        k, ffo, show(answers[("std", k, ffo)]), show(answers[("log", k, ffo)]))
                    break
    # the peeling spec of the Lean side must give what the implementation gave
    if procs and n > 0 and not d.get("light"):
        lines.append("C04 run spec %s %s %s" % (ptok, ktok, ftok))
        expect.append(expect[0])
    return Case(d, lines, expect, orc, tag=d.get("tag", "?"), nontrivial=(n >= 2))


# ----------------------------------------------------------------------------------------------
# generators
# ----------------------------------------------------------------------------------------------

WCHOICES = ["1", "-1", "2", "-1/2"]


def rand_weights(rng, m):
    r = rng.random()
    if r < 0.2:
        return ["1"] * m
    if r < 0.4:
        return ["-1"] * m
    return [rng.choice(WCHOICES) for _ in range(m)]


def case(w, pop, ks, tag, procs=("std", "log"), ffos=(0, 1)):
    return {"w": list(w), "pop": [list(map(str, p)) for p in pop], "ks": list(ks), "ffos": list(ffos),
            "procs": list(procs), "tag": tag}


def exhaustive(tier, rng, mult):
    thorough = tier == "thorough"
    # the empty population: outside the statement (1..N individuals); model-vs-code only
    yield case(["1", "-1"], [], [0, 1, 2], "exh/empty", procs=("std",))
    for m in (1, 2, 3):
        points = list(itertools.product([0, 1, 2], repeat=m))
        nmax = 5 if thorough else 4
        for n in range(1, nmax + 1):
            combos = itertools.combinations_with_replacement(points, n)
            sample = None
            if m == 3 and n == 4 and not thorough:
                sample = 0.06 * mult
            if m == 3 and n == 5:
                sample = 0.4 * mult
            for c in combos:
                if sample is not None and rng.random() >= sample:
                    continue
                orders = [list(c)]
                if n <= 3 and m <= 2:
                    orders = [list(p) for p in sorted(set(itertools.permutations(c)))]
                else:
                    rng.shuffle(orders[0])
                for o in orders:
                    yield case(rand_weights(rng, m), o, range(0, n + 2), "exh/m=%d/n=%d" % (m, n))


def dyadic(rng):
    return sfr(Fr(rng.randint(-64, 64), rng.choice([1, 1, 2, 4, 8])))


KINDS = ["grid2", "grid3", "grid8", "dyadic", "chain", "antichain", "dups", "layers", "onecol", "grid3"]


def random_pop(rng, n, m, kind):
    if kind.startswith("grid"):
        wdt = int(kind[4:])
        pop = [[rng.randrange(wdt) for _ in range(m)] for _ in range(n)]
    elif kind == "dyadic":
        pop = [[dyadic(rng) for _ in range(m)] for _ in range(n)]
    elif kind == "chain":
        # every individual dominates the next one (ties in some objectives), shuffled
        cur = [rng.randint(0, 3) for _ in range(m)]
        pop = []
        for _ in range(n):
            pop.append(list(cur))
            if rng.random() < 0.15:
                continue                      # duplicate link
            j = rng.randrange(m)
            cur = [c + (1 if (i == j or rng.random() < 0.4) else 0) for i, c in enumerate(cur)]
        rng.shuffle(pop)
    elif kind == "antichain":
        # mutually non-dominated: first objective ascending, second descending, others tied/random-constant
        base_ = [rng.randint(0, 2) for _ in range(m)]
        pop = []
        for i in range(n):
            p = list(base_)
            p[0] = i
            if m >= 2:
                p[1] = n - i
            pop.append(p)
        rng.shuffle(pop)
    elif kind == "dups":
        pts = [[rng.randrange(3) for _ in range(m)] for _ in range(max(1, n // 4))]
        pop = [list(rng.choice(pts)) for _ in range(n)]
    elif kind == "layers":
        # several antichains stacked: known deep ranking with ties across objectives
        pop = []
        for i in range(n):
            layer = rng.randrange(4)
            p = [rng.randrange(3) + 3 * layer for _ in range(m)]
            pop.append(p)
    else:
        # all but one objective constant (forces the "objective is constant" branches)
        cst = [rng.randrange(2) for _ in range(m)]
        j = rng.randrange(m)
        pop = []
        for i in range(n):
            p = list(cst)
            p[j] = rng.randrange(5)
            if m >= 2 and rng.random() < 0.3:
                p[(j + 1) % m] = rng.randrange(2)
            pop.append(p)
    return kind, pop


def random_cases(tier, rng, mult):
    thorough = tier == "thorough"
    count = (12000 if thorough else 1300) * mult
    ms = [2, 3, 1, 2, 4, 3, 5, 2, 6, 3, 2]
    for it in range(count):
        m = ms[it % len(ms)]
        n = rng.choice([1, 2, 3, 5, 6, 8, 10, 12, 16, 20, 25, 30, 40]) if rng.random() < 0.8 else rng.randint(1, 40)
        kind, pop = random_pop(rng, n, m, KINDS[it % len(KINDS)])
        ks = sorted(set([0, 1, n - 1, n, n + 1, rng.randint(0, n + 1), rng.randint(0, n + 1), max(0, n // 2)]))
        ks = [k for k in ks if k >= 0]
        c = case(rand_weights(rng, m), pop, ks, "rand/%s/m=%d" % (kind, m))
        if it % 8 == 3:                      # every eighth case runs after an aborted sort of a twin population
            c["abort"] = n if rng.random() < 0.7 else rng.randint(0, n)
            c["ks"] = sorted(c["ks"], reverse=True)      # the complete ranking is asked first, right after the abort
            c["tag"] += "/after-abort"
        yield c


NEAR_BASES = [0.3, 0.1 + 0.2, 0.7, 1.1, 2.675, 1e-3, 1000.004, 123456.789]


def ulps(x, j):
    for _ in range(abs(j)):
        x = math.nextafter(x, math.inf if j > 0 else -math.inf)
    return x


def neartie_cases(tier, rng, mult):
    """values a few ulps apart (never exactly representable as small dyadics): a tolerance in any comparison of the
    sorting code changes the ranking here; the model compares the exact bit patterns as rationals"""
    count = (4000 if tier == "thorough" else 420) * mult
    ms = [2, 3, 2, 4, 1, 2, 3]
    for it in range(count):
        m = ms[it % len(ms)]
        n = [2, 3, 4, 6, 8, 12][it % 6]
        bases = [rng.sample(NEAR_BASES, 2) for _ in range(m)]
        pop = []
        for _ in range(n):
            pop.append([sfr(Fr(ulps(rng.choice(bases[i]), rng.randint(-3, 3) if rng.random() < 0.8 else 0)))
                        for i in range(m)])
        w = [rng.choice(["1", "-1"]) for _ in range(m)]
        ks = list(range(0, n + 2)) if n <= 6 else sorted(set([0, 1, n // 2, n - 1, n, n + 1]))
        yield case(w, pop, ks, "neartie/m=%d" % m)


def large_cases(tier, rng, mult):
    """populations far beyond any "small input" shortcut (120..300 individuals), 3 or 4 objectives, the last one or two
    objectives taking only two or three values: large groups that are constant on the last objective reach the
    lower-dimensional sweeps with ranks already raised from outside the group"""
    count = (60 if tier == "thorough" else 7) * mult
    for it in range(count):
        n = [200, 120, 300, 200, 160, 250, 200][it % 7]
        m = [3, 3, 3, 4, 3, 4, 3][it % 7]
        lastvals = [2, 2, 3, 2, 2, 3, 2][it % 7]
        res = [1 << 20, 1 << 20, 64, 1 << 20, 16, 1 << 20, 1 << 20][it % 7]     # resolution of the leading objectives
        pop = []
        for _ in range(n):
            q = [sfr(Fr(rng.randrange(res), res)) for _ in range(m - 1)] + [rng.randrange(lastvals)]
            if m == 4 and it % 2 == 1:
                q[2] = rng.randrange(2)
            pop.append(q)
        w = rand_weights(rng, m)
        ks = sorted(set([n // 3, n + 1]))
        yield case(w, pop, ks, "large/n=%d/m=%d" % (n, m), ffos=(0,))


def block_cases(tier, rng, mult):
    """populations of MORE THAN A THOUSAND distinct fitnesses asked for the first front only (and for a few leading
    fronts): size-dependent short cuts (block-wise filtering, chunked vectorisation — seeded change C04-r7m2 filters
    blocks of 1024 and never re-tests earlier survivors) are invisible below their block size.  `light`: only the
    requested fronts are compared with the model, no certificate of the complete ranking (that is the other streams' job)."""
    count = (4 if tier == "thorough" else 1) * mult
    for it in range(count):
        n = rng.choice([1100, 1300, 1600]) if tier != "thorough" else rng.choice([1100, 1700, 2300, 2600])
        m = 2 if it % 2 == 0 else 3
        res = 1 << 20
        pop = [[rng.randrange(res) for _ in range(m)] for _ in range(n)]
        w = [rng.choice(["1", "-1"]) for _ in range(m)]
        yield dict(case(w, pop, [n], "blocks/n=%d/m=%d" % (n, m), ffos=(1,)), light=1)


XVALS = ["1.4e308", "1.5e308", "1.6e308", "1.7e308", "1.7976931348623157e308", "-1.4e308", "-1.5e308", "-1.7e308",
         "-1.7976931348623157e308", "inf", "-inf", "0.0", "1.0", "-1.0", "5e-324", "1e-323", "1.5e-323", "-5e-324",
         "2.2250738585072014e-308", "8.9e307", "9e307"]


def extreme_cases(tier, rng, mult):
    """F37 (fixed): `median` computed (a+b)/2.0, which overflows to inf for finite values beyond 9e307 and is nan for
    -inf/+inf; every element then fell on one side of the split and sortLogNondominated recursed until RecursionError.
    Populations whose objectives hold finite doubles near the overflow threshold, infinities and subnormals (the
    halved median must not underflow below both middle values either), in every objective position."""
    fixed = [
        (["1", "1", "1"], [["0.0", "1.0", "1.5e308"], ["1.0", "0.0", "1.6e308"], ["0.0", "2.0", "1.7e308"], ["2.0", "0.0", "1.4e308"]]),
        (["1", "1", "1"], [["0.0", "1.0", "-inf"], ["1.0", "0.0", "-inf"], ["0.0", "2.0", "inf"], ["2.0", "0.0", "inf"]]),
        (["1", "1", "-1"], [["3.0", "3.0", "inf"], ["0.0", "0.0", "5.0"], ["1.0", "4.0", "inf"], ["4.0", "1.0", "inf"]]),
        (["-1", "1", "1"], [["0.0", "1.0", "5e-324"], ["1.0", "0.0", "5e-324"], ["0.0", "2.0", "5e-324"], ["2.0", "0.0", "1.0"]]),
        (["1", "-1", "1"], [["0.0", "1.0", "-1.5e308"], ["1.0", "0.0", "1.7e308"], ["0.0", "2.0", "-1.7e308"], ["2.0", "0.0", "1.5e308"]]),
    ]
    for w, pop in fixed:
        yield dict(case(w, pop, range(0, len(pop) + 2), "extreme/fixed"), extreme=1)
    count = int((40 if tier != "thorough" else 600) * mult)
    for _ in range(count):
        m = rng.choice([2, 3, 3, 4, 5])
        n = rng.choice([3, 4, 4, 5, 6, 8, 11])
        w = [rng.choice(["1", "-1"]) for _ in range(m)]
        pool = rng.sample(XVALS, rng.choice([2, 3, 4, 6]))
        xcols = set(rng.sample(range(m), rng.choice([1, 1, 2, m])))
        pop = [[rng.choice(pool) if j in xcols else rng.choice(["0.0", "1.0", "2.0", "3.0"]) for j in range(m)]
               for _ in range(n)]
        yield dict(case(w, pop, sorted(set([0, 1, n // 2, n, n + 1])), "extreme/m=%d" % m), extreme=1)


def constrained_cases(tier, rng, mult):
    """F39: populations of feasible evaluated ConstrainedFitness individuals through both procedures"""
    count = int((30 if tier != "thorough" else 400) * mult)
    for it in range(count):
        m = rng.choice([2, 2, 3, 4])
        n = rng.choice([1, 2, 3, 4, 5, 6, 8])
        pop = random_pop(rng, n, m, rng.choice(["grid", "dup", "chain"])) if False else [[rng.randrange(4) for _ in range(m)] for _ in range(n)]
        yield dict(case(rand_weights(rng, m), pop, sorted(set([0, 1, n // 2, n, n + 1])), "constrained/m=%d" % m),
                   constrained=["false", "none", "mixed"][it % 3])


def family_cases(tier, rng, mult):
    """HISTORY stream: the fitness class of the population derives from a class of another weight vector (other signs,
    possibly another number of objectives) that was used first."""
    count = int((40 if tier != "thorough" else 500) * mult)
    for it in range(count):
        m = rng.choice([2, 2, 3, 4])
        mp = m if it % 3 else rng.choice([1, 2, 3])
        n = rng.choice([2, 3, 4, 5, 6, 8])
        pop = [[rng.randrange(4) for _ in range(m)] for _ in range(n)]
        w = rand_weights(rng, m)
        pw = rand_weights(rng, mp)
        if mp == m and it % 2 == 0:          # the parent maximises where the child minimises
            pw = [x[1:] if x.startswith("-") else "-" + x for x in w]
        par = {"w": pw, "pop": [[str(rng.randrange(4)) for _ in range(mp)] for _ in range(rng.choice([2, 3, 4]))]}
        yield dict(case(w, pop, sorted(set([0, 1, n // 2, n, n + 1])), "family/m=%d<-%d" % (m, mp)), parent=par)


def reeval_cases(tier, rng, mult):
    """HISTORY stream: sort, re-evaluate the same objects in place, sort again"""
    yield dict(case(["1", "-1", "1"], [[4, 2, 4], [0, 1, 3], [1, 4, 1], [3, 0, 2], [3, 3, 0]], range(0, 7), "reeval/fixed"),
               pre=[["1", "4", "2"], ["1", "3", "2"], ["4", "1", "3"], ["2", "3", "4"], ["4", "1", "2"]])
    count = int((60 if tier != "thorough" else 800) * mult)
    for it in range(count):
        m = rng.choice([2, 2, 3, 4])
        n = rng.choice([2, 3, 4, 5, 6, 8])
        pop = [[rng.randrange(5) for _ in range(m)] for _ in range(n)]
        pre = [[str(rng.randrange(5)) for _ in range(m)] for _ in range(n)]
        yield dict(case(rand_weights(rng, m), pop, sorted(set([0, 1, n // 2, n, n + 1])), "reeval/m=%d" % m), pre=pre)


def generate(tier, rng, mult):
    for c in reeval_cases(tier, rng, mult):
        yield c
    for c in constrained_cases(tier, rng, mult):
        yield c
    for c in family_cases(tier, rng, mult):
        yield c
    # F37 stream first: it carries the clause "both procedures return the ranking" at extreme magnitudes
    for c in extreme_cases(tier, rng, mult):
        yield c
    for c in block_cases(tier, rng, mult):
        yield c
    # interleave so that a time-limited run sees all parts
    ex = exhaustive(tier, rng, mult)
    rd = random_cases(tier, rng, mult)
    nt = neartie_cases(tier, rng, mult)
    lg = large_cases(tier, rng, mult)
    # one large population every ~1200 cases: the seven of a quick run are spread over the whole run
    alive = [ex, nt, rd]
    ratio = [24, 1, 2]
    produced = 0
    period = 1200 if tier != "thorough" else 1800
    while alive:
        for g, r in list(zip(alive, ratio)):
            for _ in range(r):
                try:
                    yield next(g)
                    produced += 1
                    if lg is not None and produced % period == 1:
                        try:
                            yield next(lg)
                        except StopIteration:
                            lg = None
                except StopIteration:
                    i = alive.index(g)
                    alive.pop(i)
                    ratio.pop(i)
                    break
    if lg is not None:
        for c in lg:
            yield c


def shrink(d):
    n = len(d["pop"])
    if n > 1:
        for i in range(n):
            e = dict(d)
            e["pop"] = d["pop"][:i] + d["pop"][i + 1:]
            e["ks"] = sorted(set(min(k, n) for k in d["ks"]))
            yield e
    if len(d["ks"]) > 1:
        for k in d["ks"]:
            e = dict(d)
            e["ks"] = [k]
            yield e
    if len(d["ffos"]) > 1:
        for f in d["ffos"]:
            e = dict(d)
            e["ffos"] = [f]
            yield e
    if len(d["w"]) > 2:
        for j in range(len(d["w"])):
            e = dict(d)
            e["w"] = d["w"][:j] + d["w"][j + 1:]
            e["pop"] = [p[:j] + p[j + 1:] for p in d["pop"]]
            yield e
    for i, p in enumerate(d["pop"]):
        for j, x in enumerate(p):
            if x not in ("0", "1", "2") and not d.get("tag", "").startswith("neartie"):
                for r in ("0", "1", "2"):
                    e = dict(d)
                    e["pop"] = [list(q) for q in d["pop"]]
                    e["pop"][i][j] = r
                    yield e
    if any(w != "1" for w in d["w"]):
        e = dict(d)
        e["w"] = ["1"] * len(d["w"])
        yield e


def classify(desc, msg, known):
    return None
