"""C20 — benchmark functions equal their published definitions and optima
(deap/benchmarks/__init__.py, binary.py, gp.py, movingpeaks.py, tools.py).

Real-valued regime: the `Float` instance of the published-definition models (Core/Bench*.lean,
Core/MovingPeaks.lean) is compared with the real functions with relative tolerance 1e-9 (floats travel
as bit patterns).  Binary functions and the decorators on dyadic inputs are compared exactly.
The oracle is written from the statement: an independent numpy/Fraction transcription of every
published formula, the documented optimum at its tabulated location, the DTLZ/ZDT front identities,
"the wrapped function receives the inversely transformed individual", "moving-peaks value = max of the
separately evaluated peak functions", "peak count within its limits"."""
import functools
import itertools
import math
import random as _pyrandom
from fractions import Fraction as Fr

import numpy

from lib import Case, fbits
from deap import benchmarks
from deap.benchmarks import binary, gp, movingpeaks
from deap.benchmarks import tools as btools

ANCHORS = [("deap/benchmarks/__init__.py", []), ("deap/benchmarks/binary.py", []),
           ("deap/benchmarks/gp.py", []),
           ("deap/benchmarks/movingpeaks.py", ["cone", "sphere", "function1", "MovingPeaks", "diversity"]),
           ("deap/benchmarks/tools.py", ["translate", "rotate", "noise", "scale", "bound", "diversity", "convergence",
                                         "hypervolume", "igd"])]
LEVEL = "proof"
STRENGTH = "partial"
MIN_CASES = 5000
RULE = ("continuous/gp/multi-objective: every function x dimensions 0..30 as it allows (DTLZ: 2..6 objectives, "
        "n >= M-1) x random points of the documented range + its corners + the documented optimum; binary: "
        "exhaustive bit strings up to 9 bits quick / 12 bits thorough + random 13..80-bit strings (royal-road block "
        "widths up to 100 bits); bin2float: bit widths 1..64 x ranges; decorators: recording wrapped function, dyadic vectors, "
        "permutation / signed / exact-angle / QR rotation matrices, power-of-two and general scale factors; moving "
        "peaks: evaluation over the whole configuration space (heights / widths of either sign, zero widths, basis below, "
        "between or above the peaks, points on / next to peak centres); the three standard scenarios and inverted / "
        "around-zero variants, fixed and fluctuating peak numbers, recorded tape, 50 changes; counted "
        "evaluations (nevals, change exactly when period > 0 and nevals % period == 0) with periods -3..10; "
        "object histories (c20_more.py): 1..3 MovingPeaks objects built from ONE scenario dictionary / ONE pfunc list or tuple "
        "(one function, a list of exactly npeaks functions, a longer pool -> random.sample, a shorter one -> rejected), own or "
        "shared random source, 8..40 interleaved changePeaks / evaluations / counted evaluations (offline error), every object "
        "checked after every action, the caller's list / dictionary checked for modification; decorators re-parameterised "
        "through .translate/.rotate/.scale/.noise (alone and stacked) with fresh / re-used / in-place refilled lists, tuples, "
        "numpy arrays and lists of rows (exact and QR matrices); globalMaximum / maximums / diversity(population); the quality "
        "indicators diversity / convergence / igd / hypervolume of benchmarks.tools. "
        "Non-trivial = distinct case that is not a rejected (error) input")
EXHAUSTIVE = {"quick": False, "thorough": False}
TIME_BUDGET = {"quick": 60, "thorough": 900}
TRUSTED = ["IEEE-754 / libm: the Float instance of the model calls the same correctly rounded +,-,*,/,sqrt and the "
           "platform's exp/log/sin/cos/pow; agreement is asserted only within 1e-9 relative (rounding is not modelled; "
           "CPython 3.12 sums floats with compensation, the model sums naively)",
           "numpy.linalg.inv as a parameter with the contract inv(R) R = I (rotate); numpy.dot as row inner products",
           "random.random/uniform/gauss/randrange/choice/sample as sources of arbitrary draws (recorded tape)",
           "scipy.spatial.distance.cdist (igd): scipy is not installed in this sandbox, the harness lends benchmarks.tools a "
           "numpy stand-in with the contract cdist(A, Z)[i][j] = |A_i - Z_j| (a parameter of the model); with scipy present "
           "the real function is used",
           "math.hypot as sqrt(a^2 + b^2) (diversity)",
           "translator tie: the rendering rules of harness/py2lean.py (its docstring lists the accepted Python sub-language and how each "
           "construct is rendered) and the prelude lean/DeapModel/Core/GenPrelude.lean (Python's slices, negative indices, range, enumerate, "
           "int -> float coercion, literal powers) are trusted; float literals are read from the SOURCE TEXT as exact decimals (decimal.Decimal, "
           "checked to round to the parsed constant), never through repr; the parameter types come from the signature table of "
           "harness/props/c20_translate.py (individual / data / position = list of floats, obj / n_objs = int, binary individuals = list of ints); "
           "exceptions of float operations (x / 0.0, sqrt of a negative, overflow) are not rendered.  With it the hand-written models of the 65 "
           "translated definitions (all 33 functions of benchmarks/__init__.py incl. rand on its tape, the 8 gp targets, cone / sphere / function1, "
           "MovingPeaks.__call__(count=False) / globalMaximum / maximums / offlineError, trap / inv_trap / chuang_f1-3 / royal_road1-2 / bin2float, "
           "the methods of the decorator classes translate / scale and bound._clip/_wrap/_mirror) are tied to the "
           "source BY PROOF (Gen.<f>_eq_model, re-checked by the kernel against the definitions regenerated from the current source on every "
           "run).  Round-8 rules that are trusted beyond the first set (py2lean docstring, ROUND 8): int(''.join(map(str, bits)), 2) as the binary "
           "numeral of a 0/1 list (other elements are outside the rendering), int ** int for a non-negative exponent, `while` as fuel-bounded "
           "iteration whose bound the theorem states, x[i] = v on an unaliased local list in state-passing style, short-circuit and / or, "
           "methods as functions of the declared fields (fields hold values, not references; MovingPeaks' four parallel per-peak lists are the "
           "columns of the model's list of peak records; peak functions are an enumeration of cone / sphere / function1; the basis function is "
           "None or a total pure function), decorator factories / decorator methods as the value handed to the wrapped function, "
           "random.random() in straight-line code as the next draw of a tape.  The remaining code (MovingPeaks.__init__ / changePeaks / the "
           "count=True bookkeeping of __call__ / currentError, rotate, noise, bound.__init__ / __call__, the quality indicators, the module-level "
           "diversity of movingpeaks.py) is tied by the differential correspondence only"]
ASSUMPTIONS = ["inputs are finite doubles in (or near) the documented range, as Python lists or numpy arrays",
               "binary individuals are sequences of the ints 0/1 (the source rejects True/False and 1.0/0.0 through "
               "int(''.join(map(str, ...)), 2)); the model type for them is List Bool",
               "readings (DESIGN section 6): where a docstring and the cited source disagree the cited source is the published "
               "definition — rastrigin_skew uses cos(2 pi y_i) (Hansen & Kern 2004), movingpeaks.function1 is h / (1 + w |x-p|^2) "
               "(Branke 1999, no square root), chuang_f3's optima are 0...0 and 11 0...0 11 (not all ones)",
               "theorems are over the reals / exact rationals; equality of each float function with its definition is a "
               "tolerance correspondence (partial)",
               "decorator histories: an argument object is changed in place only in order to be passed to the setter again "
               "(what an object modified behind the decorator's back means is not fixed by the statement: translate keeps the "
               "caller's vector by reference, scale and rotate keep derived copies); one-shot iterators are not vectors",
               "moving-peaks objects: peak functions are cone / function1 / sphere of the module; a list of peak functions "
               "shorter than the number of peaks is rejected by the constructor (random.sample raises), which is not a failure",
               "the quality indicators of benchmarks.tools and MovingPeaks.globalMaximum / maximums / offlineError / "
               "diversity(population) are not named by the statement: they are covered by model-vs-implementation comparison "
               "(a difference is reported as a correspondence break), not by the oracle"]
EXPLANATION = ("Front identities (DTLZ1 sum, DTLZ2-6 norm, ZDT f2 = g h), the exactly documented optima, the binary "
               "optima, bin2float range, decorator arguments and the moving-peaks max / count invariant are Lean "
               "theorems over R / Q for all dimensions, objective counts, tapes and histories; the models are tied to "
               "deap.benchmarks by this differential run; optima documented to a few decimals are numeric tests only.  "
               "Benchmark objects are modelled with value semantics (MovingPeaks.init / Bench.step / World.run): the count "
               "invariant and evaluation = max hold along every history of every object built by any of the constructor's "
               "three pfunc paths, and objects built from the same arguments are independent (mp_instances_independent) - "
               "the mpworld stream checks that the implementation shares nothing either; decorator setters install the "
               "parameter in force (translate/scale/rotate_history), checked with re-used and in-place refilled arguments.  "
               "Translator tie: the bodies of 65 benchmark functions / methods are regenerated from the current source as Lean definitions (harness/py2lean.py) "
               "and proved equal to the hand-written models over R / on bit lists on all inputs (lean/DeapModel/GenEq/C20.lean.tmpl, 102 theorems audited with the "
               "others); a changed formula breaks an obligation whatever its size, a behaviour-preserving algebraic rewrite re-proves.  The table of "
               "translated / refused functions of this run is evidence/C20.translated.json.")

def translate(repo):
    """translator tie (lib._translated_obligations): Lean definitions regenerated from `repo`'s current source + the
    committed theorems `Gen.<f> = Bench.<f>` of lean/DeapModel/GenEq/C20.lean.tmpl (harness/py2lean.py)"""
    from props import c20_translate
    import json
    import os
    import lib
    tr = c20_translate.translate(repo)
    # the table "every public function of the five files: translated (with / without theorem) or refused (reason)";
    # lib keeps res["translated"] in memory only, so the table is also written next to the evidence file
    try:
        os.makedirs(os.path.join(lib.OUT, "evidence"), exist_ok=True)
        with open(os.path.join(lib.OUT, "evidence", "C20.translated.json"), "w") as fh:
            json.dump({"definitions": len(tr["definitions"]), "theorems": len(tr["theorems"]),
                       "refused": len(tr["refused"]), "problems": tr["problems"],
                       "functions": [dict(file=f, name=n, status=st, detail=d) for f, n, st, d in tr["table"]],
                       "theorem_names": tr["theorems"]}, fh, indent=1)
            fh.write("\n")
    except OSError:
        pass
    return tr


TOL = 1e-9
pi = math.pi
numpy.seterr(all="ignore")


# ------------------------------------------------------------------------------------------
# formatting
# ------------------------------------------------------------------------------------------
def fl(xs):
    xs = list(xs)
    return ",".join(fbits(x) for x in xs) if xs else "-"


def fl2(rows):
    rows = list(rows)
    return ";".join(fl(r) for r in rows) if rows else "-"


def sfr(q):
    q = Fr(q)
    return str(q.numerator) if q.denominator == 1 else "%d/%d" % (q.numerator, q.denominator)


def close(a, b, rel=1e-9, abs_=1e-9):
    a, b = float(a), float(b)
    if a != a or b != b:
        return False
    if math.isinf(a) or math.isinf(b):
        return a == b
    return abs(a - b) <= max(abs_, rel * max(abs(a), abs(b)))


# ------------------------------------------------------------------------------------------
# reference formulas, written from the docstrings / cited papers (numpy; independent of the model)
# ------------------------------------------------------------------------------------------
def A(x):
    return numpy.asarray(x, dtype=float)


def r_ackley(x):
    x = A(x); n = len(x)
    return 20 - 20 * math.exp(-0.2 * math.sqrt(numpy.sum(x ** 2) / n)) + math.e - math.exp(numpy.sum(numpy.cos(2 * pi * x)) / n)


def r_boha(x):
    x = A(x); a, b = x[:-1], x[1:]
    return float(numpy.sum(a ** 2 + 2 * b ** 2 - 0.3 * numpy.cos(3 * pi * a) - 0.4 * numpy.cos(4 * pi * b) + 0.7))


def r_griewank(x):
    x = A(x); i = numpy.arange(1, len(x) + 1)
    return float(numpy.sum(x ** 2) / 4000.0 - numpy.prod(numpy.cos(x / numpy.sqrt(i))) + 1)


def r_rast_scaled(x):
    x = A(x); n = len(x)
    s = 10.0 ** (numpy.arange(n) / (n - 1.0)) if n > 1 else numpy.ones(n)
    y = s * x
    return float(10 * n + numpy.sum(y ** 2 - 10 * numpy.cos(2 * pi * y)))


def r_rast_skew(x):
    # Hansen & Kern 2004: y_i = 10 x_i if x_i > 0 else x_i, f = 10 n + sum(y_i^2 - 10 cos(2 pi y_i))
    x = A(x); y = numpy.where(x > 0, 10 * x, x)
    return float(10 * len(x) + numpy.sum(y ** 2 - 10 * numpy.cos(2 * pi * y)))


def r_schaffer(x):
    x = A(x); r = x[:-1] ** 2 + x[1:] ** 2
    return float(numpy.sum(r ** 0.25 * (numpy.sin(50 * r ** 0.1) ** 2 + 1.0)))


def r_h1(x):
    return (math.sin(x[0] - x[1] / 8) ** 2 + math.sin(x[1] + x[0] / 8) ** 2) / \
        (math.sqrt((x[0] - 8.6998) ** 2 + (x[1] - 6.7665) ** 2) + 1)


def r_salu(x):
    return math.exp(-x) * x ** 3 * math.cos(x) * math.sin(x) * (math.cos(x) * math.sin(x) ** 2 - 1)


REF1 = {
    "plane": lambda x: x[0],
    "sphere": lambda x: float(numpy.sum(A(x) ** 2)),
    "cigar": lambda x: x[0] ** 2 + 1e6 * float(numpy.sum(A(x[1:]) ** 2)),
    "rosenbrock": lambda x: float(numpy.sum((1 - A(x)[:-1]) ** 2 + 100 * (A(x)[1:] - A(x)[:-1] ** 2) ** 2)),
    "h1": r_h1,
    "ackley": r_ackley,
    "bohachevsky": r_boha,
    "griewank": r_griewank,
    "rastrigin": lambda x: float(10 * len(x) + numpy.sum(A(x) ** 2 - 10 * numpy.cos(2 * pi * A(x)))),
    "rastrigin_scaled": r_rast_scaled,
    "rastrigin_skew": r_rast_skew,
    "schaffer": r_schaffer,
    "schwefel": lambda x: float(418.9828872724339 * len(x) - numpy.sum(A(x) * numpy.sin(numpy.sqrt(numpy.abs(A(x)))))),
    "himmelblau": lambda x: (x[0] ** 2 + x[1] - 11) ** 2 + (x[0] + x[1] ** 2 - 7) ** 2,
    "kotanchek": lambda x: math.exp(-(x[0] - 1) ** 2) / (3.2 + (x[1] - 2.5) ** 2),
    "salustowicz_1d": lambda x: r_salu(x[0]),
    "salustowicz_2d": lambda x: r_salu(x[0]) * (x[1] - 5),
    "unwrapped_ball": lambda x: 10.0 / (5.0 + float(numpy.sum((A(x) - 3) ** 2))),
    "rational_polynomial": lambda x: 30.0 * (x[0] - 1) * (x[2] - 1) / (x[1] ** 2 * (x[0] - 10)),
    "sin_cos": lambda x: 6 * math.sin(x[0]) * math.cos(x[1]),
    "ripple": lambda x: (x[0] - 3) * (x[1] - 3) + 2 * math.sin((x[0] - 4) * (x[1] - 4)),
    "rational_polynomial2": lambda x: ((x[0] - 3) ** 4 + (x[1] - 3) ** 3 - (x[1] - 3)) / ((x[1] - 2) ** 4 + 10),
}

IMPL1 = {n: getattr(benchmarks, n) for n in
         ["plane", "sphere", "cigar", "rosenbrock", "h1", "ackley", "bohachevsky", "griewank", "rastrigin",
          "rastrigin_scaled", "rastrigin_skew", "schaffer", "schwefel", "himmelblau"]}
GPNAMES = ["kotanchek", "salustowicz_1d", "salustowicz_2d", "unwrapped_ball", "rational_polynomial", "sin_cos",
           "ripple", "rational_polynomial2"]
for _n in GPNAMES:
    IMPL1[_n] = getattr(gp, _n)

# name -> (lo, hi, dims)   documented range ("none" -> a generic box), admissible dimensions
DOM1 = {
    "plane": (-100, 100, range(0, 31)), "sphere": (-10, 10, range(0, 31)), "cigar": (-10, 10, range(0, 31)),
    "rosenbrock": (-3, 3, range(0, 31)), "h1": (-100, 100, [2]), "ackley": (-15, 30, range(0, 31)),
    "bohachevsky": (-100, 100, range(0, 31)), "griewank": (-600, 600, range(0, 31)),
    "rastrigin": (-5.12, 5.12, range(0, 31)), "rastrigin_scaled": (-5.12, 5.12, range(0, 31)),
    "rastrigin_skew": (-5.12, 5.12, range(0, 31)), "schaffer": (-100, 100, range(0, 31)),
    "schwefel": (-500, 500, range(0, 31)), "himmelblau": (-6, 6, [2]),
    "kotanchek": (-1, 7, [2]), "salustowicz_1d": (0, 10, [1]), "salustowicz_2d": (0, 7, [2]),
    "unwrapped_ball": (-2, 8, range(0, 31)), "rational_polynomial": (0, 2, [3]), "sin_cos": (0, 6, [2]),
    "ripple": (-5, 5, [2]), "rational_polynomial2": (0, 6, [2]),
}

# documented optima: name -> list of (location(n), documented value, absolute tolerance, dims).
# Tolerance 1e-9: the location is exact and the theorem proves the value; looser = the documentation
# tabulates the location only to a few decimals, so this is a numeric test.
OPT1 = {
    "plane": [(lambda n: [0.0] * n, 0.0, 1e-12, range(1, 31))],
    "sphere": [(lambda n: [0.0] * n, 0.0, 1e-12, range(1, 31))],
    "cigar": [(lambda n: [0.0] * n, 0.0, 1e-12, range(1, 31))],
    "rosenbrock": [(lambda n: [1.0] * n, 0.0, 1e-12, range(1, 31))],
    "ackley": [(lambda n: [0.0] * n, 0.0, 1e-12, range(1, 31))],
    "bohachevsky": [(lambda n: [0.0] * n, 0.0, 1e-12 * 30, range(1, 31))],
    "griewank": [(lambda n: [0.0] * n, 0.0, 1e-12, range(1, 31))],
    "rastrigin": [(lambda n: [0.0] * n, 0.0, 1e-12, range(1, 31))],
    "rastrigin_scaled": [(lambda n: [0.0] * n, 0.0, 1e-12, range(2, 31))],
    "rastrigin_skew": [(lambda n: [0.0] * n, 0.0, 1e-12, range(1, 31))],
    "schaffer": [(lambda n: [0.0] * n, 0.0, 1e-12, range(1, 31))],
    "schwefel": [(lambda n: [420.96874636] * n, 0.0, 1e-3, range(1, 31))],
    "himmelblau": [(lambda n: [3.0, 2.0], 0.0, 1e-12, [2]),
                   (lambda n: [-2.805118, 3.131312], 0.0, 1e-3, [2]),
                   (lambda n: [-3.779310, -3.283186], 0.0, 1e-3, [2]),
                   (lambda n: [3.584428, -1.848126], 0.0, 1e-3, [2])],
    "h1": [(lambda n: [8.6998, 6.7665], 2.0, 1e-3, [2])],
}
# functions whose value at the documented optimum is a small difference of large terms
CANCEL = {"schwefel": "418.98 N - sum: result ~1e-4 from terms ~1e4 (catastrophic cancellation at the optimum)",
          "himmelblau": "squares of residuals ~1e-6 at the rounded optima",
          "ackley": "20 - 20 e^.. + e - e^..: result ~1e-15 from terms ~20"}


# ---- multi-objective references --------------------------------------------------------------
def g_zdt(x):
    return 1 + 9.0 / (len(x) - 1) * sum(x[1:])


def r_zdt1(x):
    g = g_zdt(x); return [x[0], g * (1 - math.sqrt(x[0] / g))]


def r_zdt2(x):
    g = g_zdt(x); return [x[0], g * (1 - (x[0] / g) ** 2)]


def r_zdt3(x):
    g = g_zdt(x); return [x[0], g * (1 - math.sqrt(x[0] / g) - x[0] / g * math.sin(10 * pi * x[0]))]


def r_zdt4(x):
    g = 1 + 10 * (len(x) - 1) + sum(v ** 2 - 10 * math.cos(4 * pi * v) for v in x[1:])
    return [x[0], g * (1 - math.sqrt(x[0] / g))]


def r_zdt6(x):
    g = 1 + 9 * (sum(x[1:]) / (len(x) - 1)) ** 0.25
    f1 = 1 - math.exp(-4 * x[0]) * math.sin(6 * pi * x[0]) ** 6
    return [f1, g * (1 - (f1 / g) ** 2)]


def g_dtlz13(xm):
    return 100 * (len(xm) + sum((v - 0.5) ** 2 - math.cos(20 * pi * (v - 0.5)) for v in xm))


def g_dtlz2(xm):
    return sum((v - 0.5) ** 2 for v in xm)


def shape_lin(x, M, g):
    # f_1 = (1+g)/2 x_1..x_{M-1}; f_k = (1+g)/2 x_1..x_{M-k} (1 - x_{M-k+1}); f_M = (1+g)/2 (1-x_1)
    out = []
    for k in range(1, M + 1):
        v = 0.5 * (1 + g)
        for i in range(M - k):
            v *= x[i]
        if k > 1:
            v *= 1 - x[M - k]
        out.append(v)
    return out


def shape_sph(theta, M, g):
    out = []
    for k in range(1, M + 1):
        v = 1 + g
        for i in range(M - k):
            v *= math.cos(theta[i])
        if k > 1:
            v *= math.sin(theta[M - k])
        out.append(v)
    return out


def r_dtlz(name, x, M, alpha=None):
    xm = x[M - 1:]
    if name == "dtlz1":
        return shape_lin(x, M, g_dtlz13(xm)), g_dtlz13(xm)
    if name == "dtlz2":
        g = g_dtlz2(xm); return shape_sph([v * pi / 2 for v in x], M, g), g
    if name == "dtlz3":
        g = g_dtlz13(xm); return shape_sph([v * pi / 2 for v in x], M, g), g
    if name == "dtlz4":
        g = g_dtlz2(xm); return shape_sph([v ** alpha * pi / 2 for v in x[:M - 1]], M, g), g
    if name in ("dtlz5", "dtlz6"):
        g = g_dtlz2(xm) if name == "dtlz5" else sum(v ** 0.1 for v in xm)
        th = [x[0] * pi / 2] + [pi / (4 * (1 + g)) * (1 + 2 * g * v) for v in x[1:M - 1]]
        return shape_sph(th, M, g), g
    if name == "dtlz7":
        g = 1 + 9.0 / len(xm) * sum(xm)
        fs = list(x[:M - 1])
        h = M - sum(f / (1 + g) * (1 + math.sin(3 * pi * f)) for f in fs)
        return fs + [(1 + g) * h], g
    raise ValueError(name)


def r_kursawe(x):
    return [sum(-10 * math.exp(-0.2 * math.sqrt(a * a + b * b)) for a, b in zip(x[:-1], x[1:])),
            sum(abs(v) ** 0.8 + 5 * math.sin(v ** 3) for v in x)]


def r_fonseca(x):
    s = 1 / math.sqrt(3)
    return [1 - math.exp(-sum((v - s) ** 2 for v in x[:3])), 1 - math.exp(-sum((v + s) ** 2 for v in x[:3]))]


def r_poloni(x):
    s, c = math.sin, math.cos
    a1 = 0.5 * s(1) - 2 * c(1) + s(2) - 1.5 * c(2)
    a2 = 1.5 * s(1) - c(1) + 2 * s(2) - 0.5 * c(2)
    b1 = 0.5 * s(x[0]) - 2 * c(x[0]) + s(x[1]) - 1.5 * c(x[1])
    b2 = 1.5 * s(x[0]) - c(x[0]) + 2 * s(x[1]) - 0.5 * c(x[1])
    return [1 + (a1 - b1) ** 2 + (a2 - b2) ** 2, (x[0] + 3) ** 2 + (x[1] + 1) ** 2]


def r_dent(x, lam):
    d = lam * math.exp(-(x[0] - x[1]) ** 2)
    r = math.sqrt(1 + (x[0] + x[1]) ** 2) + math.sqrt(1 + (x[0] - x[1]) ** 2)
    return [0.5 * (r + x[0] - x[1]) + d, 0.5 * (r - x[0] + x[1]) + d]


REFMO = {"kursawe": r_kursawe, "schaffer_mo": lambda x: [x[0] ** 2, (x[0] - 2) ** 2], "zdt1": r_zdt1, "zdt2": r_zdt2,
         "zdt3": r_zdt3, "zdt4": r_zdt4, "zdt6": r_zdt6, "fonseca": r_fonseca, "poloni": r_poloni}
DOMMO = {"kursawe": (-5, 5, range(0, 31)), "schaffer_mo": (-10, 10, range(0, 4)), "zdt1": (0, 1, range(0, 31)),
         "zdt2": (0, 1, range(0, 31)), "zdt3": (0, 1, range(0, 31)), "zdt4": (-5, 5, range(0, 31)),
         "zdt6": (0, 1, range(0, 31)), "fonseca": (-4, 4, range(0, 8)), "poloni": (-pi, pi, range(0, 4)),
         "dent": (-1.5, 1.5, range(0, 4))}
DTLZ = ["dtlz1", "dtlz2", "dtlz3", "dtlz4", "dtlz5", "dtlz6", "dtlz7"]


# ------------------------------------------------------------------------------------------
# evaluate
# ------------------------------------------------------------------------------------------
def call_impl(f, *args):
    try:
        return f(*args), None
    except (IndexError, ZeroDivisionError) as e:
        return None, type(e).__name__


def as_ind(d, x):
    """the individual as the case asks for it: a Python list, or a numpy array (`np`)"""
    return numpy.array(x) if d.get("np") else list(x)


def arity_error(name, res, n):
    """'one entry per objective': the functions of benchmarks/__init__.py and binary.py return a tuple (DTLZ: a list)
    with exactly the documented number of objectives — a bare number (the missing-comma bug) is rejected"""
    if not isinstance(res, (tuple, list)):
        return "%s returns the bare value %r instead of a sequence with one entry per objective" % (name, res)
    if len(res) != n:
        return "%s returns %d entries for %d objective(s)" % (name, len(res), n)
    return None


def ev_single(d):
    name, x = d["name"], [float(v) for v in d["x"]]
    res, err = call_impl(IMPL1[name], as_ind(d, x))
    line = "C20 f %s %s" % (name, fl(x))
    tag = "f/%s/%s" % (name, d.get("cat", "rand"))
    if err:
        return Case(d, [line], ["error"], None, tag=tag + "/error", nontrivial=False)
    if name in GPNAMES:
        # the symbolic-regression targets of gp.py return the bare target value by design
        if isinstance(res, (tuple, list)):
            return Case(d, [line], ["?"], "%s returns %r, a bare number expected" % (name, res), tag=tag)
        val, orc = float(res), None
    else:
        orc = arity_error(name, res, 1)
        if orc is not None:
            return Case(d, [line], ["?"], orc, tag=tag)
        val = float(res[0])
    if orc is None:
        try:
            ref = REF1[name](x)
        except (IndexError, ZeroDivisionError):
            ref = None
        scale_ = max(1.0, abs(ref)) if ref is not None else 1.0
        if ref is None and d.get("np"):
            # numpy scalars divide by zero to inf/nan (with a warning) where Python floats raise: still "undefined"
            return Case(d, [line], ["error"], None, tag=tag + "/error", nontrivial=False)
        if ref is None:
            orc = "implementation returns %r where the defining formula is undefined" % (val,)
        elif not close(val, ref, 1e-9, 1e-9 * scale_ if name not in CANCEL else 1e-7):
            orc = "%s(%r) = %r differs from the published formula %r" % (name, x, val, ref)
    if orc is None and d.get("opt") is not None:
        fstar, atol = d["opt"]
        if abs(val - fstar) > atol:
            orc = "%s at its documented optimum %r is %r, documented %r" % (name, x, val, fstar)
    tol = TOL
    if d.get("cat") == "opt" and name in CANCEL:
        tol = 1e-5     # absolute 1e-8: CANCEL[name]
    return Case(d, [line], [fbits(val)], orc, tag=tag, tol=tol)


def ev_shekel(d):
    x, a, c = d["x"], d["a"], d["c"]
    res, err = call_impl(benchmarks.shekel, as_ind(d, x), [list(r) for r in a], list(c))
    line = "C20 shekel %s %s %s" % (fl(x), fl2(a), fl(c))
    if err:
        return Case(d, [line], ["error"], None, tag="f/shekel/error", nontrivial=False)
    if arity_error("shekel", res, 1):
        return Case(d, [line], ["?"], arity_error("shekel", res, 1), tag="f/shekel/arity")
    val = float(res[0])
    ref = sum(1.0 / (c[i] + sum((x[j] - a[i][j]) ** 2 for j in range(len(a[i])))) for i in range(len(c)))
    orc = None if close(val, ref, 1e-9, 1e-9) else "shekel = %r differs from the published formula %r" % (val, ref)
    if orc is None and d.get("cat") == "opt":
        # numeric test (not a theorem): the docstring's example "defines 5 maximums", one at every row of A:
        # the value there is at least that row's own term 1/c_i and exceeds the axis neighbours
        i = d["row"]
        nb = [benchmarks.shekel([x[0] + dx, x[1] + dy], a, c)[0] for dx, dy in ((.02, 0), (-.02, 0), (0, .02), (0, -.02))]
        if val < 1.0 / c[i] or any(v >= val for v in nb):
            orc = "shekel at the documented maximum location %r is %r: not >= 1/c_i = %r or not above its neighbours %r" % (
                x, val, 1.0 / c[i], nb)
    return Case(d, [line], [fbits(val)], orc, tag="f/shekel/" + d.get("cat", "rand"), tol=TOL)


def ev_mo(d):
    name, x = d["name"], [float(v) for v in d["x"]]
    extra, args = [], []
    if name in DTLZ:
        args.append(d["M"]); extra.append(str(d["M"]))
        if name == "dtlz4":
            args.append(d["alpha"]); extra.append(fbits(d["alpha"]))
    if name == "dent":
        if d["lam"] is None:              # documented default lambda_ = 0.85
            extra.append(fbits(0.85))
        else:
            args.append(d["lam"]); extra.append(fbits(d["lam"]))
    res, err = call_impl(getattr(benchmarks, name), as_ind(d, x), *args)
    line = "C20 mo %s %s%s" % (name, fl(x), "".join(" " + e for e in extra))
    tag = "mo/%s%s/%s" % (name, "/M=%d" % d["M"] if name in DTLZ else "", d.get("cat", "rand"))
    if err:
        return Case(d, [line], ["error"], None, tag="mo/%s/error" % name, nontrivial=False)
    if not isinstance(res, (tuple, list)):
        return Case(d, [line], ["?"], arity_error(name, res, d.get("M", 2)), tag="mo/%s/arity" % name)
    f = [float(v) for v in res]
    orc = None
    if name in ("dtlz5", "dtlz6") and d["M"] == 1:
        # degenerate one-objective call, outside the family (2..6 objectives): model vs code only
        return Case(d, [line], [fl(f)], None, tag="mo/%s/M=1-degenerate" % name, nontrivial=False, tol=TOL)
    # reference formula + number of objectives
    if name in DTLZ:
        M = d["M"]
        ref, g = r_dtlz(name, x, M, d.get("alpha"))
        if len(f) != M:
            orc = "%s returns %d objectives for obj=%d" % (name, len(f), M)
        # front identities, for every input
        elif name == "dtlz1" and not close(sum(f), (1 + g) / 2, 1e-9, 1e-9 * max(1, abs(g))):
            orc = "dtlz1 objectives sum to %r, (1+g)/2 = %r" % (sum(f), (1 + g) / 2)
        elif name in ("dtlz2", "dtlz3", "dtlz4", "dtlz5", "dtlz6") and \
                not close(math.sqrt(sum(v * v for v in f)), abs(1 + g), 1e-9, 1e-9 * max(1, abs(g))):
            orc = "%s objectives have norm %r, 1+g = %r" % (name, math.sqrt(sum(v * v for v in f)), 1 + g)
        scale_ = max(1.0, abs(g))
    elif name == "dent":
        ref, scale_ = r_dent(x, 0.85 if d["lam"] is None else d["lam"]), 1.0
    else:
        ref, scale_ = REFMO[name](x), 1.0
        if len(f) != 2:
            orc = "%s returns %d objectives" % (name, len(f))
    if orc is None and (len(ref) != len(f) or not all(close(a, b, 1e-9, 1e-9 * scale_) for a, b in zip(f, ref))):
        orc = "%s(%r) = %r differs from the published formula %r" % (name, x, f, ref)
    return Case(d, [line], [fl(f)], orc, tag=tag, tol=TOL)


def bits_of(s):
    return [int(c) for c in s] if s != "-" else []


def o_trap(b):
    u, k = sum(b), len(b)
    return k if u == k else k - 1 - u


def o_inv_trap(b):
    u, k = sum(b), len(b)
    return k if u == 0 else u - 1


def o_blocks(b, start, stop, w):
    return [b[i:i + w] for i in range(start, stop, w)]


def o_binary(name, b, order):
    """definitions (Chuang & Hsu; Mitchell), written independently of the source"""
    if name == "trap":
        return o_trap(b)
    if name == "inv_trap":
        return o_inv_trap(b)
    if name == "chuang_f1":
        body, sel = b[:-1], b[-1]
        # blocks of 4 over the first len-1 positions (the slice may run into the selector bit when
        # len-1 is not a multiple of 4, exactly as individual[i:i+4] does)
        return sum((o_trap if sel else o_inv_trap)(b[i:i + 4]) for i in range(0, len(b) - 1, 4))
    if name == "chuang_f2":
        s2, s1 = b[-2], b[-1]
        fa = o_trap if s2 else o_inv_trap
        fb = o_trap if s1 else o_inv_trap
        return sum(fa(b[i:i + 4]) + fb(b[i + 4:i + 8]) for i in range(0, len(b) - 2, 8))
    if name == "chuang_f3":
        if b[-1] == 0:
            return sum(o_inv_trap(b[i:i + 4]) for i in range(0, len(b) - 1, 4))
        return sum(o_inv_trap(b[i:i + 4]) for i in range(2, len(b) - 3, 4)) + o_trap(b[-2:] + b[:2])
    if name == "royal_road1":
        return order * sum(1 for i in range(len(b) // order) if all(b[i * order:(i + 1) * order]))
    if name == "royal_road2":
        t, no = 0, order
        while no < order ** 2:
            t += no * sum(1 for i in range(len(b) // no) if all(b[i * no:(i + 1) * no]))
            no *= 2
        return t
    raise ValueError(name)


def ev_bin(d):
    name, b = d["name"], bits_of(d["bits"])
    f = getattr(binary, name)
    args = [d["order"]] if name.startswith("royal") else []
    line = "C20 bin %s %s%s" % (name, d["bits"], "".join(" %d" % a for a in args))
    tag = "bin/%s/%s" % (name, d.get("cat", "rand"))
    res, err = call_impl(f, numpy.array(b, dtype=int) if d.get("np") else list(b), *args)
    if err:
        return Case(d, [line], ["error" if not name.startswith("royal") else "none"], None, tag="bin/%s/error" % name,
                    nontrivial=False)
    if name in ("trap", "inv_trap"):
        # the two building blocks return the bare integer (chuang_f* add them up)
        if isinstance(res, (tuple, list)):
            return Case(d, [line], ["?"], "%s returns %r, a bare integer expected" % (name, res), tag=tag)
        val = int(res)
    else:
        if arity_error(name, res, 1):
            return Case(d, [line], ["?"], arity_error(name, res, 1), tag="bin/%s/arity" % name)
        val = int(res[0])
    want = o_binary(name, b, d.get("order"))
    orc = None if val == want else "%s(%s) = %r, definition gives %r" % (name, d["bits"], val, want)
    if orc is None and d.get("opt") is not None and val != d["opt"]:
        orc = "%s at its optimum %s is %r, expected %r" % (name, d["bits"], val, d["opt"])
    return Case(d, [line], [str(val)], orc, tag=tag)


class Recorder(object):
    """wrapped evaluation function that records what it receives"""
    def __init__(self, nobj=1):
        self.got, self.nobj, self.args, self.kargs = None, nobj, None, None

    def __call__(self, individual, *a, **k):
        self.got, self.args, self.kargs = individual, a, k
        return tuple(0.0 for _ in range(self.nobj))


EXTRA_ARGS, EXTRA_KARGS = (7, "a"), {"key": 3.5}


def passthrough_error(rec):
    """extra positional / keyword arguments of the decorated call must reach the wrapped function unchanged
    (outside the statement, hence reported as a model/implementation difference)"""
    if rec.args != EXTRA_ARGS or rec.kargs != EXTRA_KARGS:
        return "CORRESPONDENCE: extra arguments %r %r reached the wrapped function as %r %r" % (
            EXTRA_ARGS, EXTRA_KARGS, rec.args, rec.kargs)
    return None


def ev_b2f(d):
    mn, mx, nb, b = float(d["min"]), float(d["max"]), d["nbits"], bits_of(d["bits"])
    rec = Recorder()
    line = "C20 b2f %s %s %d %s" % (sfr(Fr(mn)), sfr(Fr(mx)), nb, d["bits"])
    tag = "b2f/nbits=%d/%s" % (nb, d.get("cat", "rand"))
    try:
        rep = d.get("rep")
        if rep is None:
            indiv = numpy.array(b, dtype=int) if d.get("np") else list(b)
        elif rep == "tuple":
            indiv = tuple(b)
        elif rep == "bool":
            indiv = [bool(x) for x in b]
        elif rep.startswith("array:"):
            import array as _array
            indiv = _array.array(rep[6:], b)
        else:                                # a numpy dtype name: the bits of narrow fixed-width / boolean arrays
            indiv = numpy.array(b, dtype=rep)
        binary.bin2float(mn, mx, nb)(rec)(indiv, *EXTRA_ARGS, **EXTRA_KARGS)
    except ZeroDivisionError:
        return Case(d, [line], ["error"], None, tag="b2f/error", nontrivial=False)
    got = list(rec.got)
    exact = [Fr(mn) + Fr(int("".join(map(str, b[i * nb:(i + 1) * nb])), 2), 2 ** nb - 1) * (Fr(mx) - Fr(mn))
             for i in range(len(b) // nb)]
    orc = None
    span = max(abs(mn), abs(mx), 1e-300)
    if len(got) != len(exact):
        orc = "decoded %d values, %d blocks" % (len(got), len(exact))
    else:
        for g, e in zip(got, exact):
            if abs(Fr(g) - e) > Fr(1, 10 ** 12) * Fr(span):
                orc = "decoded %r, definition min + gene/(2^n-1) (max-min) = %r" % (g, float(e))
            elif not (min(mn, mx) - 1e-12 * span <= g <= max(mn, mx) + 1e-12 * span):
                orc = "decoded %r outside [%r, %r]" % (g, mn, mx)
    orc = orc or passthrough_error(rec)
    return Case(d, [line], ["%s %s" % (fl(got), ",".join(sfr(e) for e in exact) if exact else "-")], orc, tag=tag,
                tol=TOL)


def ev_history(d, kind):
    """One decorated function, re-parameterised through its documented setter (evaluate.translate(v) /
    .scale(f) / .rotate(M)) between calls: every call must hand the wrapped function the individual
    transformed with the CURRENT parameter.  Each call is one stateless protocol line for the model."""
    rec = Recorder()
    steps = [[d["t" if kind == "translate" else "f" if kind == "scale" else "R"], d["x"]]] + list(d["reset"])
    mk = {"translate": btools.translate, "scale": btools.scale, "rotate": btools.rotate}[kind]
    first = steps[0][0]
    deco = mk(numpy.array(first, dtype=float) if kind == "rotate" else list(first))
    fn = deco(rec)
    lines, expect, orc = [], [], None
    for i, (par, x) in enumerate(steps):
        if i > 0:
            getattr(fn, kind)(numpy.array(par, dtype=float) if kind == "rotate" else list(par))
        fn(list(x))
        got = [float(v) for v in rec.got]
        if kind == "translate":
            want = [float(Fr(a) - Fr(b)) for a, b in zip(x, par)]
            lines.append("C20 translate %s %s" % (fl(par), fl(x)))
        elif kind == "scale":
            want = [float(Fr(a) / Fr(b)) for a, b in zip(x, par)]
            lines.append("C20 scale %s %s" % (fl(par), fl(x)))
        else:
            minv = numpy.linalg.inv(numpy.array(par, dtype=float))
            want = [float(v) for v in minv.dot(numpy.array(x, dtype=float))]
            lines.append("C20 rotate %s %s" % (fl2(deco.matrix.tolist()), fl(x)))
        expect.append(fl(got))
        if orc is None and (len(got) != len(want) or any(not close(g, w_, 1e-9, 1e-9) for g, w_ in zip(got, want))):
            orc = ("%s: call #%d after re-parameterising through the setter handed %r to the function, "
                   "the inverse transform with the current parameter %r gives %r" % (kind, i, got, par, want))
    return Case(d, lines, expect, orc, tag="dec/%s/setter-history/%d" % (kind, len(steps)), tol=TOL)


def ev_translate(d):
    if d.get("reset"):
        return ev_history(d, "translate")
    t, x = d["t"], d["x"]
    rec = Recorder()
    btools.translate(list(t))(rec)(as_ind(d, x), *EXTRA_ARGS, **EXTRA_KARGS)
    got = list(rec.got)
    want = [Fr(a) - Fr(b) for a, b in zip(x, t)]
    orc = None
    if len(got) != len(want):
        bad = True
    elif d.get("exact", True):
        bad = any(Fr(g) != w for g, w in zip(got, want))
    else:
        bad = any(not close(g, float(w), 1e-12, 1e-12) for g, w in zip(got, want))
    if bad:
        orc = "translate handed %r to the function, x - t = %r" % (got, [float(w) for w in want])
    orc = orc or passthrough_error(rec)
    return Case(d, ["C20 translate %s %s" % (fl(t), fl(x))], [fl(got)], orc,
                tag="dec/translate/n=%d%s" % (len(x), "" if len(t) == len(x) else "/len-mismatch"), tol=TOL)


def ev_scale(d):
    if d.get("reset"):
        return ev_history(d, "scale")
    f, x = d["f"], d["x"]
    rec = Recorder()
    line = "C20 scale %s %s" % (fl(f), fl(x))
    try:
        dec = btools.scale(list(f))(rec)
    except ZeroDivisionError:
        return Case(d, [line], ["error"], None, tag="dec/scale/error", nontrivial=False)
    dec(as_ind(d, x), *EXTRA_ARGS, **EXTRA_KARGS)
    got = list(rec.got)
    want = [Fr(a) / Fr(b) for a, b in zip(x, f)]
    orc = None
    if len(got) != len(want):
        orc = "scale handed %d values" % len(got)
    elif d.get("exact"):
        if any(Fr(g) != w for g, w in zip(got, want)):
            orc = "scale handed %r, x / factor = %r" % (got, [float(w) for w in want])
    elif any(not close(g, float(w), 1e-12, 1e-300) for g, w in zip(got, want)):
        orc = "scale handed %r, x / factor = %r" % (got, [float(w) for w in want])
    orc = orc or passthrough_error(rec)
    return Case(d, [line], [fl(got)], orc, tag="dec/scale/%s" % ("pow2" if d.get("exact") else "general"), tol=TOL)


def ev_rotate(d):
    if d.get("reset"):
        return ev_history(d, "rotate")
    R, x = numpy.array(d["R"], dtype=float), d["x"]
    rec = Recorder()
    dec = btools.rotate(R)
    minv = dec.matrix
    dec(rec)(as_ind(d, x), *EXTRA_ARGS, **EXTRA_KARGS)
    got = [float(v) for v in rec.got]
    back = R.dot(numpy.array(got))            # R (R^-1 x) must be x
    nx = max(1.0, max([abs(v) for v in x] or [0.0]))
    orc = None
    if len(got) != len(x) or any(abs(a - b) > 1e-9 * nx for a, b in zip(back, x)):
        orc = "rotate handed %r; rotating it back gives %r, individual %r" % (got, list(back), x)
    orc = orc or passthrough_error(rec)
    return Case(d, ["C20 rotate %s %s" % (fl2(minv.tolist()), fl(x))], [fl(got)], orc,
                tag="dec/rotate/%s/n=%d" % (d.get("cat", "rand"), len(x)), tol=TOL)


def noise_arg(spec, draw):
    if spec == "rep1":
        return draw
    if spec == "rep0":
        return None
    return [draw if c == "1" else None for c in spec[5:]]


def noise_flags(spec, n):
    if spec == "rep1":
        return [True] * n
    if spec == "rep0":
        return [False] * n
    return [c == "1" for c in spec[5:]]


def ev_noise(d):
    """d["spec"] at decoration time; d.get("reset") = further specs installed through the documented setter
    `evaluate.noise(...)`, one call after each; every call is one stateless protocol line for the model"""
    result, pool = d["result"], list(d["draws"])

    def draw():
        return pool.pop(0)

    def func(ind):
        return tuple(result)
    specs = [d["spec"]] + list(d.get("reset", []))
    hows = [None] + list(d.get("how", []))            # how the setter's argument object is supplied
    cur = noise_arg(specs[0], draw)
    fn = btools.noise(cur)(func)
    lines, expect, orc = [], [], None
    for i, spec in enumerate(specs):
        if i > 0:
            how = hows[i] if i < len(hows) else "fresh"
            new = noise_arg(spec, draw)
            if how == "reuse":                          # the very object passed before, unchanged
                spec = specs[i] = specs[i - 1]
            elif how == "inplace" and isinstance(cur, list) and isinstance(new, list):
                cur[:] = new                            # the object passed before, with new contents
            else:
                cur = new
            fn.noise(cur)
        before = list(pool)
        lines.append("C20 noise %s %s %s" % (spec, fl(result), fl(before)))
        try:
            out = list(fn([0.0]))
        except IndexError:
            expect.append("bad-tape")
            return Case(d, lines, expect, orc, tag="dec/noise/short-tape", nontrivial=False, tol=TOL)
        used, want = 0, []
        for r, f_ in zip(result, noise_flags(spec, len(result))):
            if f_:
                want.append(Fr(r) + Fr(before[used])); used += 1
            else:
                want.append(Fr(r))
        expect.append("%s %d" % (fl(out), len(pool)))
        if orc is None:
            if len(out) != len(want) or any(Fr(o) != w for o, w in zip(out, want)):
                orc = "noise (call #%d, spec %s) returned %r, result + draws = %r" % (i, spec, out, [float(w) for w in want])
            elif len(pool) != len(before) - used:
                orc = "noise consumed %d draws for %d noisy objectives" % (len(before) - len(pool), used)
    tag = "dec/noise/" + (d["spec"].split(":")[0] if len(specs) == 1 else "setter-history/%d%s" % (
        len(specs), "/" + "+".join(sorted(set(d["how"]))) if d.get("how") else ""))
    return Case(d, lines, expect, orc, tag=tag, tol=TOL)


def ev_bound(d):
    rows = d["x"]

    def op():
        return [list(r) for r in rows]
    fn = btools.bound(lambda v: True, d["kind"])(op)
    out = fn()
    orc = None if [list(r) for r in out] == [list(r) for r in rows] else "bound changed the individuals"
    # a history: the decorated operator again, and the `bound` attribute the decorator publishes, on the same objects
    again = fn()
    direct = fn.bound(out)
    if orc is None and ([list(r) for r in again] != [list(r) for r in rows] or direct is not out):
        orc = "CORRESPONDENCE: bound (%s) on repeated use returned %r / %r" % (d["kind"], again, direct)
    return Case(d, ["C20 bound %s %s" % (d["kind"], fl2(rows))], [fl2(out)], orc, tag="dec/bound/" + d["kind"])


# ---- moving peaks ------------------------------------------------------------------------------
PF = {"c": movingpeaks.cone, "s": movingpeaks.sphere, "f": movingpeaks.function1}
PFL = {v: k for k, v in PF.items()}


class RecRandom(object):
    """random-module look-alike handed to MovingPeaks(random=...); records every draw"""
    def __init__(self, seed):
        self.r = _pyrandom.Random(seed)
        self.draws = []

    def random(self):
        x = self.r.random(); self.draws.append("r=" + fbits(x)); return x

    def uniform(self, a, b):
        x = self.r.uniform(a, b); self.draws.append("u=" + fbits(x)); return x

    def gauss(self, mu, sigma):
        x = self.r.gauss(mu, sigma); self.draws.append("g=" + fbits(x)); return x

    def randrange(self, n):
        i = self.r.randrange(n); self.draws.append("i=%d" % i); return i

    def choice(self, seq):
        i = self.r.randrange(len(seq)); self.draws.append("c=%d" % i); return seq[i]

    def sample(self, seq, k):
        return self.r.sample(seq, k)


def mp_build(d, rnd):
    sc = dict({1: movingpeaks.SCENARIO_1, 2: movingpeaks.SCENARIO_2, 3: movingpeaks.SCENARIO_3}[d["scenario"]])
    sc["npeaks"] = d["npeaks"]
    if isinstance(d["npeaks"], list):
        sc["number_severity"] = d["sev"]
    if d.get("pfuncs"):
        sc["pfunc"] = [PF[c] for c in d["pfuncs"]]
    if d.get("basis") is not None:
        bval = d["basis"]
        sc["bfunc"] = lambda x: bval
    elif d["scenario"] == 3:
        sc["bfunc"] = lambda x: 10
    sc["period"] = d.get("period", 0)
    for k in ("lambda_", "move_severity", "min_height", "max_height", "uniform_height", "min_width", "max_width",
              "uniform_width", "height_severity", "width_severity", "min_coord", "max_coord"):
        if k in d:
            sc[k] = d[k]
    return movingpeaks.MovingPeaks(dim=d["dim"], random=rnd, **sc), sc


def mp_limits(d):
    """the configured limits (min, max) and initial count, from the case description, not from the object"""
    if isinstance(d["npeaks"], list):
        return (d["npeaks"][0], d["npeaks"][2]), d["npeaks"][1]
    return None, d["npeaks"]


def _d2(x, p):
    return math.fsum((a - b) ** 2 for a, b in zip(x, p))


# the peak functions, written from the cited source (Branke 1999 / movpeaks.c), independent of the implementation:
# cone h - w |x-p|, function1 h / (1 + w |x-p|^2) (no square root, unlike DEAP's docstring), and DEAP's own `sphere`
# peak h |x-p|^2 (undocumented; taken as its name says)
O_PEAK = {"c": lambda x, p, h, w: h - w * math.sqrt(_d2(x, p)),
          "s": lambda x, p, h, w: h * _d2(x, p),
          "f": lambda x, p, h, w: h / (1 + w * _d2(x, p))}


def mp_values(mp, x):
    """the separately evaluated peak (and basis) values, by the oracle's own formulas"""
    vals = [O_PEAK[PFL[f]](x, p, h, w) for f, p, h, w in
            zip(mp.peaks_function, mp.peaks_position, mp.peaks_height, mp.peaks_width)]
    if mp.basis_function:
        vals.append(float(mp.basis_function(x)))
    return vals


def is_max(v, vals):
    m = max(vals)
    return close(v, m, 1e-9, 1e-9 * max(1.0, abs(m)))


def ev_mp(d):
    rnd = RecRandom(d["seed"])
    mp, sc = mp_build(d, rnd)
    x = [float(v) for v in d["x"]]
    rnd.draws = []           # the model starts from the constructed state
    peaks0 = []
    for f, p, h, w, l in zip(mp.peaks_function, mp.peaks_position, mp.peaks_height, mp.peaks_width, mp.last_change_vector):
        peaks0 += [PFL[f], fl(p), fbits(h), fbits(w), fl(l)]
    n0 = len(mp.peaks_function)
    lims, cfg_n0 = mp_limits(d)
    if n0 != cfg_n0:
        return Case(d, [], [], "constructed with %d peaks, configured %d" % (n0, cfg_n0), tag="mp/init")
    lim = "none" if mp.minpeaks is None else "%d,%d" % (mp.minpeaks, mp.maxpeaks)
    basis = None
    if mp.basis_function:
        basis = float(mp.basis_function(x))
    steps, orc = [], None
    period = d.get("period", 0)
    for j in range(d["changes"]):
        try:
            if period:
                for _ in range(period):          # the period-th counted evaluation triggers changePeaks
                    mp(x)
            else:
                mp.changePeaks()
        except ValueError as e:                   # e.g. max() of no peak at all
            n = len(mp.peaks_function)
            if lims is not None and not (lims[0] <= n <= lims[1]):
                orc = "during change %d there are %d peaks, limits [%d, %d]" % (j + 1, n, lims[0], lims[1])
            else:
                orc = "change %d raised ValueError: %s" % (j + 1, e)
            return Case(d, [], [], orc, tag="mp/exception")
        n = len(mp.peaks_function)
        if orc is None:
            lens = set(map(len, (mp.peaks_position, mp.peaks_height, mp.peaks_width, mp.last_change_vector)))
            if lens != {n}:
                orc = "per-peak lists have different lengths %r after change %d" % (sorted(lens), j + 1)
            if lims is not None and not (lims[0] <= n <= lims[1]):
                orc = "after change %d there are %d peaks, limits [%d, %d]" % (j + 1, n, lims[0], lims[1])
            if lims is None and n != n0:
                orc = "fixed number of peaks changed from %d to %d" % (n0, n)
            if orc is not None:
                return Case(d, [], [], orc, tag="mp/count")
        v = mp(x, count=False)[0]
        steps.append("%d,%s" % (n, fbits(v)))
        if orc is None:
            sep = mp_values(mp, x)
            if not is_max(v, sep):
                orc = "after change %d the evaluation %r is not the maximum %r of its peak functions" % (j + 1, v, max(sep))
    final = ";".join("%s,%s,%s,%s,%s" % (PFL[f], fbits(h), fbits(w), fl(p), fl(l)) for f, p, h, w, l in
                     zip(mp.peaks_function, mp.peaks_position, mp.peaks_height, mp.peaks_width, mp.last_change_vector)) or "-"
    pool = "".join(PFL[f] for f in mp.pfunc_pool)
    toks = ["C20", "mpchange", str(d["changes"]), str(d["dim"]), lim, fbits(d.get("sev", 0.0)), pool,
            fbits(mp.min_coord), fbits(mp.max_coord), fbits(mp.min_height), fbits(mp.max_height), fbits(mp.min_width),
            fbits(mp.max_width), fbits(mp.lambda_), fbits(mp.move_severity), fbits(mp.height_severity),
            fbits(mp.width_severity), "none" if basis is None else fbits(basis), fl(x), str(n0)] + peaks0 + rnd.draws
    expect = "%s %s 0" % (";".join(steps) or "-", final)
    tag = "mp/sc%d/%s%s" % (d["scenario"], "fluct" if isinstance(d["npeaks"], list) else "fixed", "/auto" if period else "")
    return Case(d, [" ".join(toks)], [expect], orc, tag=tag, tol=TOL)


def ev_mpcall(d):
    x = d["x"]
    peaks = d["peaks"]          # [fn letter, pos, h, w]
    vals = [O_PEAK[p[0]](x, p[1], p[2], p[3]) for p in peaks]
    mp = movingpeaks.MovingPeaks(dim=len(x), random=RecRandom(0), npeaks=max(1, len(peaks)), period=0)
    mp.peaks_function = [PF[p[0]] for p in peaks]
    mp.peaks_position = [list(p[1]) for p in peaks]
    mp.peaks_height = [p[2] for p in peaks]
    mp.peaks_width = [p[3] for p in peaks]
    basis = d.get("basis")
    mp.basis_function = (lambda ind: basis) if basis is not None else None
    toks = ["C20", "mpcall", "none" if basis is None else fbits(basis), fl(x)]
    for p in peaks:
        toks += [p[0], fl(p[1]), fbits(p[2]), fbits(p[3])]
    try:
        v = mp(x, count=False)[0]
    except ValueError:
        return Case(d, [" ".join(toks)], ["error"], None, tag="mp/call/empty", nontrivial=False)
    allv = vals + ([basis] if basis is not None else [])
    orc = None if is_max(v, allv) else "evaluation %r is not the maximum of the peak functions %r" % (v, allv)
    return Case(d, [" ".join(toks)], [fbits(v)], orc, tag="mp/call/n=%d%s" % (len(peaks), "+basis" if basis is not None else ""),
                tol=TOL)


def mp_common_tokens(mp, d, basis, x, n0, peaks0, draws):
    lim = "none" if mp.minpeaks is None else "%d,%d" % (mp.minpeaks, mp.maxpeaks)
    pool = "".join(PFL[f] for f in mp.pfunc_pool)
    return [str(d["dim"]), lim, fbits(d.get("sev", 0.0)), pool,
            fbits(mp.min_coord), fbits(mp.max_coord), fbits(mp.min_height), fbits(mp.max_height), fbits(mp.min_width),
            fbits(mp.max_width), fbits(mp.lambda_), fbits(mp.move_severity), fbits(mp.height_severity),
            fbits(mp.width_severity), "none" if basis is None else fbits(basis), fl(x), str(n0)] + peaks0 + draws


def ev_mpcount(d):
    """counted evaluations: nevals += 1 per call, changePeaks exactly when period > 0 and nevals % period == 0"""
    rnd = RecRandom(d["seed"])
    mp, sc = mp_build(d, rnd)
    x = [float(v) for v in d["x"]]
    rnd.draws = []
    peaks0 = []
    for f, p, h, w, l in zip(mp.peaks_function, mp.peaks_position, mp.peaks_height, mp.peaks_width, mp.last_change_vector):
        peaks0 += [PFL[f], fl(p), fbits(h), fbits(w), fl(l)]
    n0 = len(mp.peaks_function)
    lims, cfg_n0 = mp_limits(d)
    if n0 != cfg_n0:
        return Case(d, [], [], "constructed with %d peaks, configured %d" % (n0, cfg_n0), tag="mp/init")
    basis = float(mp.basis_function(x)) if mp.basis_function else None
    period = d.get("period", 0)
    steps, orc = [], None
    for j in range(d["evals"]):
        before = max(mp_values(mp, x))
        ndraws = len(rnd.draws)
        v = mp(x)[0]
        changed = len(rnd.draws) != ndraws
        steps.append("%s,%d,%d,%d" % (fbits(v), int(changed), mp.nevals, len(mp.peaks_function)))
        if orc is None:
            want = period > 0 and (j + 1) % period == 0
            if mp.nevals != j + 1:
                orc = "after %d counted evaluations nevals = %d" % (j + 1, mp.nevals)
            elif changed != want:
                orc = "evaluation %d with period %d: change %s" % (j + 1, period, "triggered" if changed else "not triggered")
            elif not close(v, before, 1e-9, 1e-9 * max(1.0, abs(before))):
                orc = "evaluation %d returned %r, the maximum of the peak functions before it was %r" % (j + 1, v, before)
            elif lims is not None and not (lims[0] <= len(mp.peaks_function) <= lims[1]):
                orc = "after evaluation %d there are %d peaks, limits [%d, %d]" % (j + 1, len(mp.peaks_function), lims[0], lims[1])
    final = ";".join("%s,%s,%s,%s,%s" % (PFL[f], fbits(h), fbits(w), fl(p), fl(l)) for f, p, h, w, l in
                     zip(mp.peaks_function, mp.peaks_position, mp.peaks_height, mp.peaks_width, mp.last_change_vector)) or "-"
    toks = ["C20", "mpcount", str(d["evals"]), str(period), "0"] + mp_common_tokens(mp, d, basis, x, n0, peaks0, rnd.draws)
    expect = "%s %s 0" % (";".join(steps) or "-", final)
    return Case(d, [" ".join(toks)], [expect], orc, tag="mp/count/sc%d/period=%d" % (d["scenario"], period), tol=TOL)


def ev_rand(d):
    """benchmarks.rand: one objective, the value is the next draw of random.random() (in [0, 1)), whatever the individual"""
    from tape import Tape
    x = d["x"]
    with Tape(rng=_pyrandom.Random(d["seed"])) as tp:
        res = benchmarks.rand(as_ind(d, x))
    draws = [t_[1] for t_ in tp.draws if t_[0] == "random"]
    line = "C20 rand %s %s" % (fl(x), fl(draws + d.get("spare", [])))
    orc = arity_error("rand", res, 1)
    if orc is not None:
        return Case(d, [line], ["?"], orc, tag="f/rand/arity")
    val = float(res[0])
    if len(tp.draws) != 1 or tp.draws[0][0] != "random":
        orc = "TAPE: rand made the draws %r, one random() expected" % ([t_[0] for t_ in tp.draws],)
    elif val != draws[0] or not (0.0 <= val < 1.0):
        orc = "rand returned %r, the draw of random() was %r" % (val, draws[0])
    return Case(d, [line], ["%s %d" % (fbits(val), len(d.get("spare", [])))], orc, tag="f/rand", tol=TOL)


def ev_stack(d):
    """@translate(t) @rotate(R) @scale(f): the innermost function must receive scale^-1(rotate^-1(translate^-1(x)))"""
    t, f, x = d["t"], d["f"], d["x"]
    R = numpy.array(d["R"], dtype=float)
    rec = Recorder()
    rot = btools.rotate(R)
    fn = btools.translate(list(t))(rot(btools.scale(list(f))(rec)))
    fn(as_ind(d, x), *EXTRA_ARGS, **EXTRA_KARGS)
    got = [float(v) for v in rec.got]
    # undo the three inverse transforms: x = R (got * f) + t
    back = R.dot(numpy.array([g * c for g, c in zip(got, f)])) + numpy.array(t)
    nx = max(1.0, max([abs(v) for v in x] + [abs(v) for v in back] or [0.0]))
    orc = None
    if len(got) != len(x) or any(abs(a - b) > 1e-9 * nx for a, b in zip(back, x)):
        orc = "stacked decorators handed %r; transforming it forward gives %r, individual %r" % (got, list(back), x)
    orc = orc or passthrough_error(rec)
    # all three setters stay reachable on the stacked function (functools.wraps copies them)
    if orc is None and not all(hasattr(fn, a) for a in ("translate", "rotate", "scale")):
        orc = "CORRESPONDENCE: stacked function lost a setter"
    return Case(d, ["C20 stack %s %s %s %s" % (fl(t), fl2(rot.matrix.tolist()), fl(f), fl(x))], [fl(got)], orc,
                tag="dec/stack/%s/n=%d" % (d.get("cat", "rand"), len(x)), tol=TOL)


def ev_mpinit(d):
    """MovingPeaks.__init__: the state drawn from the random source, in the code's order"""
    rnd = RecRandom(d["seed"])
    mp, sc = mp_build(d, rnd)
    lims, cfg_n0 = mp_limits(d)
    n = len(mp.peaks_function)
    orc = None
    lens = set(map(len, (mp.peaks_position, mp.peaks_height, mp.peaks_width, mp.last_change_vector)))
    if n != cfg_n0 or lens != {n}:
        orc = "constructed with %d peaks (list lengths %r), configured %d" % (n, sorted(lens), cfg_n0)
    elif any(len(p) != d["dim"] or not all(sc["min_coord"] <= c <= sc["max_coord"] for c in p) for p in mp.peaks_position):
        orc = "initial peak positions %r not %d coordinates in [%r, %r]" % (mp.peaks_position, d["dim"], sc["min_coord"], sc["max_coord"])
    elif any(not (min(sc["min_height"], sc["uniform_height"] or sc["min_height"]) <= h <= max(sc["max_height"], sc["uniform_height"])) for h in mp.peaks_height):
        orc = "initial heights %r outside the configured range" % (mp.peaks_height,)
    final = ";".join("%s,%s,%s,%s,%s" % (PFL[f], fbits(h), fbits(w), fl(p), fl(l)) for f, p, h, w, l in
                     zip(mp.peaks_function, mp.peaks_position, mp.peaks_height, mp.peaks_width, mp.last_change_vector)) or "-"
    fns = "".join(PFL[f] for f in mp.peaks_function) or "-"
    toks = ["C20", "mpinit", str(d["dim"]), fns, fbits(sc["uniform_height"]), fbits(sc["uniform_width"])] + rnd.draws
    return Case(d, [" ".join(toks)], ["%s 0" % final], orc, tag="mp/init/sc%d" % d["scenario"], tol=TOL)


EV = {"f": ev_single, "shekel": ev_shekel, "mo": ev_mo, "bin": ev_bin, "b2f": ev_b2f, "translate": ev_translate,
      "scale": ev_scale, "rotate": ev_rotate, "noise": ev_noise, "bound": ev_bound, "mp": ev_mp, "mpcall": ev_mpcall, "mpcount": ev_mpcount, "rand": ev_rand, "stack": ev_stack,
      "mpinit": ev_mpinit}


def evaluate(d):
    if d["k"] not in EV:
        from props import c20_more          # object histories, remaining public functions (imports this module)
        return c20_more.EV_MORE[d["k"]](d)
    return EV[d["k"]](d)


# ------------------------------------------------------------------------------------------
# generators
# ------------------------------------------------------------------------------------------
def rpoint(rng, lo, hi, n, cat):
    if cat == "corner":
        return [rng.choice([lo, hi]) for _ in range(n)]
    if cat == "int":
        return [float(rng.randint(int(math.ceil(lo)), int(math.floor(hi)))) for _ in range(n)]
    if cat == "small":
        return [min(hi, max(lo, rng.uniform(-1e-3, 1e-3) * (hi - lo))) for _ in range(n)]
    return [rng.uniform(lo, hi) for _ in range(n)]


def dyadic(rng, big=8):
    return rng.randint(-big * 64, big * 64) / 64.0


SHEKEL_A = [[0.5, 0.5], [0.25, 0.25], [0.25, 0.75], [0.75, 0.25], [0.75, 0.75]]
SHEKEL_C = [0.002, 0.005, 0.005, 0.005, 0.005]


def gen_single(rng, per):
    for name, (lo, hi, dims) in DOM1.items():
        dims = list(dims)
        # documented optima at every admissible dimension
        for loc, fstar, atol, odims in OPT1.get(name, []):
            for n in odims:
                yield {"k": "f", "name": name, "x": loc(n), "cat": "opt", "opt": [fstar, atol]}
        for n in dims:
            reps = per if len(dims) > 1 else per * 8
            for j in range(reps):
                cat = ("rand", "rand", "corner", "int", "small")[j % 5] if n else "rand"
                x = rpoint(rng, lo, hi, n, cat)
                if name == "rational_polynomial" and cat == "corner" and rng.random() < 0.7:
                    x[1] = rng.uniform(0.05, 2)
                yield {"k": "f", "name": name, "x": x, "cat": cat}
        if len(dims) == 1:     # fixed-dimension functions: too short / longer individuals
            for n in (0, 1, dims[0] - 1, dims[0] + 1, dims[0] + 3):
                if n >= 0:
                    yield {"k": "f", "name": name, "x": rpoint(rng, lo, hi, n, "rand"), "cat": "len"}
    # shekel
    for j in range(per * 6):
        n = rng.randint(1, 6)
        m = rng.randint(0, 6)
        a = [[rng.random() for _ in range(n)] for _ in range(m)]
        c = [rng.uniform(0.001, 0.1) for _ in range(m)]
        yield {"k": "shekel", "x": [rng.random() for _ in range(n)], "a": a, "c": c, "cat": "rand"}
    for i, row in enumerate(SHEKEL_A):     # documented example: maxima at the rows of A, height about 1/c_i
        yield {"k": "shekel", "x": row, "a": SHEKEL_A, "c": SHEKEL_C, "cat": "opt", "row": i}
    yield {"k": "shekel", "x": [0.5], "a": SHEKEL_A, "c": SHEKEL_C, "cat": "short-x"}
    yield {"k": "shekel", "x": [0.5, 0.5], "a": SHEKEL_A[:3], "c": SHEKEL_C, "cat": "short-a"}
    yield {"k": "shekel", "x": [0.5, 0.5, 0.1], "a": SHEKEL_A, "c": SHEKEL_C[:2], "cat": "long-x"}


def gen_rand(rng, n):
    for _ in range(n):
        yield {"k": "rand", "x": [rng.uniform(-5, 5) for _ in range(rng.randint(0, 30))], "seed": rng.randrange(1 << 30),
               "spare": [rng.random() for _ in range(rng.randint(0, 2))]}


def gen_stack(rng, n):
    for _ in range(n):
        m = rng.choice([1, 2, 3, 4, 6, 10])
        kind = rng.choice(["perm", "angle", "qr", "int"])
        if kind == "perm":
            p_ = list(range(m)); rng.shuffle(p_)
            R = numpy.zeros((m, m)); R[range(m), p_] = 1.0
        elif kind == "angle":
            R = numpy.identity(m)
            for i in range(0, m - 1, 2):
                c, s_ = rng.choice([(0.6, 0.8), (0.8, -0.6), (0.0, 1.0), (-1.0, 0.0)])
                R[i:i + 2, i:i + 2] = rot2(c, s_)
        elif kind == "int":
            R = numpy.identity(m)
            for _k in range(m):
                i, j = rng.randrange(m), rng.randrange(m)
                if i != j:
                    R[i] += rng.choice([1, -1, 2]) * R[j]
        else:
            R, _r = numpy.linalg.qr(numpy.array([[rng.gauss(0, 1) for _ in range(m)] for _ in range(m)]))
        yield {"k": "stack", "t": [dyadic(rng) for _ in range(m)], "R": R.tolist(),
               "f": [rng.choice([1.0, 2.0, 0.5, 0.25, 4.0, -2.0, 8.0]) for _ in range(m)],
               "x": [dyadic(rng) for _ in range(m)], "cat": kind}


def gen_mo(rng, per):
    for name, (lo, hi, dims) in DOMMO.items():
        for n in dims:
            for j in range(per):
                cat = ("rand", "corner", "rand", "small")[j % 4] if n else "rand"
                d = {"k": "mo", "name": name, "x": rpoint(rng, lo, hi, n, cat), "cat": cat}
                if name == "zdt4" and n:          # x_1 in [0, 1], the others in [-5, 5]
                    d["x"][0] = rpoint(rng, 0.0, 1.0, 1, cat)[0]
                if name == "dent":
                    d["lam"] = rng.choice([None, None, 0.85, 0.5, 1.0, 0.0])
                yield d
    for name in DTLZ:
        for M in range(1, 8):
            lo_n = max(0, M - 2)
            for n in sorted(set([lo_n, M - 1, M, M + 1, M + 4, M + 9, 30]) | set(rng.sample(range(M, 31), 3))):
                if n < 0:
                    continue
                for j in range(per):
                    cat = ("rand", "corner", "half", "rand")[j % 4] if n else "rand"
                    if cat == "half":       # the optimal distance variables x_m = 0.5 (g = 0 for DTLZ1-5)
                        x = [rng.random() for _ in range(min(n, M - 1))] + [0.5] * max(0, n - (M - 1))
                    else:
                        x = rpoint(rng, 0.0, 1.0, n, cat)
                    d = {"k": "mo", "name": name, "x": x, "M": M, "cat": cat}
                    if name == "dtlz4":
                        d["alpha"] = rng.choice([100, 100.0, 1, 2, 10.5])
                    yield d


# widest block width generated.  (Before fix F17 the source computed the float quotient `value / max_value`, which
# credited every block wider than 54 bits whose top 53 bits are ones; the generator deliberately goes past 54.)
ROYAL_MAX_WIDTH = 128


def royal_widths(name, n, order):
    """block widths actually divided in the call (those with at least one block)"""
    if name == "royal_road1":
        return [order] if order and n // order else []
    w, out = order, []
    while w < order ** 2:
        if n // w:
            out.append(w)
        w *= 2
    return out


def bstr(b):
    return "".join(str(int(v)) for v in b) or "-"


def gen_bin(rng, nbits_ex, nrand):
    for n in range(0, nbits_ex + 1):
        for b in itertools.product((0, 1), repeat=n):
            s = bstr(b)
            for name in ("trap", "inv_trap", "chuang_f1", "chuang_f2", "chuang_f3"):
                yield {"k": "bin", "name": name, "bits": s, "cat": "exh"}
            for order in (1, 2, 3, 4) if n <= 8 else (rng.randint(1, 5),):
                yield {"k": "bin", "name": "royal_road1", "bits": s, "order": order, "cat": "exh"}
            yield {"k": "bin", "name": "royal_road2", "bits": s, "order": rng.randint(0, 4), "cat": "exh"}
    yield {"k": "bin", "name": "royal_road1", "bits": "1011", "order": 0, "cat": "order0"}
    # documented optima (Chuang & Hsu: 40+1 / 40+2 bits; Mitchell: 64 bits, order 8)
    for k in (1, 2, 5, 10):
        z, o = [0] * (4 * k), [1] * (4 * k)
        yield {"k": "bin", "name": "chuang_f1", "bits": bstr(z + [0]), "cat": "opt", "opt": 4 * k}
        yield {"k": "bin", "name": "chuang_f1", "bits": bstr(o + [1]), "cat": "opt", "opt": 4 * k}
        yield {"k": "bin", "name": "chuang_f3", "bits": bstr(z + [0]), "cat": "opt", "opt": 4 * k}
        yield {"k": "bin", "name": "chuang_f3", "bits": bstr([1, 1] + [0] * (4 * k - 3) + [1, 1]), "cat": "opt", "opt": 4 * k}
        yield {"k": "bin", "name": "chuang_f3", "bits": bstr(o + [1]), "cat": "all-ones", "opt": 3 * k + 1}
        for s2, s1 in ((0, 0), (0, 1), (1, 0), (1, 1)):
            yield {"k": "bin", "name": "chuang_f2", "bits": bstr(([s2] * 4 + [s1] * 4) * k + [s2, s1]), "cat": "opt", "opt": 8 * k}
        yield {"k": "bin", "name": "trap", "bits": bstr(o), "cat": "opt", "opt": 4 * k}
        yield {"k": "bin", "name": "inv_trap", "bits": bstr(z), "cat": "opt", "opt": 4 * k}
    # blocks wider than 53 bits: almost complete blocks must not be credited (F17)
    for w in (54, 55, 56, 64, 100):
        for tail in ("0", "01", "0" + "1" * 9, "1"):
            b = "1" * (w - len(tail)) + tail
            yield {"k": "bin", "name": "royal_road1", "bits": b + b, "order": w, "cat": "wide"}
    for b in ("1" * 54 + "0010111011", "1" * 63 + "0", "1" * 64, "1" * 32 + "0" + "1" * 31):
        yield {"k": "bin", "name": "royal_road2", "bits": b, "order": 16, "cat": "wide"}
        yield {"k": "bin", "name": "royal_road2", "bits": b + b[:8], "order": 9, "cat": "wide"}
    yield {"k": "bin", "name": "royal_road1", "bits": "1" * 64, "order": 8, "cat": "opt", "opt": 64}
    yield {"k": "bin", "name": "royal_road2", "bits": "1" * 64, "order": 8, "cat": "opt", "opt": 64 + 64 + 64}
    for _ in range(nrand):
        name = rng.choice(["chuang_f1", "chuang_f2", "chuang_f3", "royal_road1", "royal_road2", "trap", "inv_trap"])
        n = rng.choice([41, 42, 64, rng.randint(13, 80)])
        p = rng.choice([0.1, 0.5, 0.9, 0.98])
        b = [1 if rng.random() < p else 0 for _ in range(n)]
        if rng.random() < 0.5:              # whole blocks of ones / zeros
            w = rng.choice([4, 8])
            for i in range(0, n, w):
                if rng.random() < 0.6:
                    b[i:i + w] = [rng.randint(0, 1)] * len(b[i:i + w])
        d = {"k": "bin", "name": name, "bits": bstr(b), "cat": "rand"}
        if name.startswith("royal"):
            d["order"] = rng.choice([1, 2, 4, 8, 8, 16, 3, 32, 53, 55, 64, 16, n])
            if any(w > ROYAL_MAX_WIDTH for w in royal_widths(name, n, d["order"])):
                d["order"] = rng.choice([2, 4, 8])
                if any(w > ROYAL_MAX_WIDTH for w in royal_widths(name, n, d["order"])):
                    continue
        yield d


def gen_b2f(rng, nrand, ex_bits):
    ranges = [(0.0, 1.0), (-1.0, 1.0), (-5.12, 5.12), (0.1, 0.3), (2.0, 2.0), (1.0, -1.0), (-1e6, 1e6), (0.0, 1e-3)]
    for nb in range(0, ex_bits + 1):
        for total in sorted({nb, 2 * nb, 2 * nb + 1}) if nb else (3,):
            if total > 10:
                continue
            for b in itertools.product((0, 1), repeat=total):
                mn, mx = ranges[(sum(b) + nb) % 4]
                yield {"k": "b2f", "min": mn, "max": mx, "nbits": nb, "bits": bstr(b), "cat": "exh"}
    for _ in range(nrand):
        nb = rng.choice([1, 2, 3, 8, 10, 16, 16, 24, 32, 52, 53, 60, rng.randint(1, 64)])
        ne = rng.randint(0, 4)
        mn, mx = rng.choice(ranges) if rng.random() < 0.6 else (dyadic(rng), dyadic(rng))
        kind = rng.random()
        extra = rng.randint(0, nb - 1)      # trailing bits that do not fill a block are ignored
        if kind < 0.15:
            b, cat = [0] * (nb * ne + extra), "zeros"
        elif kind < 0.3:
            b, cat = [1] * (nb * ne + extra), "ones"
        else:
            b, cat = [rng.randint(0, 1) for _ in range(nb * ne + extra)], "rand"
        yield {"k": "b2f", "min": mn, "max": mx, "nbits": nb, "bits": bstr(b), "cat": cat}
    # (bits are the INTEGERS 0/1: python / numpy booleans print as 'True'/'False' and make the unchanged decoder raise
    #  ValueError in int(..., 2) - an observation, outside "binary decoding" of a 0/1 string)
    # representations of the bit string: narrow numpy integer arrays (a decoder that accumulates in the dtype
    # of the genes wraps at the type's width - seeded change C20-r8m2), tuples, python bools, array.array
    reps = ["int8", "uint8", "int16", "uint16", "int32", "uint32", "int64", "uint64", "tuple", "array:b", "array:B",
            "array:h", "array:i", "array:q"]
    for i in range(max(30, nrand // 4)):
        rep = reps[i % len(reps)]
        nb = [7, 8, 9, 15, 16, 17, 31, 32, 33, 12, 24, 40][(i // len(reps)) % 12]
        ne = rng.randint(1, 3)
        mn, mx = ranges[i % 4]
        b = [1] * nb * ne if i % 3 == 0 else [1] + [rng.randint(0, 1) for _ in range(nb * ne - 1)]
        yield {"k": "b2f", "min": mn, "max": mx, "nbits": nb, "bits": bstr(b), "cat": "rep/" + rep, "rep": rep}


def rot2(c, s):
    return [[c, -s], [s, c]]


def gen_dec(rng, nrand):
    for _ in range(nrand):
        n = rng.choice([0, 1, 2, 3, 5, 10, 30, rng.randint(1, 30)])
        x = [dyadic(rng) for _ in range(n)]
        # translate
        t = [dyadic(rng) for _ in range(n)]
        r = rng.random()
        if r < 0.1 and n:
            t = t[:rng.randint(0, n - 1)]           # zip truncation
        elif r < 0.2:
            t = t + [dyadic(rng)]
        elif r < 0.3:
            t = [0.0] * n
        yield {"k": "translate", "t": t, "x": x}
        # one decorated function re-parameterised through its documented setters between calls
        if n and rng.random() < 0.35:
            m = min(n, 6)
            mkx = lambda: [dyadic(rng) for _ in range(m)]
            hist = [[[dyadic(rng) for _ in range(m)], mkx()] for _ in range(rng.randint(1, 3))]
            yield {"k": "translate", "t": [dyadic(rng) for _ in range(m)], "x": mkx(), "reset": hist}
            pw = [1.0, 2.0, 0.5, 0.25, 4.0, -2.0, 8.0, 0.125]
            histf = [[[rng.choice(pw) for _ in range(m)], mkx()] for _ in range(rng.randint(1, 3))]
            yield {"k": "scale", "f": [rng.choice(pw) for _ in range(m)], "x": mkx(), "exact": True, "reset": histf}

            def perm_matrix():
                p_ = list(range(m)); rng.shuffle(p_)
                R_ = [[0.0] * m for _ in range(m)]
                for i_ in range(m):
                    R_[i_][p_[i_]] = rng.choice([1.0, -1.0, 2.0])
                return R_
            histr = [[perm_matrix(), mkx()] for _ in range(rng.randint(1, 2))]
            yield {"k": "rotate", "R": perm_matrix(), "x": mkx(), "cat": "setter", "reset": histr}
        if rng.random() < 0.3:
            yield {"k": "translate", "t": [rng.uniform(-5, 5) for _ in range(n)], "x": [rng.uniform(-5, 5) for _ in range(n)],
                   "exact": False}
        # scale
        if rng.random() < 0.6:
            f = [rng.choice([1.0, 2.0, 0.5, 0.25, 4.0, -2.0, 1024.0, 0.125]) for _ in range(n)]
            yield {"k": "scale", "f": f, "x": x, "exact": True}
        else:
            f = [rng.choice([3.0, 0.1, 10.0, -7.0, rng.uniform(0.01, 100)]) for _ in range(n)]
            if n and rng.random() < 0.1:
                f[rng.randrange(n)] = 0.0           # ZeroDivisionError in __init__
            yield {"k": "scale", "f": f, "x": [rng.uniform(-10, 10) for _ in range(n)], "exact": False}
        # rotate
        n = rng.choice([1, 2, 2, 3, 4, 6, 10, 30])
        kind = rng.choice(["perm", "signed", "angle", "qr", "identity", "int"])
        if kind == "identity":
            R = numpy.identity(n)
        elif kind == "perm":
            p = list(range(n)); rng.shuffle(p)
            R = numpy.zeros((n, n)); R[range(n), p] = 1.0
        elif kind == "signed":
            p = list(range(n)); rng.shuffle(p)
            R = numpy.zeros((n, n))
            for i in range(n):
                R[i, p[i]] = rng.choice([1.0, -1.0])
        elif kind == "angle":                        # block rotations by exact angles (3-4-5, 5-12-13, 90 deg)
            R = numpy.identity(n)
            for i in range(0, n - 1, 2):
                c, s = rng.choice([(0.6, 0.8), (0.8, -0.6), (0.0, 1.0), (-1.0, 0.0), (5 / 13.0, 12 / 13.0)])
                R[i:i + 2, i:i + 2] = rot2(c, s)
        elif kind == "int":                          # unimodular integer matrix (invertible, not orthogonal)
            R = numpy.identity(n)
            for _k in range(n):
                i, j = rng.randrange(n), rng.randrange(n)
                if i != j:
                    R[i] += rng.choice([1, -1, 2]) * R[j]
        else:
            A_ = numpy.array([[rng.gauss(0, 1) for _ in range(n)] for _ in range(n)])
            R, _r = numpy.linalg.qr(A_)
        xs = [dyadic(rng) for _ in range(n)] if kind != "qr" else [rng.uniform(-5, 5) for _ in range(n)]
        yield {"k": "rotate", "R": R.tolist(), "x": xs, "cat": kind}
        # noise
        m = rng.randint(0, 4)
        result = [dyadic(rng) for _ in range(m)]
        spec = rng.choice(["rep1", "rep0", "each"])
        if spec == "each":
            k = rng.choice([m, m, m, max(0, m - 1), m + 1])
            spec = "each:" + "".join(rng.choice("01") for _ in range(k))
        nd = m + rng.randint(0, 2) if rng.random() < 0.9 else rng.randint(0, m)
        yield {"k": "noise", "spec": spec, "result": result, "draws": [dyadic(rng, 2) for _ in range(nd)]}
        if rng.random() < 0.3:
            mk = lambda: rng.choice(["rep1", "rep0", "each:" + "".join(rng.choice("01") for _ in range(m))])
            resets = [mk() for _ in range(rng.randint(1, 3))]
            yield {"k": "noise", "spec": mk(), "result": result, "reset": resets,
                   "draws": [dyadic(rng, 2) for _ in range(4 * m + 2)]}
            # the same with re-used / in-place refilled argument lists (one entry per objective)
            mke = lambda: "each:" + "".join(rng.choice("01") for _ in range(m))
            resets = [mke() for _ in range(rng.randint(1, 3))]
            yield {"k": "noise", "spec": mke(), "result": result, "reset": resets,
                   "how": [rng.choice(["inplace", "reuse", "fresh", "inplace"]) for _ in resets],
                   "draws": [dyadic(rng, 2) for _ in range(4 * m + 2)]}
        if rng.random() < 0.2:
            yield {"k": "bound", "kind": rng.choice(["mirror", "wrap", "clip"]),
                   "x": [[dyadic(rng) for _ in range(rng.randint(0, 4))] for _ in range(rng.randint(0, 3))]}


def gen_mp(rng, nrun, changes):
    # evaluation alone: max over separately given peaks
    # The parameter space is the whole configuration space, not only the three scenarios: heights and widths of
    # either sign (inverted landscapes: a function1 peak of negative height, a cone of negative width exceed their
    # "height"), zero widths, a basis value below / between / above the peaks.  The modes cycle with the index,
    # the seed only draws the numbers.
    hmodes = [(30, 70), (30, 70), (-70, -30), (-70, 70), (-1, 1), (-70, -30)]
    wmodes = [(0.1, 12), (0.0001, 0.2), (-12, -0.1), (-1, 1), (0.1, 12)]
    for i in range(nrun * 40):
        dim = rng.randint(1, 5)
        npk = (0, 1, 2, 2, 3, 5, 5, 10)[i % 8]
        hlo, hhi = hmodes[i % len(hmodes)]
        wlo, whi = wmodes[(i // len(hmodes)) % len(wmodes)]
        fset = ("csf", "f", "c", "cf", "s", "csf")[(i // 3) % 6]
        peaks = [[rng.choice(fset), [rng.uniform(0, 100) for _ in range(dim)], rng.uniform(hlo, hhi),
                  0.0 if rng.random() < 0.05 else rng.uniform(wlo, whi)] for _ in range(npk)]
        if npk >= 2 and rng.random() < 0.3:
            peaks[1] = list(peaks[0])                 # tie between two peaks
        basis = rng.choice([None, None, 10.0, 1000.0, -5.0, rng.uniform(hlo, hhi), rng.uniform(-1, 1)])
        r = rng.random()
        if r < 0.6 or not npk:
            x = [rng.uniform(0, 100) for _ in range(dim)]
        elif r < 0.8:
            x = list(rng.choice(peaks)[1])            # exactly on a peak centre
        else:
            x = [c + rng.uniform(-1, 1) for c in rng.choice(peaks)[1]]      # next to a peak centre
        yield {"k": "mpcall", "x": x, "peaks": peaks, "basis": basis}
    for i in range(nrun):
        for sc in (1, 2, 3):
            dim = rng.choice([1, 2, 5]) if sc < 3 else rng.choice([2, 5])
            base = {1: 5, 2: 10, 3: 50}[sc]
            d = {"k": "mp", "scenario": sc, "dim": dim, "changes": changes, "seed": rng.randrange(1 << 30),
                 "x": [rng.uniform(0, 100) for _ in range(dim)]}
            mode = (i + sc) % 3
            if mode == 0:
                d["npeaks"] = base
            else:
                lo = rng.choice([1, 1, 2, base // 2])
                hi = rng.choice([base, base + 5, 2 * base])
                d["npeaks"] = [lo, rng.randint(lo, hi), hi]
                d["sev"] = rng.choice([0.1, 0.5, 1.0, 0.3, 2.0, 5.0])
                if rng.random() < 0.3:
                    d["npeaks"] = [lo, lo, lo]            # degenerate interval
            if rng.random() < 0.3:
                n0 = d["npeaks"] if isinstance(d["npeaks"], int) else d["npeaks"][1]
                d["pfuncs"] = "".join(rng.choice("csf") for _ in range(n0))
            if rng.random() < 0.25:
                d["period"] = rng.choice([1, 3, 7])
            if rng.random() < 0.2:
                d["move_severity"] = rng.choice([0.0, 30.0, 150.0])    # zero shift / reflections at the borders
            if rng.random() < 0.2:
                d["lambda_"] = rng.choice([0.0, 1.0, 0.5])
            # configuration variants outside the published scenarios (cycling with the run index)
            variant = (i + 2 * sc) % 5
            if variant == 3:          # inverted landscape: negative random heights
                d.update(min_height=-70.0, max_height=-30.0, uniform_height=0, uniform_width=0)
            elif variant == 4:        # heights around zero, widths of either sign
                d.update(min_height=-5.0, max_height=5.0, uniform_height=0, min_width=-2.0, max_width=2.0,
                         uniform_width=0, height_severity=2.0, width_severity=0.5)
            yield d
            e0 = dict(d, k="mpinit"); e0.pop("changes")
            yield e0
            # counted evaluations with a small period (negative / zero period: never a change)
            e = dict(d, k="mpcount", period=rng.choice([1, 2, 3, 5, 7, 0, -3, 10]), evals=rng.randint(1, 25))
            e.pop("changes")
            if sc == 3:
                e["npeaks"] = d["npeaks"] if isinstance(d["npeaks"], int) and rng.random() < 0.3 else [2, 6, 12]
                e["sev"] = d.get("sev", 0.5)
                e.pop("pfuncs", None)
            yield e


# functions excluded from the numpy-individual twins (none: before fix F26 chuang_f3 built its wrap-around block with
# `individual[-2:] + individual[:2]`, which ADDS numpy arrays element-wise instead of concatenating them)
NUMPY_SKIP = set()


def numpy_twin(d, rng):
    """the same case with the individual handed over as a numpy array (DEAP's ndarray-based individuals)"""
    if d["k"] in ("f", "shekel", "mo", "bin", "b2f", "scale", "rotate", "translate", "stack", "rand") \
            and not d.get("reset") and d.get("name") not in NUMPY_SKIP \
            and rng.random() < (0.6 if d.get("name") == "chuang_f3" else 0.2):
        return dict(d, np=True)
    return None


def generate(tier, rng, mult):
    """streams in the order of the statement's clauses (a time budget truncates from the end); the seed varies the
    inputs inside every stream, never which streams run"""
    from props import c20_more as more
    thorough = tier == "thorough"
    per = (100 if thorough else 10) * mult
    streams = [gen_single(rng, per * 2), gen_rand(rng, (400 if thorough else 40) * mult), gen_mo(rng, per * 2),
               gen_mp(rng, (150 if thorough else 10) * mult, 50),
               more.gen_mpworld(rng, (4200 if thorough else 420) * mult),
               more.gen_dechist(rng, (19200 if thorough else 1920) * mult),
               gen_stack(rng, (6000 if thorough else 400) * mult),
               gen_dec(rng, (60000 if thorough else 4000) * mult),
               more.gen_mpextra(rng, (3000 if thorough else 300) * mult),
               more.gen_ind(rng, (4000 if thorough else 400) * mult),
               gen_b2f(rng, (60000 if thorough else 5000) * mult, 5 if thorough else 4),
               gen_bin(rng, 12 if thorough else 9, (100000 if thorough else 6000) * mult)]
    for st in streams:
        for d in st:
            yield d
            t = numpy_twin(d, rng)
            if t is not None:
                yield t


# ------------------------------------------------------------------------------------------
def shrink(d):
    k = d["k"]
    if k in ("f", "mo") and len(d["x"]) > 1 and d.get("cat") != "opt":
        for i in range(len(d["x"])):
            e = dict(d); e["x"] = d["x"][:i] + d["x"][i + 1:]
            yield e
    if k in ("f", "mo") and d.get("cat") != "opt":
        for i, v in enumerate(d["x"]):
            for r in (0.0, 0.5, 1.0, float(round(v)), round(v, 2)):
                if r != v:
                    e = dict(d); e["x"] = d["x"][:i] + [r] + d["x"][i + 1:]
                    yield e
    if k == "mo" and d.get("M", 0) > 2:
        e = dict(d); e["M"] = d["M"] - 1
        yield e
    if k in ("bin", "b2f") and d["bits"] != "-":
        s = d["bits"]
        for i in range(len(s)):
            yield dict(d, bits=(s[:i] + s[i + 1:]) or "-", opt=None)
        for i, c in enumerate(s):
            if c == "1":
                yield dict(d, bits=s[:i] + "0" + s[i + 1:], opt=None)
    if k == "mpcount" and d["evals"] > 1:
        yield dict(d, evals=d["evals"] // 2)
        yield dict(d, evals=d["evals"] - 1)
    if k == "mp":
        if d["changes"] > 1:
            yield dict(d, changes=d["changes"] // 2)
            yield dict(d, changes=d["changes"] - 1)
        if d["dim"] > 1:
            yield dict(d, dim=1, x=d["x"][:1])
    if k in ("translate", "scale") and len(d["x"]) > 1:
        for i in range(len(d["x"])):
            e = dict(d); e["x"] = d["x"][:i] + d["x"][i + 1:]
            key = "t" if k == "translate" else "f"
            e[key] = d[key][:i] + d[key][i + 1:]
            yield e
    if k == "mpworld":
        ops = d["ops"]
        if len(ops) > 1:
            yield dict(d, ops=ops[:len(ops) // 2])
            yield dict(d, ops=ops[:-1])
            for i in range(min(len(ops), 12)):
                yield dict(d, ops=ops[:i] + ops[i + 1:])
        if d["dim"] > 1:
            yield dict(d, dim=1, ops=[o if len(o) < 3 else [o[0], o[1], o[2][:1]] for o in ops])
    if k == "dechist":
        st = d["steps"]
        for i in range(len(st)):
            if len(st) > 1:
                yield dict(d, steps=st[:i] + st[i + 1:])
        for i, s_ in enumerate(st):
            if s_.get("scribble") is not None:
                yield dict(d, steps=st[:i] + [{k_: v for k_, v in s_.items() if k_ != "scribble"}] + st[i + 1:])
    if k == "mpcall" and len(d["peaks"]) > 1:
        for i in range(len(d["peaks"])):
            yield dict(d, peaks=d["peaks"][:i] + d["peaks"][i + 1:])


def classify(desc, msg, known):
    return None
