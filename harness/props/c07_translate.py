"""C07 — the translator tie: `translate(repo)` for harness/lib.py::_translated_obligations.

Reads deap/tools/emo.py of `repo` AS IT IS NOW, renders the functions / statement segments listed in TARGETS with
harness/py2lean_c07.py (an imperative sub-language: while, mutation in state-passing style, recursion with fuel,
`random.randint` from the tape — ITS DOCSTRING IS THE TRUSTED BASE) as Lean definitions `Gen.<name>` and appends the
committed theorems of lean/DeapModel/GenEq/C07.lean.tmpl (`Gen.<name>` refines / equals the hand-written model of
Core/Spea2.lean, Core/Nsga3.lean).  A target that has a theorem block in the template but is no longer translatable is a
PROBLEM (the tie is broken); the other functions of the C07 surface are attempted and listed as refused with the reason."""
import ast
import os
import re

import py2lean_c07 as T
from py2lean import Refuse
from py2lean_c07 import F, I, L

HERE = os.path.dirname(os.path.abspath(__file__))
TEMPLATE = os.path.normpath(os.path.join(HERE, "..", "..", "lean", "DeapModel", "GenEq", "C07.lean.tmpl"))
REL = "deap/tools/emo.py"

# parameter / local types and loop bounds: assumptions of the tie (see the docstring of py2lean_c07)
ARR = {"array": L(F), "begin": I, "end": I}
FUEL = {("_partition", k): "(v_array.length + 1)" for k in range(3)}
LOCALS = {("gen_refs_recursive", "points"): L(L(F))}


def pick_del(fn):
    """the one `for` statement of selSPEA2 whose body is a single `del`"""
    c = [n for n in ast.walk(fn) if isinstance(n, ast.For) and len(n.body) == 1 and isinstance(n.body[0], ast.Delete)]
    return c if len(c) == 1 else []


# (python name, Lean name, kind, arguments)
TARGETS = [
    ("_partition", "Gen.partition", "function", dict(sig=ARR)),
    ("_randomizedPartition", "Gen.randomizedPartition", "function", dict(sig=ARR)),
    ("_randomizedSelect", "Gen.randomizedSelect", "function", dict(sig=dict(ARR, i=F, **{"return": F}))),
    ("gen_refs_recursive", "Gen.genRefs", "function",
     dict(sig={"ref": L(F), "nobj": I, "left": I, "total": I, "depth": I, "return": L(L(F))}, inside="uniform_reference_points")),
    ("selSPEA2", "Gen.spea2_del", "segment",
     dict(pick=pick_del, reads={"to_remove": L(I), "chosen_indices": L(I)}, writes=["chosen_indices"])),
]
# the rest of the C07 surface: attempted with these signatures so that the reason of the refusal is the translator's own
OTHERS = [
    ("selSPEA2", {"individuals": L(I), "k": I}),
    ("uniform_reference_points", {"nobj": I, "p": I, "scaling": F}),
    ("niching", {"individuals": L(I), "k": I, "niches": L(I), "distances": L(F), "niche_counts": L(I)}),
    ("find_extreme_points", {"fitnesses": L(L(F)), "best_point": L(F), "extreme_points": L(L(F))}),
    ("find_intercepts", {"extreme_points": L(L(F)), "best_point": L(F), "current_worst": L(F), "front_worst": L(F)}),
    ("associate_to_niche", {"fitnesses": L(L(F)), "reference_points": L(L(F)), "best_point": L(F), "intercepts": L(F)}),
    ("selNSGA3", {"individuals": L(I), "k": I, "ref_points": L(L(F))}),
]

HEADER = """import DeapModel.Lemmas.C07Gen

set_option linter.unusedVariables false
set_option linter.unusedSimpArgs false
set_option linter.unusedSectionVars false

"""


def template_blocks():
    src = open(TEMPLATE).read()
    blocks, pre, cur, buf = {}, [], None, []
    for line in src.splitlines():
        m = re.match(r"^--! begin (\S+)\s*$", line)
        if m:
            cur, buf = m.group(1), []
            continue
        if re.match(r"^--! end\s*$", line):
            blocks[cur] = "\n".join(buf)
            cur = None
            continue
        (buf if cur is not None else pre).append(line)
    return "\n".join(pre), blocks


def theorem_names(text):
    return re.findall(r"^theorem\s+([\w.']+)", text, re.M)


def translate(repo):
    problems, defs, refused, table, out = [], [], [], [], [HEADER]
    pre, blocks = template_blocks()
    path = os.path.join(repo, REL)
    try:
        src = open(path).read()
        tr = T.Translator(src, FUEL, LOCALS)
    except (OSError, SyntaxError) as e:
        return {"problems": ["%s unreadable: %s" % (REL, e)], "source": None, "theorems": [], "definitions": [],
                "refused": [], "table": []}
    done = []
    for py, lean, kind, kw in TARGETS:
        try:
            if kind == "function":
                text = tr.function(py, lean, kw["sig"], inside=kw.get("inside"))
                where = "function"
            else:
                text, lines = tr.segment(py, lean, kw["pick"], kw["reads"], kw["writes"])
                where = "segment, lines %d-%d" % lines
        except Refuse as e:
            refused.append("%s:%s -> %s (%s)" % (REL, py, lean, e))
            table.append((REL, py, lean, "refused", str(e)))
            if lean in blocks:
                problems.append("%s (%s) has left the translated sub-language (%s); its theorems %s cannot be checked"
                                % (py, lean, e, theorem_names(blocks[lean])))
            continue
        out.append("/-- `%s:%s` (%s), regenerated from the source -/" % (REL, py, where))
        out.append(text)
        out.append("")
        defs.append(lean)
        done.append(lean)
        table.append((REL, py, lean, "translated", "theorem" if lean in blocks else "no theorem"))
    for py, sig in OTHERS:
        try:
            T.Translator(src, FUEL, LOCALS).function(py, "Gen.whole_" + py, sig)
            table.append((REL, py, "-", "translatable", "not tied: no theorem"))
        except Refuse as e:
            refused.append("%s:%s (%s)" % (REL, py, e))
            table.append((REL, py, "-", "refused", str(e)))
        except Exception as e:        # a construct the scan itself does not know: refused, never guessed
            refused.append("%s:%s (%s: %s)" % (REL, py, type(e).__name__, e))
            table.append((REL, py, "-", "refused", "%s: %s" % (type(e).__name__, e)))
    for lean in blocks:
        if lean not in [t[1] for t in TARGETS]:
            problems.append("%s has theorems in the template but is not a target" % lean)
    out.append(pre)
    theorems = []
    for lean in done:
        if lean in blocks:
            out.append(blocks[lean])
            theorems += theorem_names(blocks[lean])
    return {"problems": problems, "source": "\n".join(out), "theorems": theorems, "definitions": defs,
            "refused": refused, "table": table}


if __name__ == "__main__":
    import sys
    r = translate(sys.argv[1] if len(sys.argv) > 1 else os.environ.get("DEAP_REPO", "/repo"))
    if len(sys.argv) > 2:
        open(sys.argv[2], "w").write(r["source"] + "\n" + "".join("#print axioms %s\n" % n for n in r["theorems"]))
    for row in r["table"]:
        print("%-18s %-26s %-26s %-12s %s" % row)
    print("problems:", r["problems"])
    print(len(r["definitions"]), "definitions,", len(r["theorems"]), "theorems,", len(r["refused"]), "refused")
