"""C16 — Created types clone and pickle faithfully and independently
(deap/creator.py, deap/base.py Toolbox + Fitness.__deepcopy__, gp.PrimitiveTree.__deepcopy__).

Streams
  derive creator classes DERIVED FROM creator classes (props/c16_derive.py): histories create / instantiate / derive / instantiate
         over chains of 1..3 levels and every base; clause 1 on every instance (own, fresh, unshared, write-independent attributes
         for every declaration on the creator-MRO), clone + pickle of every level; replayed by Heap.runEvents (Core/HeapDerive.lean).
  obj    one created class + one instance: creation twice (fresh per-instance attributes), clone chains
         through toolbox.clone, pickle round trips with EVERY protocol in this interpreter; each is sent
         to the heap model (Core/Heap.lean) as a concrete object graph and the model's copy is compared
         with the real copy (identity-aware dump: abstraction + which objects are shared);
         the oracle evaluates the statement directly: equal abstraction, equivalent class, no shared mutable
         object (id / numpy.shares_memory), and a mutation test in both directions.
  fresh  batches of obj cases pickled here and unpickled in a FRESH interpreter (subprocess that optionally
         re-runs the same creator.create calls first) which reports a canonical structural dump.
  tb     Toolbox aliases: frozen + call arguments, keyword override, decoration, picklability.
  tbcls  creator-made classes registered directly as alias functions (with / without frozen arguments), pickled.
  clash  (inside obj and fresh) pickles are loaded while the same class NAMES are bound to different classes
         (re-created in this interpreter, or defined by the fresh interpreter itself before loading — with other
         keyword names, or with the SAME keyword names and other values: weights, typecode, class-level
         constants): the result must be equivalent to the ORIGINAL class.
  hist   histories create / re-create / delete / new / dump / load over one creator namespace, every base type and
         every protocol; each load is checked by the oracle against the object that was dumped, and the whole
         history is replayed by the Lean namespace model (Heap.metaCreate / unbind / dumpP / loadP): the loaded graph
         with identity-free class descriptions, and the final bindings, must agree.
  gp     GP node objects under histories of renameArguments (name != str(value)): pickle round trip of a tree over
         the set, every slot of every node compared (oracle) and against Heap.Gp (renameArguments, getstate/setstate).
  Fitness classes with per-instance containers of their own (creator.create("Fit", base.Fitness, weights=..,
  notes=list)) are in the obj stream: what a copy does with them is outside the statement's equalities (DESIGN
  section 6), sharing them with the original is not.
"""
import array
import copy
import hashlib
import json
import operator
import os
import pickle
import subprocess
import sys
import warnings

import numpy

HERE = os.path.dirname(os.path.abspath(__file__))
if os.path.dirname(HERE) not in sys.path:
    sys.path.insert(0, os.path.dirname(HERE))

from lib import Case, Infra, REPO  # noqa: E402
from deap import base, creator, gp  # noqa: E402

ANCHORS = [("deap/creator.py", []),
           ("deap/base.py", ["Toolbox", "Fitness.__deepcopy__", "ConstrainedFitness.__deepcopy__"]),
           ("deap/gp.py", ["PrimitiveTree.__deepcopy__", "PrimitiveTree.__init__", "Primitive", "Terminal",
                           "MetaEphemeral"]),
           ("deap/tools/init.py", ["initRepeat", "initIterate", "initCycle"])]
LEVEL = "partial"
RULE = ("derived classes: chains of 1..3 creator classes derived from a creator class of every base (list, array b/i/d, ndarray int/float, set, dict, "
        "PrimitiveTree), the child redeclaring none / some / all of the inherited per-instance attributes and adding its own, class-level attributes on every "
        "level, histories create / instantiate / derive / instantiate parent-first, child-first and interleaved (5 fixed chain shapes x 9 bases + random chains); "
        "initialisers: tools.initRepeat / initCycle / initIterate with counting closures x every base (list, array b/i/d, ndarray int/float, set, dict) "
        "x 8 attribute configurations, 1..3 individuals built consecutively, n in 0..5, 1..3 functions, generator returning list / tuple / iterator; "
        "structured enumeration: every base (list, array b/i/d, ndarray int/float/bool and float32/int8/uint8/int16/"
        "complex64, set, dict, PrimitiveTree; fitness values incl. non power-of-two weights with values whose weighted "
        "value is not reproduced by values->wvalues, and integers above 2**53; compared bit-exactly) x "
        "fitness invalid/valid x 1..3 objectives x attribute configurations (none, per-instance list/dict/set, "
        "strategy array, nested created class, class-level mutable, extra nested mutables with internal aliasing, "
        "ndarray/array attributes, second fitness) x content sizes 0,1,3; plus random attribute graphs; every case "
        "is cloned in chains of 1..3, pickled with protocols 0..5 here, and (fresh stream) in a new interpreter; "
        "the pickles are loaded again after the class names were re-created with other keyword names / the same names "
        "and other values; namespace histories (create, re-create, delete, new, dump, load) per base type; trees over "
        "primitive sets with renamed arguments (six fixed histories incl. swap and rename-back, plus random ones). "
        "Non-trivial = distinct case with at least one mutable attribute or non-empty content")
EXHAUSTIVE = {"quick": False, "thorough": False}
TIME_BUDGET = {"quick": 60, "thorough": 900}
CASE_TIMEOUT = 240
MIN_CASES = 1500
TRUSTED = ["CPython copy.deepcopy / pickle / copyreg / functools.partial dispatch (which hook is called for which "
           "object and protocol) — modelled as the dispatcher in Core/Heap.lean, seen only by this correspondence",
           "numpy.ndarray.copy / array.array buffer copy produce an independent buffer (checked with "
           "numpy.shares_memory and by the mutation test)",
           "the operating system starts a fresh interpreter for the fresh-interpreter stream"]
ASSUMPTIONS = ["object graphs are acyclic (an individual does not contain itself)",
               "class-level attributes (non-type keyword arguments of creator.create, e.g. shared=[1,2]) are state of the "
               "CLASS: original and clone share them by design (same class object); the statement's 'attributes' are "
               "read as attributes of the individual (DESIGN section 6); after unpickling the re-created class carries "
               "an equal copy (checked as class equivalence)",
"numpy individuals of dtype=object hold dicts / scalars (numpy cannot build a 1-D object array from ragged sequences)",
               "per-instance attributes named in creator.create are still present on the object (not deleted); "
               "deleted ones are exercised in the model-vs-implementation stream only",
               "attributes hung on a Fitness object other than its declared state are outside the statement "
               "(DESIGN section 6); exercised in the model-vs-implementation stream only",
               "the dtype of an EMPTY numpy individual is not content (numpy.array([]) is float64 after unpickling)",
               "GP node objects (Primitive, Terminal, ephemeral instances) are immutable and may be shared"]
EXPLANATION = ("Pickle PROTOCOLS, the fresh interpreter, and the picklability of undecorated toolbox aliases are "
               "correspondence/oracle-only (the model has one reduce-tuple semantics and functools.partial as data).  "
               "Class identity across pickling is modelled (Heap.Module / nsRun / dumpP / loadP: classes pickle by value "
               "and are re-created from the pickled triple whatever the namespace holds; theorems "
               "pickle_class_independent_of_namespace, loaded_object_class_record, pickle_class_description, "
               "meta_create_*), so are the slots of GP nodes (Heap.Gp, node_pickle_roundtrip, rename_keeps_node_names).  "
               "partial: the heap model proves the independence argument for the hooks as coded (clone/pickle "
               "equal and disjoint, write independence, chains); that CPython dispatches to these hooks for every "
               "base type and pickle protocol, also in a fresh interpreter, is runtime behaviour checked here.")

PROTOCOLS = list(range(0, pickle.HIGHEST_PROTOCOL + 1))

# ----------------------------------------------------------------------------------------------------
# GP primitive set: module level, named generator functions, so that pickles resolve in a fresh interpreter
# ----------------------------------------------------------------------------------------------------


def c16_eph_int():
    return 7


def c16_eph_float():
    return 0.25


def _make_pset():
    ps = gp.PrimitiveSet("C16MAIN", 2)
    ps.addPrimitive(operator.add, 2)
    ps.addPrimitive(operator.mul, 2)
    ps.addPrimitive(operator.neg, 1)
    ps.addTerminal(1)
    ps.addTerminal(0.5)
    with warnings.catch_warnings():
        warnings.simplefilter("ignore")
        ps.addEphemeralConstant("c16_eph_int", c16_eph_int)
        ps.addEphemeralConstant("c16_eph_float", c16_eph_float)
    return ps


PSET = _make_pset()
ARITY = {"add": 2, "mul": 2, "neg": 1}
TERMS = ["ARG0", "ARG1", "1", "0.5"]
NODE_TYPES = (gp.Primitive, gp.Terminal)


_RPSETS = {}


def pset_for(rename):
    """The primitive set the tree of a case is built from.  `rename` = a history of renameArguments calls
    (each a list of [old, new] pairs); the argument terminals of such a set have name != str(value)."""
    if not rename:
        return PSET
    key = json.dumps(rename)
    if key not in _RPSETS:
        ps = gp.PrimitiveSet("C16R", 2)
        ps.addPrimitive(operator.add, 2)
        ps.addPrimitive(operator.mul, 2)
        ps.addPrimitive(operator.neg, 1)
        ps.addTerminal(1)
        ps.addTerminal(0.5)
        for step in rename:
            ps.renameArguments(**dict((str(a), str(b)) for a, b in step))
        _RPSETS[key] = ps
    return _RPSETS[key]


def build_tree_nodes(tokens, rename=None):
    """Tokens ARG0 / ARG1 stand for the first / second ARGUMENT of the set, whatever it is called now."""
    ps = pset_for(rename)
    out = []
    for t in tokens:
        if isinstance(t, list):           # ["E", ephemeral name, value]
            node = PSET.mapping[t[1]]()
            node.value = t[2]
            out.append(node)
        elif t in ("ARG0", "ARG1"):
            out.append(ps.mapping[ps.arguments[int(t[3])]])
        else:
            out.append(ps.mapping[t])
    return out


RENAMINGS = [
    [[["ARG0", "x"]]],
    [[["ARG0", "x"], ["ARG1", "y"]]],
    [[["ARG1", "y"]], [["y", "z"]]],
    [[["ARG0", "ARG1"], ["ARG1", "ARG0"]]],                       # swap (F30)
    [[["ARG0", "a"]], [["ARG1", "b"]], [["a", "b2"], ["b", "a"]]],
    [[["ARG0", "x"]], [["x", "ARG0"]]],                           # renamed and renamed back: name == value again
]


def random_tree_tokens(rng, depth):
    if depth <= 0 or rng.random() < 0.25:
        r = rng.random()
        if r < 0.3:
            return [["E", "c16_eph_int", rng.randint(-3, 3)]]
        if r < 0.45:
            return [["E", "c16_eph_float", rng.choice([0.5, -1.25, 2.0])]]
        return [rng.choice(TERMS)]
    p = rng.choice(sorted(ARITY))
    out = [p]
    for _ in range(ARITY[p]):
        out += random_tree_tokens(rng, depth - 1)
    return out


# ----------------------------------------------------------------------------------------------------
# building classes and instances from a description (used by parent and child alike)
# ----------------------------------------------------------------------------------------------------

def record_fn(*args, **kwargs):
    """The function registered in toolbox cases: reports how it was called."""
    return [list(args), sorted(kwargs.items()), list(kwargs), []]


class Plain(object):
    """An ordinary user object used as an attribute value."""

    def __init__(self):
        self.payload = []


def cname(uid, name):
    return "C16_%s_%s" % (uid, name)


def drop_classes(uid):
    pre = "C16_%s_" % uid
    for n in [n for n in vars(creator) if n.startswith(pre)]:
        delattr(creator, n)


TC_OTHER = {"b": "h", "i": "l", "d": "f", "h": "b", "l": "i", "f": "d"}


def vary_value(v):
    """A value of the same kind with other content (class-level constants of a re-created class)."""
    if isinstance(v, list):
        tag = v[0]
        if tag in ("L", "T", "S", "FS"):
            return v + ["B"]
        if tag == "D":
            return v + [["B", 1]]
        if tag in ("A", "N"):
            return [tag, v[1], list(v[2]) + [1]]
        if tag == "=":
            return ["=", v[1], vary_value(v[2])]
        return v
    if isinstance(v, bool):
        return not v
    if isinstance(v, (int, float)):
        return v + 1
    if isinstance(v, str):
        return v + "B"
    if v is None:
        return "B"
    return v


def build_classes(d, uid, variant=False):
    """variant: the SAME names and bases bound to DIFFERENT classes — what another script, or a later
    creator.create in this interpreter, may have put there.
      "names" (or True): weights negated and an EXTRA class-level attribute (other keyword names);
      "values": the same keyword NAMES with other VALUES (weights, typecode, class-level constants)."""
    if variant is True:
        variant = "names"
    wmul = {False: 1, "names": -1, "values": -2}[variant]

    def mk(name, pybase, **kw):
        full = cname(uid, name)
        if variant == "names":
            kw["c16_variant"] = "B"
        if variant == "values" and "typecode" in kw:
            kw["typecode"] = TC_OTHER[kw["typecode"]]
        with warnings.catch_warnings():
            warnings.simplefilter("ignore")
            if hasattr(creator, full) and not variant:
                delattr(creator, full)
            creator.create(full, pybase, **kw)      # variant: re-creation over the existing name (RuntimeWarning)
        return getattr(creator, full)
    cl = {}
    fb = base.ConstrainedFitness if d.get("cfit") else base.Fitness
    fkw = {}
    for name, t in sorted(d.get("fitinst", {}).items()):     # a fitness class with per-instance containers of its own
        fkw[name] = {"list": list, "dict": dict, "set": set}[t]
    if d.get("intw"):          # integer weights (products stay Python ints: exact beyond 2**53)
        cl["Fit"] = mk("Fit", fb, weights=tuple(wmul * int(w) for w in d["weights"]), **fkw)
    else:
        cl["Fit"] = mk("Fit", fb, weights=tuple(float(wmul) * float(w) for w in d["weights"]), **fkw)
    kw = {}
    for name, t in sorted(d.get("inst", {}).items()):
        if t in ("list", "dict", "set"):
            kw[name] = {"list": list, "dict": dict, "set": set}[t]
        elif t == "fit":
            kw[name] = cl["Fit"]
        elif t == "fit2":
            if "Fit2" not in cl:
                cl["Fit2"] = mk("Fit2", base.Fitness, weights=(1.0 * wmul, -1.0 * wmul))
            kw[name] = cl["Fit2"]
        elif t == "strategy":
            if "Strat" not in cl:
                cl["Strat"] = mk("Strat", array.array, typecode="d")
            kw[name] = cl["Strat"]
        elif t == "nested":
            if "Nested" not in cl:
                cl["Nested"] = mk("Nested", list, inner=dict, marks=list, level=4 if variant == "values" else 3)
            kw[name] = cl["Nested"]
        elif t == "plainobj":
            kw[name] = Plain
        else:
            raise ValueError(t)
    for kind in d.get("aux", []):      # created classes whose INSTANCES are nested inside the individual
        pyb, extra = {"nd": (numpy.ndarray, {}), "arr": (array.array, {"typecode": "d"}), "set": (set, {}),
                      "tree": (gp.PrimitiveTree, {}), "dict": (dict, {}), "list": (list, {})}[kind]
        cl["Aux_" + kind] = mk("Aux" + kind, pyb, fitness=cl["Fit"], tag=list, **extra)
    env = {}
    for name, v in sorted(d.get("cattrs", {}).items()):
        kw[name] = build_value(vary_value(v) if variant == "values" else v, env, cl)
    b = d["base"]
    if b == "list":
        pybase = list
    elif b == "set":
        pybase = set
    elif b == "dict":
        pybase = dict
    elif b.startswith("array:"):
        pybase = array.array
        kw["typecode"] = b.split(":")[1]
    elif b.startswith("ndarray"):
        pybase = numpy.ndarray
    elif b == "tree":
        pybase = gp.PrimitiveTree
    else:
        raise ValueError(b)
    cl["Ind"] = mk("Ind", pybase, **kw)
    cl["__desc__"] = d
    return cl


def build_value(v, env, cl):
    if not isinstance(v, list):
        return v
    tag = v[0]
    if tag == "L":
        return [build_value(x, env, cl) for x in v[1:]]
    if tag == "T":
        return tuple(build_value(x, env, cl) for x in v[1:])
    if tag == "S":
        return set(build_value(x, env, cl) for x in v[1:])
    if tag == "D":
        return dict((build_value(k, env, cl), build_value(x, env, cl)) for k, x in v[1:])
    if tag == "A":
        return array.array(v[1], v[2])
    if tag == "N":
        return numpy.array(v[2], dtype=v[1])
    if tag == "=":
        env[v[1]] = build_value(v[2], env, cl)
        return env[v[1]]
    if tag == "@":
        return env[v[1]]
    if tag == "F":                              # a fitness object as a value
        f = cl["Fit"]()
        if v[1] is not None:
            f.values = tuple(v[1])
        return f
    if tag == "I":                              # instance of the nested created class
        if "Nested" not in cl:
            raise ValueError("nested class not declared")
        o = cl["Nested"](build_value(x, env, cl) for x in v[1])
        o.inner.update(build_value(v[2], env, cl))
        return o
    if tag == "FS":
        return frozenset(build_value(x, env, cl) for x in v[1:])
    if tag == "C":                              # ["C", kind, content, with_fitness, tag items]: nested created instance
        A = cl["Aux_" + v[1]]
        if v[1] == "tree":
            o = A(build_tree_nodes(v[2]))
        elif v[1] == "dict":
            o = A()
            o.update(build_value(["D"] + v[2], env, cl))
        elif v[1] == "arr":
            o = A([float(x) for x in v[2]])
        elif v[1] == "nd":
            o = A(v[2])
        else:
            o = A(build_value(x, env, cl) for x in v[2])
        if v[3] and "fitness" in vars(o):
            o.fitness.values = tuple(1.0 + i for i in range(len(cl["Fit"].weights)))
        o.tag.extend(build_value(x, env, cl) for x in v[4])
        return o
    if tag == "SELF":                           # part.best = creator.Particle(part): same class, same content
        dd = cl["__desc__"]
        o = cl["Ind"]() if dd["base"] == "dict" else cl["Ind"](content_of(dd, cl, env))
        if v[1] and "fitness" in vars(o):
            o.fitness.values = tuple(2.0 + i for i in range(len(cl["Fit"].weights)))
        return o
    if tag == "P":
        o = Plain()
        o.payload.extend(build_value(x, env, cl) for x in v[1:])
        return o
    raise ValueError(tag)


def content_of(d, cl=None, env=None):
    b, c = d["base"], d["content"]
    if b == "ndarray:object":                 # object dtype: the elements are arbitrary Python objects
        arr = numpy.empty(len(c), dtype=object)
        for i, v in enumerate(c):
            arr[i] = build_value(v, {} if env is None else env, cl)
        return arr
    if b in ("list", "set") and any(isinstance(v, list) for v in c):     # non-atomic top-level content
        return [build_value(v, {} if env is None else env, cl) for v in c]
    if b == "tree":
        return build_tree_nodes(c, d.get("rename"))
    if b == "dict":
        return None
    if b.startswith("ndarray"):
        kind = b.split(":")[1]
        if kind == "float":
            return [float(x) for x in c] if not (c and isinstance(c[0], list)) else [[float(y) for y in r] for r in c]
        if kind == "bool":
            return [bool(x) for x in c]
        if kind == "complex64":
            return numpy.array([complex(x, -0.5 * x) for x in c], dtype=numpy.complex64)
        if kind in NP_DTYPES:   # non-default element types: the constructor keeps the dtype of numpy scalars
            return numpy.array(c, dtype=kind)
        return c
    if b == "array:d":
        return [float(x) for x in c]
    return list(c)


def build_instance(d, cl, env=None):
    env = {} if env is None else env
    Ind = cl["Ind"]
    if d["base"] == "dict":
        x = Ind()
        for k, v in d["content"]:
            x[build_value(k, env, cl)] = build_value(v, env, cl)
    else:
        x = Ind(content_of(d, cl, env))
    for name, v in sorted(d.get("fill", {}).items()):
        tgt = getattr(x, name)
        val = build_value(v, env, cl)
        if isinstance(tgt, (list, array.array)):
            tgt.extend(val)
        elif isinstance(tgt, (dict, set)):
            tgt.update(val)
        elif isinstance(tgt, Plain):
            tgt.payload.extend(val)
        else:
            raise ValueError("cannot fill %r" % type(tgt))
    for name, vals in sorted(d.get("fits", {}).items()):
        f = getattr(x, name)
        if vals is not None:
            f.values = tuple(vals)
        if d.get("cfit") and name == "fitness" and d.get("cv") is not None:
            f.constraint_violation = list(d["cv"])      # also on a VALID fitness: the normal state after evaluation
    for name, v in sorted(d.get("fitfill", {}).items()):
        tgt = getattr(x.fitness, name)
        val = build_value(v, env, cl)
        if isinstance(tgt, list):
            tgt.extend(val)
        else:
            tgt.update(val)
    for name, v in sorted(d.get("extra", {}).items()):
        setattr(x, name, build_value(v, env, cl))
    for name, v in sorted(d.get("fitextra", {}).items()):
        setattr(x.fitness, name, build_value(v, env, cl))
    for name in d.get("del", []):
        delattr(x, name)
    return x


# ----------------------------------------------------------------------------------------------------
# the oracle's vocabulary: pure-value abstraction, aliasing signature, shared mutable objects, mutation
# ----------------------------------------------------------------------------------------------------

def is_created(t):
    return type(t) is creator.MetaCreator


def is_atom(o):
    if o is None or isinstance(o, (bool, int, float, complex, str, bytes, numpy.generic, type)):
        return True
    if callable(o) and not hasattr(o, "__dict__"):
        return True
    if type(o).__name__ in ("function", "builtin_function_or_method"):
        return True
    if isinstance(o, (tuple, frozenset)):
        return all(is_atom(e) for e in o)
    return False


def atom_key(o):
    if isinstance(o, (tuple, frozenset)):
        items = [atom_key(e) for e in o]
        return [type(o).__name__] + (items if isinstance(o, tuple) else sorted(items, key=repr))
    if isinstance(o, numpy.generic):
        return ["np", o.dtype.str, repr(o.item())]
    if isinstance(o, type):
        return ["type", o.__name__]
    if callable(o):
        return ["fn", getattr(o, "__name__", repr(o))]
    return [type(o).__name__, repr(o)]


def nd_header(a):
    """dtype is content for non-empty arrays; for string dtypes only the kind (the item WIDTH is storage: numpy
    re-derives it from the longest element when the array is rebuilt from its elements)."""
    dt = a.dtype.kind if a.dtype.kind in "US" else a.dtype.str
    return ["nd", dt if a.size else "empty", list(a.shape)]


_NOFX = [False]      # leave attributes hung on a Fitness (other than its declared state) out of the abstraction


def canon(o, depth=0):
    """Pure-value abstraction: JSON-able, identity-free, attribute order free."""
    if depth > 40:
        return ["too-deep"]
    if is_atom(o):
        return ["a"] + atom_key(o)
    t = type(o)
    attrs = None
    if hasattr(o, "__dict__"):
        attrs = sorted([k, canon(v, depth + 1)] for k, v in vars(o).items())
    if isinstance(o, base.Fitness):
        cv = None
        if isinstance(o, base.ConstrainedFitness):
            attrs = [kv for kv in attrs if kv[0] != "constraint_violation"]
            cv = canon(getattr(o, "constraint_violation", "<missing>"), depth + 1)
        attrs = [] if _NOFX[0] else [kv for kv in attrs if kv[0] != "wvalues"]
        return ["fit", class_sig(t), [repr(w) for w in o.wvalues], [repr(v) for v in o.values], bool(o.valid), cv,
                attrs]
    if isinstance(o, NODE_TYPES):
        return ["node", t.__name__] + [[s, canon(getattr(o, s, "<unset>"), depth + 1)] for s in
                                       sorted(set(getattr(t, "__slots__", ())) | set(getattr(o, "__dict__", {})))]
    head = ["inst", class_sig(t)] if is_created(t) else ["obj", t.__name__]
    if isinstance(o, numpy.ndarray):
        if o.dtype == object:
            body = ["nd", nd_header(o), [canon(e, depth + 1) for e in o.ravel()]]
        else:
            body = ["nd", nd_header(o), [atom_key(e) for e in o.ravel().tolist()]]
    elif isinstance(o, array.array):
        body = ["array", o.typecode, [atom_key(e) for e in o]]
    elif isinstance(o, (list, tuple)):
        body = [type(o).__name__ if not is_created(t) else "seq", [canon(e, depth + 1) for e in o]]
    elif isinstance(o, (set, frozenset)):
        body = ["set", sorted((canon(e, depth + 1) for e in o), key=repr)]
    elif isinstance(o, dict):
        body = ["dict", sorted(([canon(k, depth + 1), canon(v, depth + 1)] for k, v in o.items()), key=repr)]
    else:
        body = ["plain"]
    return head + [body, attrs]


_INFRA = set(["__init__", "reduce_args", "__module__", "__doc__", "__dict__", "__weakref__", "__slotnames__",
              "__firstlineno__", "__static_attributes__"])


def fresh_of(t):
    """A new instance of a created class, the way a user would make one."""
    if issubclass(t, (numpy.ndarray, gp.PrimitiveTree, set)):
        return t([])
    return t()


_SIG = {}      # class object -> signature; emptied at the start of every evaluation (a class is not changed by a case)


def class_sig(t):
    """What makes two classes 'equivalent': name, names of the bases chain, class-level attributes, and the
    per-instance attributes a new instance gets (observed on a new instance, not read from reduce_args)."""
    if not is_created(t):
        return [t.__name__]
    hit = _SIG.get(t)
    if hit is not None:
        return hit
    cls_attrs = sorted([k, canon(v)] for k, v in vars(t).items() if k not in _INFRA)
    try:
        inst = sorted([k, type(v).__name__] for k, v in vars(fresh_of(t)).items())
    except Exception as e:  # noqa
        inst = ["cannot instantiate: %s" % type(e).__name__]
    _SIG[t] = [t.__name__, [b.__name__ for b in t.__mro__[1:]], cls_attrs, inst]
    return _SIG[t]


def children(o):
    """Objects an object refers to (not through its class)."""
    out = []
    if isinstance(o, (list, tuple, set, frozenset)):
        out += list(o)
    elif isinstance(o, dict):
        for k, v in o.items():
            out += [k, v]
    elif isinstance(o, numpy.ndarray) and o.dtype == object:
        out += list(o.ravel())
    if hasattr(o, "__dict__"):
        out += [v for _, v in sorted(vars(o).items())]
    for s in getattr(type(o), "__slots__", ()):
        if hasattr(o, s):
            out.append(getattr(o, s))
    return out


def reachable(o, acc=None):
    """All non-atomic objects reachable from o, in a deterministic order."""
    acc = [] if acc is None else acc
    if is_atom(o) or any(o is p for p in acc):
        return acc
    acc.append(o)
    if isinstance(o, NODE_TYPES):
        return acc
    for c in children(o):
        reachable(c, acc)
    return acc


def is_mutable(o):
    return not isinstance(o, (tuple, frozenset) + NODE_TYPES)


def shared_mutables(a, b):
    """Mutable objects reachable from both a and b (identity; ndarray buffers by shares_memory)."""
    ra, rb = [o for o in reachable(a) if is_mutable(o)], [o for o in reachable(b) if is_mutable(o)]
    out = []
    for p in ra:
        for q in rb:
            if p is q:
                out.append(type(p).__name__)
            elif isinstance(p, numpy.ndarray) and isinstance(q, numpy.ndarray) and numpy.shares_memory(p, q):
                out.append("ndarray-buffer")
    return out


def alias_sig(o):
    """Which paths lead to the same mutable object *inside* one graph (internal sharing)."""
    seen, groups = [], {}

    def walk(x, path):
        if is_atom(x) or isinstance(x, NODE_TYPES):
            return
        for i, (y, p0) in enumerate(seen):
            if y is x:
                groups.setdefault(p0, []).append(path)
                return
        seen.append((x, path))
        if isinstance(x, (list, tuple)):
            for i, c in enumerate(x):
                walk(c, path + "[%d]" % i)
        elif isinstance(x, dict):
            for k, v in sorted(x.items(), key=lambda kv: repr(kv[0])):
                walk(v, path + "{%r}" % (k,))
        if hasattr(x, "__dict__"):
            for k, v in sorted(vars(x).items()):
                walk(v, path + "." + k)
    walk(o, "")
    return sorted([k] + sorted(v) for k, v in groups.items())


def mutate_all(o):
    """Change every mutable object reachable from o in place (content, attributes, fitness)."""
    objs = [x for x in reachable(o) if is_mutable(x)]
    n = 0
    for x in objs:
        if isinstance(x, base.Fitness):
            if x.valid:
                del x.values
            else:
                x.values = tuple(1.0 for _ in x.weights)
            n += 1
        elif isinstance(x, gp.PrimitiveTree):
            list.append(x, PSET.mapping["neg"])
            n += 1
        elif isinstance(x, list):
            x.append("MUT")
            n += 1
        elif isinstance(x, dict):
            x["MUT"] = 1
            n += 1
        elif isinstance(x, set):
            x.add("MUT")
            n += 1
        elif isinstance(x, array.array):
            x.append(1)
            x[0] = 2 if x[0] == 1 else 1
            n += 1
        elif isinstance(x, numpy.ndarray):
            if x.size:
                flat = x.reshape(-1)
                kd = x.dtype.kind
                flat[0] = ("MUT" if kd == "O" else (not flat[0]) if kd == "b" else
                           ("~" if flat[0] != "~" else "!") if kd in "US" else flat[0] + 1)
                n += 1
        if hasattr(x, "__dict__") and not isinstance(x, base.Fitness):
            for k in list(vars(x)):
                if is_atom(vars(x)[k]):
                    setattr(x, k, "MUT-" + k)
            setattr(x, "mut_attr", ["MUT"])
            n += 1
    return n


# ----------------------------------------------------------------------------------------------------
# Python object graph -> heap model text, and dumps of copies in the model's canonical form
# ----------------------------------------------------------------------------------------------------

_HID = {}


def hid(key):
    try:
        k = (tuple(key), tuple(map(type, key)))       # (1, True and 1.0 are equal as dict keys)
        return _HID[k]
    except KeyError:
        _HID[k] = h = int.from_bytes(hashlib.sha1(json.dumps(key, sort_keys=True, default=repr).encode()).digest()[:5], "big")
        if len(_HID) > 200000:
            _HID.clear()
        return h
    except TypeError:       # a nested (unhashable) key
        return int.from_bytes(hashlib.sha1(json.dumps(key, sort_keys=True, default=repr).encode()).digest()[:5], "big")


BUILTIN_CLASSES = ["list", "dict", "set", "tuple", "array", "ndarray", "object", "Primitive", "Terminal", "Ephemeral"]


def kind_of(t):
    if issubclass(t, gp.PrimitiveTree):
        return "tree"
    if issubclass(t, creator._array):
        return "pyarr"
    if issubclass(t, creator._numpy_array):
        return "nparr"
    if issubclass(t, base.ConstrainedFitness):
        return "cfitness"
    if issubclass(t, base.Fitness):
        return "fitness"
    if issubclass(t, set):
        return "ctor"
    return "plain"


class Modeler(object):
    def __init__(self, cls_ids=None, ct=None):
        self.ct = list(ct) if ct else [("node" if n in ("Primitive", "Terminal", "Ephemeral") else "plain", [])
                                       for n in BUILTIN_CLASSES]
        self.cls_ids = dict(cls_ids) if cls_ids else dict((n, i) for i, n in enumerate(BUILTIN_CLASSES))
        self.oid = {}          # id(obj) -> oid
        self.keep = []         # keeps originals alive (ids stay unique)
        self.objs = []         # oid -> text
        self.arrays = []       # (ndarray, oid)

    def name_id(self, name):
        return 0 if name == "constraint_violation" else 1 + hid(["name", name])

    def cls_id(self, t):
        if is_created(t):
            key = t.__name__
            if key not in self.cls_ids:
                inst = []
                for k, v in t.reduce_args[2].items():
                    if isinstance(v, type):
                        inst.append((self.name_id(k), self.cls_id(v)))
                self.cls_ids[key] = len(self.ct)
                self.ct.append((kind_of(t), inst))
            return self.cls_ids[key]
        if issubclass(t, gp.Primitive):
            return self.cls_ids["Primitive"]
        if issubclass(t, gp.Terminal):
            return self.cls_ids["Terminal" if t is gp.Terminal else "Ephemeral"]
        for n, ty in (("list", list), ("dict", dict), ("set", set), ("tuple", tuple), ("array", array.array),
                      ("ndarray", numpy.ndarray)):
            if t is ty:
                return self.cls_ids[n]
        return self.cls_ids["object"]

    def ct_text(self):
        return ";".join("%s/%s" % (k, ",".join("%d=%d" % p for p in inst) or "-") for k, inst in self.ct) or "-"

    @staticmethod
    def atom(key):
        return ("a", hid(key))

    def parts(self, o):
        """(cls id, mutable, items, attrs) with children as ('a', int) or ('o', pyobject)."""
        t = type(o)

        def ch(x):
            return self.atom(atom_key(x)) if is_atom(x) else ("o", x)
        items = []
        if isinstance(o, base.Fitness):
            items = [self.atom(["w", repr(w)]) for w in o.wvalues]
        elif isinstance(o, NODE_TYPES):
            items = [self.atom(["slot", s, repr(getattr(o, s, "<unset>"))]) for s in sorted(t.__slots__)]
        elif isinstance(o, numpy.ndarray):
            if o.dtype == object:
                items = [self.atom(nd_header(o))] + [ch(e) for e in o.ravel()]
            else:
                items = [self.atom(nd_header(o))] + [self.atom(atom_key(e)) for e in o.ravel().tolist()]
        elif isinstance(o, array.array):
            # a created array class carries its typecode on the class; a plain array.array in the value
            items = ([] if is_created(t) else [self.atom(["typecode", o.typecode])]) + \
                [self.atom(atom_key(e)) for e in o]
        elif isinstance(o, (list, tuple)):
            items = [ch(e) for e in o]
        elif isinstance(o, (set, frozenset)):
            items = sorted((ch(e) for e in o), key=lambda c: c[1] if c[0] == "a" else -1)
        elif isinstance(o, dict):
            for k, v in o.items():
                items += [ch(k), ch(v)]
        attrs = []
        if hasattr(o, "__dict__") and not isinstance(o, NODE_TYPES):
            for k, v in vars(o).items():
                if isinstance(o, base.Fitness) and k == "wvalues":
                    continue
                attrs.append((self.name_id(k), ch(v)))
        attrs.sort(key=lambda p: p[0])
        return self.cls_id(t), is_mutable(o), items, attrs

    # ---- original graph -> heap text
    def add(self, o):
        if is_atom(o):
            return "a%d" % self.atom(atom_key(o))[1]
        if id(o) in self.oid:
            return "r%d" % self.oid[id(o)]
        oid = len(self.objs)
        self.oid[id(o)] = oid
        self.keep.append(o)
        self.objs.append(None)
        if isinstance(o, numpy.ndarray):
            self.arrays.append((o, oid))
        c, m, items, attrs = self.parts(o)
        its = [("a%d" % x[1]) if x[0] == "a" else self.add(x[1]) for x in items]
        ats = ["%d=%s" % (k, ("a%d" % x[1]) if x[0] == "a" else self.add(x[1])) for k, x in attrs]
        self.objs[oid] = "%d/%d/%s/%s" % (c, 1 if m else 0, ",".join(its) or "-", ",".join(ats) or "-")
        return "r%d" % oid

    def heap_text(self):
        return ";".join(self.objs) or "-"

    def old_oid(self, o):
        if id(o) in self.oid:
            return self.oid[id(o)]
        if isinstance(o, numpy.ndarray):
            for a, oid in self.arrays:
                if numpy.shares_memory(a, o):
                    return oid
        return None

    # ---- dumps of copies
    def graph_dump(self, roots):
        order, index = [], {}

        def visit(o):
            if is_atom(o) or self.old_oid(o) is not None or id(o) in index:
                return
            index[id(o)] = len(order)
            order.append(o)
            _, _, items, attrs = self.parts(o)
            for x in items + [v for _, v in attrs]:
                if x[0] == "o":
                    visit(x[1])
        for r in roots:
            visit(r)

        def sv(x):
            if x[0] == "a":
                return "a%d" % x[1]
            old = self.old_oid(x[1])
            return "o%d" % old if old is not None else "n%d" % index[id(x[1])]

        def so(o):
            c, m, items, attrs = self.parts(o)
            return "%d/%d/%s/%s" % (c, 1 if m else 0, ",".join(sv(x) for x in items) or "-",
                                    ",".join("%d=%s" % (k, sv(x)) for k, x in attrs) or "-")
        head = ",".join(sv(("a", self.atom(atom_key(r))[1]) if is_atom(r) else ("o", r)) for r in roots) or "-"
        return "|".join([head] + [so(o) for o in order])

    def tree_dump(self, o, depth=0):
        if is_atom(o):
            return "a%d" % self.atom(atom_key(o))[1]
        old = self.old_oid(o)
        if old is not None:
            return "o%d" % old
        if depth > 60:
            return "deep"
        c, m, items, attrs = self.parts(o)

        def sv(x):
            return "a%d" % x[1] if x[0] == "a" else self.tree_dump(x[1], depth + 1)
        return "<%s/%d/%s/%s>" % (c, 1 if m else 0, ",".join(sv(x) for x in items) or "-",
                                  ",".join("%d=%s" % (k, sv(x)) for k, x in attrs) or "-")


# ----------------------------------------------------------------------------------------------------
# evaluation
# ----------------------------------------------------------------------------------------------------

_uid = [0]


def next_uid():
    _uid[0] += 1
    return "%d_%d" % (os.getpid(), _uid[0])


def first_diff(a, b, path="$"):
    if type(a) is not type(b):
        return "%s: %r vs %r" % (path, a, b)
    if isinstance(a, list):
        if len(a) != len(b):
            return "%s: length %d vs %d (%r vs %r)" % (path, len(a), len(b), a[:6], b[:6])
        for i, (x, y) in enumerate(zip(a, b)):
            r = first_diff(x, y, "%s[%d]" % (path, i))
            if r:
                return r
        return None
    return None if a == b else "%s: %r vs %r" % (path, a, b)


def tag_of(d):
    cfg = []
    if d.get("inst"):
        cfg.append("inst:" + "+".join(sorted(set(d["inst"].values()))))
    if d.get("cattrs"):
        cfg.append("cattrs")
    if d.get("extra"):
        cfg.append("extra")
    if d.get("del") or d.get("fitextra"):
        cfg.append("off-premise")
    if d.get("fitinst"):
        cfg.append("fitness-containers")
    if d.get("rename"):
        cfg.append("renamed-arguments")
    if d.get("hard"):
        cfg.append("hardfit:" + d["hard"])
    if d.get("aux") or "SELF" in json.dumps(d.get("extra", {})):
        cfg.append("nested-instances")
    if d["base"] in ("list", "set") and any(isinstance(v, list) for v in d["content"]):
        cfg.append("nonatomic-content")
    if d.get("cfit") and d.get("cv") is not None:
        cfg.append("cv")
    fit = d.get("fits", {}).get("fitness", "nofit") if "fitness" in d.get("inst", {}) else "nofit"
    return "%s/%s/nobj=%d/%s" % (d["base"], "invalid" if fit is None else "nofit" if fit == "nofit" else "valid",
                                 len(d["weights"]), ",".join(cfg) or "bare")


def model_ready(d):
    """2-D ndarray individuals are outside the heap model (rows are views); oracle only."""
    return not (d["base"].startswith("ndarray") and d["content"] and isinstance(d["content"][0], list))


def check_copy(kind, x, c, canon0, sig0, require_same_class):
    """The statement for one copy `c` of `x`: equivalent class, equal abstraction, nothing mutable shared."""
    if require_same_class and type(c) is not type(x):
        return "%s: class of the copy is %r, not the original's" % (kind, type(c))
    if class_sig(type(c)) != class_sig(type(x)):
        return "%s: class not equivalent: %s" % (kind, first_diff(class_sig(type(x)), class_sig(type(c))))
    cc = canon(c)
    if cc != canon0:
        return "%s: content/fitness/attributes differ: %s" % (kind, first_diff(canon0, cc))
    if alias_sig(c) != sig0:
        return "%s: internal sharing differs: %r vs %r" % (kind, sig0, alias_sig(c))
    sh = shared_mutables(x, c)
    if sh:
        return "%s: shares mutable state with the original: %s" % (kind, sh)
    fx, fc = getattr(x, "fitness", None), getattr(c, "fitness", None)
    if isinstance(fx, base.Fitness):
        if not isinstance(fc, base.Fitness) or tuple(map(repr, fc.wvalues)) != tuple(map(repr, fx.wvalues)):
            return "%s: weighted fitness values are not bit-identical: %r vs %r" % (kind, fx.wvalues, getattr(fc, "wvalues", None))
        if not (fc == fx) or (fc != fx):
            return "%s: copy.fitness == original.fitness is False" % kind
    return None


def eval_obj(d):
    uid = next_uid()
    premise = not (d.get("del") or d.get("fitextra"))
    _SIG.clear()
    # a fitness class with containers of its own: what a copy does with THEM is outside the statement's equalities
    # (DESIGN section 6: "equal extra attributes" = attributes of the individual); sharing them is not.
    _NOFX[0] = bool(d.get("fitinst"))
    try:
        with warnings.catch_warnings():
            warnings.simplefilter("ignore")
            return _eval_obj(d, uid, premise)
    finally:
        _NOFX[0] = False
        drop_classes(uid)


def full_canon(o):
    keep = _NOFX[0]
    _NOFX[0] = False
    try:
        return canon(o)
    finally:
        _NOFX[0] = keep


def _eval_obj(d, uid, premise):
    cl = build_classes(d, uid)
    Ind = cl["Ind"]
    lines, expect, orc = [], [], None
    tb = base.Toolbox()

    def fail(msg):
        nonlocal orc
        if orc is None and premise:
            orc = msg

    # ---- 1. two instances: freshly constructed per-instance attributes
    dd = dict(d, fill={}, fits={}, extra={}, fitextra={}, fitfill={}, **{"del": []})
    x1, x2 = build_instance(dd, cl), build_instance(dd, cl)
    dct = Ind.reduce_args[2]
    for name, v in sorted(dct.items()):
        if isinstance(v, type):
            if not (name in vars(x1) and name in vars(x2)):
                fail("create: per-instance attribute %r missing" % name)
            elif vars(x1)[name] is vars(x2)[name]:
                fail("create: per-instance attribute %r is the same object in two instances" % name)
            elif type(vars(x1)[name]) is not v:
                fail("create: attribute %r is a %r, not a %r" % (name, type(vars(x1)[name]), v))
            elif full_canon(vars(x1)[name]) != full_canon(v()):
                fail("create: attribute %r is not a freshly constructed %r" % (name, v))
        else:
            if name in vars(x1) or getattr(x1, name) is not v or getattr(x2, name) is not v:
                fail("create: class-level attribute %r is not the class's own object" % name)
    sh = shared_mutables(vars(x1) if hasattr(x1, "__dict__") else {}, vars(x2) if hasattr(x2, "__dict__") else {})
    if sh:
        fail("create: two instances share mutable attribute state: %s" % sh)
    # (ConstrainedFitness.__init__'s constraint_violation = None is modelled (Heap.baseInitAttrs); state set by other
    #  base classes' own __init__ — Plain.payload — is not part of init_type and not of the model's `create`)
    if model_ready(d) and d["base"] != "tree" and all(not isinstance(c, list) for c in d["content"]) \
            and "plainobj" not in d.get("inst", {}).values() and not d.get("aux") and d["base"] != "ndarray:object":
        m = Modeler()
        c0 = m.cls_id(Ind)
        _, _, items, _ = m.parts(x1)
        lines.append("C16 create %s %d %s 2" % (m.ct_text(), c0, ",".join("a%d" % i[1] for i in items) or "-"))
        expect.append(m.graph_dump([x1, x2]))
        # create, then clone the brand-new instance (the two must compose, also for ConstrainedFitness classes)
        m2 = Modeler()
        c0 = m2.cls_id(Ind)
        x3 = build_instance(dd, cl)
        m2.add(x3)
        lines.append("C16 createclone %s %d %s" % (m2.ct_text(), c0, ",".join("a%d" % i[1] for i in items) or "-"))
        try:
            expect.append(m2.graph_dump([tb.clone(x3)]))
        except Exception as e:  # noqa
            expect.append("raised %s" % type(e).__name__)
            fail("clone of a newly created instance raised %s: %s" % (type(e).__name__, e))

    # ---- 2. the individual, its clone chain and its pickles
    x = build_instance(d, cl)
    canon0, sig0 = canon(x), alias_sig(x)
    m = Modeler()
    root = m.add(x)
    chain = []
    cur = x
    for i in range(d.get("chain", 1)):
        cur = tb.clone(cur)
        chain.append(cur)
        r = check_copy("clone#%d" % (i + 1), x, cur, canon0, sig0, True)
        if r:
            fail(r)
    for i in range(len(chain)):
        for j in range(i + 1, len(chain)):
            sh = shared_mutables(chain[i], chain[j])
            if sh:
                fail("clone#%d and clone#%d share mutable state: %s" % (i + 1, j + 1, sh))
    if model_ready(d):
        lines.append("C16 clone %s %s %s %d" % (m.ct_text(), m.heap_text(), root, len(chain)))
        expect.append(m.graph_dump(chain))
    pick, blobs = [], []
    for p in d.get("protos", PROTOCOLS):
        try:
            blob = pickle.dumps(x, p)
            blobs.append((p, blob))
            u = pickle.loads(blob)
        except Exception as e:  # noqa
            fail("pickle protocol %d: %s: %s" % (p, type(e).__name__, e))
            if model_ready(d):
                lines.append("C16 pickle %s %s %s same" % (m.ct_text(), m.heap_text(), root))
                expect.append("raised %s" % type(e).__name__)
            continue
        pick.append((p, u))
        r = check_copy("pickle protocol %d" % p, x, u, canon0, sig0, False)
        if r:
            fail(r)
        if model_ready(d):
            lines.append("C16 pickle %s %s %s same" % (m.ct_text(), m.heap_text(), root))
            expect.append(m.tree_dump(u))

    # ---- 2b. the same pickles loaded while the names are bound to DIFFERENT classes (re-created in between, with
    #          other keyword names, or with the SAME keyword names and other values: weights, typecode, class-level
    #          constants): the unpickled object must still be of a class equivalent to the ORIGINAL one
    mode = d.get("clash", True)
    if premise and mode:
        mode = "names" if mode is True else mode
        build_classes(d, uid, variant=mode)
        what = "names re-created with %s before loading" % ("other attributes" if mode == "names" else
                                                            "the same attribute names and other values")
        for p, blob in blobs:
            try:
                u = pickle.loads(blob)
            except Exception as e:  # noqa
                fail("pickle protocol %d, %s: %s: %s" % (p, what, type(e).__name__, e))
                continue
            r = check_copy("pickle protocol %d, %s" % (p, what), x, u, canon0, sig0, False)
            if r:
                fail(r)

    # ---- 3. mutation test, both directions (on the full abstraction, fitness containers included)
    if premise:
        full0 = full_canon(x)
        second = [("clone", tb.clone(x))]
        for p in d.get("protos", PROTOCOLS)[:2] + d.get("protos", PROTOCOLS)[-1:]:
            try:
                second.append(("pickle%d" % p, pickle.loads(pickle.dumps(x, p))))
            except Exception:  # noqa  (already reported above)
                pass
        for kind, c in second:
            if canon(c) != canon0:
                fail("%s of the original differs from it: %s" % (kind, first_diff(canon0, canon(c))))
        second = [(kind, c, full_canon(c)) for kind, c in second]
        for kind, c in [("clone#%d" % (i + 1), c) for i, c in enumerate(chain)] + [("pickle%d" % p, u) for p, u in pick]:
            mutate_all(c)
            if full_canon(x) != full0:
                fail("changing the %s changed the original: %s" % (kind, first_diff(full0, full_canon(x))))
                break
        mutate_all(x)
        for kind, c, before in second:
            if full_canon(c) != before:
                fail("changing the original changed its %s: %s" % (kind, first_diff(before, full_canon(c))))
                break
    nontrivial = bool(d["content"]) or bool(d.get("inst")) or bool(d.get("extra"))
    return Case(d, lines, expect, orc, tag=tag_of(d), nontrivial=nontrivial)


# ---- fresh interpreter -----------------------------------------------------------------------------

def eval_fresh(d):
    uids, entries, keep = [], [], []
    _SIG.clear()
    try:
        with warnings.catch_warnings():
            warnings.simplefilter("ignore")
            for sub in d["cases"]:
                uid = next_uid()
                uids.append(uid)
                if sub["k"] == "tb":
                    tb = base.Toolbox()
                    tb.register("op", record_fn, *sub["args"], **dict(("k%d" % k, v) for k, v in sub["kw"]))
                    entries.append({"kind": "tb", "sub": sub,
                                    "pickles": dict((str(p), pickle.dumps(tb.op, p).hex()) for p in PROTOCOLS)})
                    keep.append((sub, tb, None, None))
                    continue
                cl = build_classes(sub, uid)
                x = build_instance(sub, cl)
                m = Modeler()
                root = m.add(x)
                pk = {}
                for p in sub.get("protos", PROTOCOLS):
                    try:
                        pk[str(p)] = pickle.dumps(x, p).hex()
                    except Exception as e:  # noqa
                        pk[str(p)] = "ERR:%s: %s" % (type(e).__name__, e)
                entries.append({"kind": "obj", "sub": sub, "uid": uid, "pickles": pk, "cls_ids": m.cls_ids, "ct": m.ct})
                keep.append((sub, x, m, root))
        env = dict(os.environ, DEAP_REPO=REPO, PYTHONHASHSEED=str(d.get("hashseed", 0)))
        p = subprocess.run([sys.executable, os.path.abspath(__file__), "--child"],
                           input=json.dumps({"recreate": d.get("recreate", True), "entries": entries}),
                           stdout=subprocess.PIPE, stderr=subprocess.PIPE, text=True, timeout=180, env=env)
        if p.returncode != 0:
            raise Infra("fresh-interpreter child failed: %s" % p.stderr[-800:])
        answers = json.loads(p.stdout.strip().split("\n")[-1])
        lines, expect, orc = [], [], None
        for (sub, x, m, root), e, ans in zip(keep, entries, answers):
            if e["kind"] == "tb":
                want = record_fn(*(list(sub["args"]) + list(sub["cargs"])),
                                 **dict([("k%d" % k, v) for k, v in sub["kw"]] + [("k%d" % k, v) for k, v in sub["ckw"]]))
                want = json.loads(json.dumps(want))
                for pr, got in sorted(ans.items()):
                    if got != want and orc is None:
                        orc = "fresh interpreter, toolbox alias, protocol %s: %r instead of %r (case %s)" % (
                            pr, got, want, json.dumps(sub))
                continue
            _NOFX[0] = bool(sub.get("fitinst"))
            try:
                canon0, sig0, csig = canon(x), alias_sig(x), class_sig(type(x))
            finally:
                _NOFX[0] = False
            for pr in sorted(ans, key=int):
                a = ans[pr]
                premise = not (sub.get("del") or sub.get("fitextra"))
                msg = None
                if "error" in a:
                    msg = "fresh interpreter, protocol %s: %s" % (pr, a["error"])
                elif a["canon"] != json.loads(json.dumps(canon0)):
                    msg = "fresh interpreter, protocol %s: content differs: %s" % (
                        pr, first_diff(json.loads(json.dumps(canon0)), a["canon"]))
                elif a["alias"] != json.loads(json.dumps(sig0)):
                    msg = "fresh interpreter, protocol %s: internal sharing differs" % pr
                elif a["class"] != json.loads(json.dumps(csig)):
                    msg = "fresh interpreter, protocol %s: class not equivalent: %s" % (
                        pr, first_diff(json.loads(json.dumps(csig)), a["class"]))
                if msg and premise and orc is None:
                    orc = msg + " (case %s)" % json.dumps(sub)
                if model_ready(sub):
                    lines.append("C16 pickle %s %s %s empty" % (m.ct_text(), m.heap_text(), root))
                    expect.append(a.get("tree", "raised"))
        rc = d.get("recreate", True)
        return Case(d, lines, expect, orc, tag="fresh/%s/n=%d" % (rc if isinstance(rc, str) else "recreate" if rc else "bare",
                                                                  len(d["cases"])), nontrivial=True)
    finally:
        for u in uids:
            drop_classes(u)


def child_main():
    req = json.loads(sys.stdin.read())
    out = []
    with warnings.catch_warnings():
        warnings.simplefilter("ignore")
        for e in req["entries"]:
            ans = {}
            if e["kind"] == "tb":
                sub = e["sub"]
                for pr, hx in e["pickles"].items():
                    try:
                        f = pickle.loads(bytes.fromhex(hx))
                        ans[pr] = json.loads(json.dumps(f(*sub["cargs"], **dict(("k%d" % k, v) for k, v in sub["ckw"]))))
                    except Exception as ex:  # noqa
                        ans[pr] = "error %s: %s" % (type(ex).__name__, ex)
                out.append(ans)
                continue
            _SIG.clear()
            _NOFX[0] = bool(e["sub"].get("fitinst"))
            if req["recreate"] in ("clash", "clashv"):
                build_classes(e["sub"], e["uid"])                      # first definition, then this process's OWN,
                build_classes(e["sub"], e["uid"],                      # different classes (other keyword names / the
                              variant="names" if req["recreate"] == "clash" else "values")   # same names, other values)
            elif req["recreate"]:
                build_classes(e["sub"], e["uid"])
            for pr, hx in e["pickles"].items():
                if hx.startswith("ERR:"):
                    ans[pr] = {"error": "pickling raised " + hx[4:]}
                    continue
                try:
                    u = pickle.loads(bytes.fromhex(hx))
                    m = Modeler(cls_ids=e["cls_ids"], ct=[tuple(c) for c in e["ct"]])
                    ans[pr] = {"canon": canon(u), "alias": alias_sig(u), "class": class_sig(type(u)),
                               "tree": m.tree_dump(u)}
                except Exception as ex:  # noqa
                    ans[pr] = {"error": "unpickling raised %s: %s" % (type(ex).__name__, ex)}
            out.append(ans)
    sys.stdout.write(json.dumps(out) + "\n")


# ---- the creator namespace between dumps and loads (Heap.dumpP / loadP / nsRun) ---------------------

def nid(name):
    return 0 if name == "constraint_violation" else 1 + hid(["name", name])


def builtin_label(t):
    if issubclass(t, gp.Primitive):
        return "Primitive"
    if issubclass(t, gp.Terminal):
        return "Terminal" if t is gp.Terminal else "Ephemeral"
    for n, ty in (("list", list), ("dict", dict), ("set", set), ("tuple", tuple), ("array", array.array),
                  ("ndarray", numpy.ndarray)):
        if t is ty:
            return n
    return "object"


def short_name(t):
    """C16_<pid>_<n>_<Name> -> Name"""
    return t.__name__.split("_", 3)[3] if t.__name__.startswith("C16_") else t.__name__


def class_value_atom(v):
    return hid(["cv", json.dumps(canon(v), sort_keys=True, default=repr)])


def desc_text(t):
    """Identity-free description of a class, as Driver/C16.lean `classText` prints Heap.describe: name, base kind,
    per-instance attribute classes (described the same way), class-level attributes — read from the class the
    object actually has (its keyword dictionary for the names, getattr for the values)."""
    if not is_created(t):
        lab = builtin_label(t)
        return "[%d:%s:-:-]" % (nid("builtin:" + lab), "node" if lab in ("Primitive", "Terminal", "Ephemeral") else "plain")
    dct = t.reduce_args[2]
    inst = sorted((nid(k), desc_text(v)) for k, v in dct.items() if isinstance(v, type))
    cls = sorted((nid(k), class_value_atom(getattr(t, k))) for k, v in dct.items() if not isinstance(v, type))
    return "[%d:%s:%s:%s]" % (nid("cls:" + short_name(t)), kind_of(t), "+".join("%d=%s" % p for p in inst) or "-",
                              ",".join("%d=a%d" % p for p in cls) or "-")


class HistModeler(Modeler):
    """Dumps with the class DESCRIPTION in place of a class id (no identities of the original graph)."""

    def cls_id(self, t):
        return desc_text(t)


HIST_TC = {"b": ("b", "h", "b", "b"), "i": ("i", "l", "i", "i"), "d": ("d", "f", "d", "d")}
HIST_PYBASE = {"Fit": None, "Strat": array.array, "Other": list}


def hist_create(d, uid, name, var):
    """creator.create of one class of the history, variant `var`: 0..2 = the same keyword names with other values
    (weights, typecode, class-level constants), 3 = an additional keyword.  None when a class it needs is unbound."""
    full = cname(uid, name)
    kw = {}
    if var == 3:
        kw["tag"] = "B"
    if name == "Fit":
        pybase = base.ConstrainedFitness if d.get("cfit") else base.Fitness
        kw["weights"] = tuple(float(w) * (1.0, -2.0, 3.0, -1.0)[var] for w in d["weights"])
    elif name == "Strat":
        pybase = array.array
        kw["typecode"] = ("d", "f", "d", "d")[var]
        kw["scale"] = (1, 2, 3, 1)[var]
    elif name == "Other":
        pybase = list
        kw["marker"] = (0, 1, 2, 0)[var]
    else:
        b = d["base"]
        pybase = {"list": list, "set": set, "dict": dict, "tree": gp.PrimitiveTree}.get(b)
        if b.startswith("array:"):
            pybase = array.array
            kw["typecode"] = HIST_TC[b.split(":")[1]][var]
        elif b.startswith("ndarray"):
            pybase = numpy.ndarray
        for attr, cls in (("fitness", "Fit"),) + ((("strategy", "Strat"),) if d.get("strat") else ()):
            if not hasattr(creator, cname(uid, cls)):
                return None
            kw[attr] = getattr(creator, cname(uid, cls))
        kw["log"] = list
        kw["label"] = "exp%d" % var
    creator.create(full, pybase, **kw)        # over a bound name: RuntimeWarning, the name is rebound
    return getattr(creator, full)


def hist_create_token(t, uid):
    dct = t.reduce_args[2]
    inst, cls = [], []
    for k, v in sorted(dct.items(), key=lambda kv: nid(kv[0])):
        if isinstance(v, type):
            inst.append("%d=%s" % (nid(k), ("@%d" % nid("cls:" + short_name(v))) if is_created(v)
                                   else "#%d" % BUILTIN_CLASSES.index(builtin_label(v))))
        else:
            cls.append("%d=%d" % (nid(k), class_value_atom(v)))
    return "c/%d/%s/%s/%s" % (nid("cls:" + short_name(t)), kind_of(t), ",".join(inst) or "-", ",".join(cls) or "-")


def eval_hist(d):
    uid = next_uid()
    _SIG.clear()
    try:
        with warnings.catch_warnings():
            warnings.simplefilter("ignore")
            return _eval_hist(d, uid)
    finally:
        drop_classes(uid)


def _eval_hist(d, uid):
    protos = d.get("protos", PROTOCOLS)
    hm = HistModeler()
    toks = []                      # the model's ops (the same for every protocol)
    slots, dumps = {}, []          # slot -> object; dumps: (object, canon, alias signature, {protocol: bytes})
    loads = dict((p, []) for p in protos)      # protocol -> expected text of every load
    orc = None
    tmp = [1000]
    recreated = False

    def fail(msg):
        nonlocal orc
        if orc is None:
            orc = msg

    def atoms(parts_items):
        out = []
        for x in parts_items:
            if x[0] == "a":
                out.append("a%d" % x[1])
            else:                  # a GP node object: an instance of a by-reference class, built first
                node = x[1]
                lab = builtin_label(type(node))
                _, _, its, _ = hm.parts(node)
                tmp[0] += 1
                toks.append("o/%d/#%d/%s" % (tmp[0], BUILTIN_CLASSES.index(lab), ",".join("a%d" % i[1] for i in its) or "-"))
                out.append("s%d" % tmp[0])
        return ",".join(out) or "-"

    for step in d["steps"]:
        op = step[0]
        if op == "create":
            t = hist_create(d, uid, step[1], step[2])
            if t is not None:
                toks.append(hist_create_token(t, uid))
                recreated = recreated or bool(dumps)
        elif op == "delete":
            full = cname(uid, step[1])
            if hasattr(creator, full):
                delattr(creator, full)
                toks.append("d/%d" % nid("cls:" + step[1]))
        elif op == "new":
            _, slot, content, fitvals, logfill, note = step
            Ind = getattr(creator, cname(uid, "Ind"), None)
            if Ind is None:
                continue
            dd = {"base": d["base"], "content": content, "rename": d.get("rename")}
            if d["base"] == "dict":
                x = Ind()
                for k, v in content:
                    x[k] = v
            else:
                x = Ind(content_of(dd))
            toks.append("n/%d/%d/%s" % (slot, nid("cls:Ind"), atoms(hm.parts(x)[2])))
            if fitvals is not None:
                x.fitness.values = tuple(fitvals)
                toks.append("s/%d/%d/%s" % (slot, nid("fitness"), atoms(hm.parts(x.fitness)[2])))
            if logfill:
                x.log.extend(logfill)
                toks.append("s/%d/%d/%s" % (slot, nid("log"), atoms(hm.parts(x.log)[2])))
            if hasattr(x, "strategy"):
                x.strategy.extend([0.5, 1.5])
                toks.append("s/%d/%d/%s" % (slot, nid("strategy"), atoms(hm.parts(x.strategy)[2])))
            if note is not None:
                x.note = note
                toks.append("v/%d/%d/a%d" % (slot, nid("note"), hm.atom(atom_key(note))[1]))
            slots[slot] = x
        elif op == "dump":
            x = slots.get(step[1])
            if x is None:
                continue
            blobs = {}
            for p in protos:
                try:
                    blobs[p] = pickle.dumps(x, p)
                except Exception as e:  # noqa
                    fail("history: pickle protocol %d: dumps raised %s: %s" % (p, type(e).__name__, e))
            dumps.append((x, canon(x), alias_sig(x), blobs))
            toks.append("p/%d" % step[1])
        elif op == "load":
            if step[1] >= len(dumps):
                continue
            x, canon0, sig0, blobs = dumps[step[1]]
            toks.append("l/%d" % step[1])
            for p in protos:
                what = "history %s, protocol %d" % (json.dumps([s[:3] for s in d["steps"]]), p)
                try:
                    u = pickle.loads(blobs[p])
                except Exception as e:  # noqa
                    loads[p].append("raised %s" % type(e).__name__)
                    fail("%s: loads raised %s: %s" % (what, type(e).__name__, e))
                    continue
                r = check_copy(what, x, u, canon0, sig0, False)
                if r:
                    fail(r)
                loads[p].append(HistModeler().tree_dump(u))
    ns = []
    for name in ("Fit", "Strat", "Other", "Ind"):
        t = getattr(creator, cname(uid, name), None)
        if t is not None:
            ns.append((nid("cls:" + name), desc_text(t)))
    nstext = "NS:" + (",".join("%d=%s" % p for p in sorted(ns)) or "-")
    head = "C16 hist " + ";".join("%d/%s" % (nid("builtin:" + n), "node" if n in ("Primitive", "Terminal", "Ephemeral")
                                              else "plain") for n in BUILTIN_CLASSES)
    line = head + (" " + " ".join(toks) if toks else "")
    lines = [line for _ in protos]
    expect = [";".join(loads[p] + [nstext]) for p in protos]
    return Case(d, lines, expect, orc, tag="hist/%s/%s" % (d["base"], "recreated" if recreated else "plain"),
                nontrivial=True)


def hist_case(b, rng):
    nobj = rng.randint(1, 3)
    d = {"k": "hist", "base": b, "weights": [rng.choice([1.0, -1.0, 2.0, -0.5]) for _ in range(nobj)],
         "cfit": rng.random() < 0.2, "strat": rng.random() < 0.4}
    if b == "tree" and rng.random() < 0.5:
        d["rename"] = rng.choice(RENAMINGS)

    def new(slot):
        size = rng.choice([0, 1, 3])
        content = ([[rng.choice([i, "k%d" % i]), rng.choice([1, 2.5, "s", None])] for i in range(size)] if b == "dict"
                   else content_for(b, size, rng))      # atoms only: the history is about the classes
        return ["new", slot, content, rand_fit(nobj, rng) if rng.random() < 0.7 else None,
                [rng.randint(0, 9) for _ in range(rng.randint(0, 2))], rng.choice([None, 3, "n"])]
    names = ["Fit", "Other", "Ind"] + (["Strat"] if d["strat"] else [])
    steps = [["create", "Fit", 0]] + ([["create", "Strat", 0]] if d["strat"] else []) + \
            [["create", "Other", rng.randint(0, 2)], ["create", "Ind", 0], new(0), ["dump", 0]]
    ndump = 1
    for _ in range(rng.randint(2, 7)):
        r = rng.random()
        if r < 0.4:
            steps.append(["create", rng.choice(names), rng.choice([1, 2, 1, 2, 3, 0])])
        elif r < 0.55:
            steps.append(["delete", rng.choice(names)])
        elif r < 0.7:
            slot = rng.randint(0, 2)
            steps += [new(slot), ["dump", slot]]
            ndump += 1
        else:
            steps.append(["load", rng.randrange(ndump)])
    # always: the dumped object's class names re-created with the SAME keyword names and other values, then loaded
    steps += [["create", "Fit", rng.choice([1, 2])], ["create", "Ind", rng.choice([1, 2])], ["load", 0]]
    if rng.random() < 0.5:
        steps += [["delete", rng.choice(names)], ["load", rng.randrange(ndump)]]
    d["steps"] = steps
    return d


# ---- GP node objects under renameArguments (Heap.Gp) -----------------------------------------------

def gatom(x):
    return hid(["g", repr(x)])


def node_text(n):
    def sl(s):
        return str(gatom(getattr(n, s))) if hasattr(n, s) else "-"
    if isinstance(n, gp.Primitive):
        return "P/" + "/".join(sl(s) for s in ("name", "arity", "args", "ret", "seq"))
    return "T/" + "/".join(sl(s) for s in ("name", "value", "ret", "conv_fct"))


def eval_gp(d):
    uid = next_uid()
    _SIG.clear()
    try:
        with warnings.catch_warnings():
            warnings.simplefilter("ignore")
            ps = gp.PrimitiveSet("C16G", 2)
            ps.addPrimitive(operator.add, 2)
            ps.addPrimitive(operator.mul, 2)
            ps.addPrimitive(operator.neg, 1)
            ps.addTerminal(1)
            ps.addTerminal(0.5)
            store = list(ps.mapping.values())                   # node objects by identity
            idx = dict((id(n), i) for i, n in enumerate(store))
            line = "C16 gp %s %s %s %s " % (
                ";".join(node_text(n) for n in store), ",".join(str(gatom(a)) for a in ps.arguments),
                ",".join("%d=%d" % (gatom(k), idx[id(n)]) for k, n in ps.mapping.items()),
                ";".join(",".join("%d=%d" % (gatom(a), gatom(b)) for a, b in step) or "-" for step in d["rename"]) or "-")
            # trees hold the node OBJECTS: one built before the renamings sees them too
            early = d.get("early", False)
            pick = lambda: [ps.mapping[ps.arguments[int(t[3])]] if t in ("ARG0", "ARG1") else ps.mapping[t]  # noqa
                            for t in d["tree"]]
            nodes = pick() if early else None
            failed = False
            try:
                for step in d["rename"]:
                    ps.renameArguments(**dict((str(a), str(b)) for a, b in step))
            except KeyError:
                failed = True          # two arguments of the same name renamed again: mapping.pop raises
            lines, expect, orc = [], [], None
            if failed:
                return Case(d, [line + "-"], ["fail"], None, tag="gp/keyerror", nontrivial=True)
            if nodes is None:
                nodes = pick()
            line += ",".join(str(idx[id(n)]) for n in nodes) or "-"
            cl = build_classes({"base": "tree", "weights": [1.0], "inst": {"fitness": "fit"}}, uid)
            x = cl["Ind"](nodes)
            canon0, sig0 = canon(x), alias_sig(x)
            head = "%s|%s|" % (",".join(str(gatom(a)) for a in ps.arguments) or "-",
                               ",".join(str(gatom(k)) for k in ps.mapping) or "-")
            for p in d.get("protos", PROTOCOLS):
                try:
                    u = pickle.loads(pickle.dumps(x, p))
                except Exception as e:  # noqa
                    orc = orc or "renamed arguments %r, protocol %d: %s: %s" % (d["rename"], p, type(e).__name__, e)
                    lines.append(line)
                    expect.append("raised %s" % type(e).__name__)
                    continue
                r = check_copy("tree over renamed arguments %r, pickle protocol %d" % (d["rename"], p), x, u, canon0,
                               sig0, False)
                for i, (a, b) in enumerate(zip(x, u)):      # every slot of every node, name included
                    for s in type(a).__slots__:
                        if hasattr(a, s) != hasattr(b, s) or (hasattr(a, s) and getattr(a, s) != getattr(b, s)):
                            r = r or "tree over renamed arguments %r, pickle protocol %d: node %d slot %r is %r, was %r" % (
                                d["rename"], p, i, s, getattr(b, s, "<unset>"), getattr(a, s, "<unset>"))
                orc = orc or r
                lines.append(line)
                expect.append(head + (";".join(node_text(n) for n in u) or "-"))
            return Case(d, lines, expect, orc, tag="gp/renamed=%d/early=%s" % (len(d["rename"]), early), nontrivial=True)
    finally:
        drop_classes(uid)


def gp_case(rng):
    pool = ["x", "y", "z", "ARG0", "ARG1", "a"]
    hist, args = [], ["ARG0", "ARG1"]
    if rng.random() < 0.5:
        hist = [[list(p) for p in step] for step in rng.choice(RENAMINGS)]
    else:
        for _ in range(rng.randint(0, 3)):
            step = []
            for i, a in enumerate(args):
                if rng.random() < 0.6 and a not in [s[0] for s in step]:
                    new = rng.choice(pool)
                    step.append([a, new])
            for a, new in step:
                args = [new if x == a else x for x in args]
            hist.append(step)
    tree = rng.choice([["add", "ARG0", "ARG1"], ["mul", "ARG1", "1"], ["ARG0"], ["neg", "ARG1"],
                       ["add", "0.5", "ARG0"], ["add", "mul", "ARG0", "ARG1", "neg", "ARG0"], []])
    return {"k": "gp", "rename": hist, "tree": tree, "early": rng.random() < 0.3}


# ---- toolbox ---------------------------------------------------------------------------------------

def make_decorator(i):
    def deco(f):
        def wrapper(*a, **k):
            r = f(*a, **k)
            return r[:3] + [r[3] + [i]]
        return wrapper
    return deco


def eval_tb(d):
    tb = base.Toolbox()
    kw = [("k%d" % k, v) for k, v in d["kw"]]
    ckw = [("k%d" % k, v) for k, v in d["ckw"]]
    inner = d.get("inner")
    fn, iargs, ikw = record_fn, [], []
    if inner:                    # the registered function is itself an alias of this toolbox / a functools.partial
        iargs, ikw = list(inner["args"]), [("k%d" % k, v) for k, v in inner["kw"]]
        if inner["via"] == "alias":
            tb.register("inner", record_fn, *iargs, **dict(ikw))
            fn = tb.inner
        else:
            import functools
            fn = functools.partial(record_fn, *iargs, **dict(ikw))
    tb.register("op", fn, *d["args"], **dict(kw))
    orc = None
    und = tb.op
    if d["ndec"]:
        tb.decorate("op", *[make_decorator(i + 1) for i in range(d["ndec"])])
    got = tb.op(*d["cargs"], **dict(ckw))
    merged = dict(ikw)           # keywords bound inside the registered partial lose against those frozen by register,
    merged.update(dict(kw))      # which lose against the call's own
    merged.update(dict(ckw))
    if got[0] != iargs + list(d["args"]) + list(d["cargs"]):
        orc = "positional arguments %r are not frozen %r followed by the call's %r" % (got[0], iargs + list(d["args"]),
                                                                                     d["cargs"])
    elif dict(got[1]) != merged:
        orc = "keyword arguments %r are not the frozen ones overridden by the call's (%r)" % (got[1], merged)
    elif got[3] != list(range(1, d["ndec"] + 1)):
        orc = "decorators applied as %r" % (got[3],)
    elif not inner and tb.op.__name__ != "op":      # (an alias of an alias inherits the inner __dict__, incl. its name)
        orc = "alias lost its name"
    elif not inner and (tb.op.args != tuple(d["args"]) or tb.op.keywords != dict(kw)):
        orc = "decoration changed the frozen arguments"
    if orc is None:
        for p in PROTOCOLS:
            try:
                f = pickle.loads(pickle.dumps(und, p))
                r = f(*d["cargs"], **dict(ckw))
                if r[:3] != got[:3] or (not inner and f.__name__ != "op"):
                    orc = "unpickled alias (protocol %d) answers %r" % (p, r)
            except Exception as e:  # noqa
                orc = "undecorated alias not picklable with protocol %d: %s: %s" % (p, type(e).__name__, e)
            if orc:
                break
    if orc is None:
        c = tb.clone([1, [2]])
        if c != [1, [2]] or c[1] is None or list(tb.map(abs, [-1, 2])) != [1, 2]:
            orc = "default clone/map aliases broken"
    order = got[2]
    out = "%s %s %s" % (",".join(map(str, got[0])) or "-",
                        ",".join("%s=%d" % (k[1:], dict(got[1])[k]) for k in order) or "-",
                        ",".join(map(str, got[3])) or "-")

    def skw(l):
        return ",".join("%d=%d" % (k, v) for k, v in l) or "-"
    flat_kw = dict((k, v) for k, v in (inner["kw"] if inner else []))
    flat_kw.update(dict((k, v) for k, v in d["kw"]))          # the model line is the FLATTENED registration
    line = "C16 tb %s %s %d %s %s" % (",".join(map(str, iargs + list(d["args"]))) or "-", skw(list(flat_kw.items())),
                                      d["ndec"], ",".join(map(str, d["cargs"])) or "-", skw(d["ckw"]))
    return Case(d, [line], [out], orc, tag="tb%s/dec=%d/override=%s" % (("-" + inner["via"]) if inner else "", d["ndec"], bool(set(k for k, _ in d["kw"]) &
                                                                                    set(k for k, _ in d["ckw"]))),
                nontrivial=bool(d["args"] or d["kw"] or d["cargs"] or d["ckw"]))


def eval_tbcls(d):
    """A creator-made class registered directly as the alias' function (toolbox.individual = creator.Individual)."""
    uid = next_uid()
    try:
        with warnings.catch_warnings():
            warnings.simplefilter("ignore")
            dd = {"base": d["base"], "weights": d["weights"], "content": d["content"],
                  "inst": {"fitness": "fit", "log": "list"}, "cattrs": {"label": "x"}}
            cl = build_classes(dd, uid)
            Ind, Fit = cl["Ind"], cl["Fit"]
            content = content_of(dd)
            needs = d["base"] != "dict"
            frozen = d["frozen"] and needs
            tb = base.Toolbox()
            tb.register("individual", Ind, *([content] if frozen else []))
            vals = tuple(d["fit"]) if d["fit"] is not None else None
            tb.register("fit", Fit, *([vals] if (d["frozen"] and vals is not None) else []))
            call_ind = [] if (frozen or not needs) else [content]
            call_fit = [] if (d["frozen"] or vals is None) else [vals]
            want_i = canon(Ind(content) if needs else Ind())
            want_f = canon(Fit(vals) if vals is not None else Fit())
            orc = None
            a = tb.individual(*call_ind)
            if type(a) is not Ind or canon(a) != want_i:
                orc = "alias of the individual class builds %r" % (a,)
            elif canon(tb.fit(*call_fit)) != want_f:
                orc = "alias of the fitness class builds something else"
            elif tb.individual.__name__ != "individual" or tb.individual.func is not Ind:
                orc = "alias lost its name / function"
            for alias, call, want in (("individual", call_ind, want_i), ("fit", call_fit, want_f)):
                for p in PROTOCOLS:
                    if orc:
                        break
                    try:
                        f = pickle.loads(pickle.dumps(getattr(tb, alias), p))
                        got = f(*call)
                        if canon(got) != want:
                            orc = "unpickled alias %r (protocol %d) builds a different object: %s" % (
                                alias, p, first_diff(want, canon(got)))
                        elif f.__name__ != alias:
                            orc = "unpickled alias %r (protocol %d) lost its name" % (alias, p)
                    except Exception as e:  # noqa
                        orc = "undecorated alias %r of a created class not picklable with protocol %d: %s: %s" % (
                            alias, p, type(e).__name__, e)
            return Case(d, [], [], orc, tag="tbcls/%s/frozen=%s" % (d["base"], bool(d["frozen"])), nontrivial=True)
    finally:
        drop_classes(uid)


def evaluate(d):
    if d["k"] == "derive":
        from props import c16_derive
        return c16_derive.evaluate(d)
    if d["k"] == "init":
        from props import c16_init
        return c16_init.evaluate(d)
    if d["k"] == "tbcls":
        return eval_tbcls(d)
    if d["k"] == "obj":
        return eval_obj(d)
    if d["k"] == "fresh":
        return eval_fresh(d)
    if d["k"] == "tb":
        return eval_tb(d)
    if d["k"] == "hist":
        return eval_hist(d)
    if d["k"] == "gp":
        return eval_gp(d)
    raise ValueError(d["k"])


# ----------------------------------------------------------------------------------------------------
# generation
# ----------------------------------------------------------------------------------------------------

NP_DTYPES = ["float32", "int8", "uint8", "int16", "complex64"]
BASES = ["ndarray:" + t for t in NP_DTYPES] + ["list", "array:b", "array:i", "array:d", "ndarray:int", "ndarray:float", "ndarray:bool", "set", "dict", "tree"]


def content_for(b, size, rng):
    if b == "tree":
        if size == 0:
            return []
        return random_tree_tokens(rng, 0 if size == 1 else 2)
    if b == "dict":
        vals = [1, 2.5, "s", ["L", 1, 2], ["D", ["a", ["L"]]], ["S", 1, 2], ["T", 1, 2]]
        return [[rng.choice([i, "k%d" % i]), rng.choice(vals)] for i in range(size)]
    if b == "set":
        return rng.sample([0, 1, 2, 3, 5, 8, -1, "a", "b", 2.5], size)
    if b == "ndarray:bool":
        return [rng.random() < 0.5 for _ in range(size)]
    if b == "ndarray:float32":
        return [rng.choice([0.1, 1.5, -2.25, 3.3, 1e-3]) for _ in range(size)]
    if b in ("ndarray:int8", "ndarray:complex64"):
        return [rng.randint(-100, 100) for _ in range(size)]
    if b == "ndarray:uint8":
        return [rng.randint(0, 255) for _ in range(size)]
    if b in ("array:d", "ndarray:float"):
        return [rng.choice([0.0, 1.0, -2.5, 0.125, 3.0]) for _ in range(size)]
    if b == "array:b":
        return [rng.randint(-100, 100) for _ in range(size)]
    if b == "list":
        return [rng.choice([0, 1, 2, -7, 1.5, "g"]) for _ in range(size)]
    return [rng.randint(-1000, 1000) for _ in range(size)]


HARD_W = [3.0, 7.0, 49.0, 0.3, 0.7, 1e-3, -3.0, -7.0, -0.3, 1.1, 10.0, -49.0]
WITNESS = (49.0, 0.020408163265306124)        # v*w = 1.0 but (v*w)/w*w = 0.9999999999999999


def nonidempotent(w, v):
    """(v*w) is not a fixed point of x -> x/w*w: re-deriving wvalues from values changes bits."""
    y = v * w
    return y / w * w != y


def hard_pair(rng):
    for _ in range(4000):
        w = rng.choice(HARD_W)
        v = rng.choice([rng.random(), rng.uniform(-100, 100), rng.randint(1, 1000) / rng.choice([3.0, 7.0, 49.0, 10.0])])
        if nonidempotent(w, v):
            return w, v
    return WITNESS


def rand_fit(n, rng):
    return [float(rng.choice([0, 1, -1, 2.5, 100, -0.125])) for _ in range(n)]


NESTED_VALUES = [
    ["L", 1, ["L", 2, ["L"]]],
    ["D", ["a", ["L", 1]], ["b", ["D", ["c", ["S", 1, 2]]]]],
    ["L", ["=", "sh", ["L", 1, 2]], ["@", "sh"]],
    ["T", 1, ["L", 2]],
    ["A", "d", [1.0, 2.0]],
    ["A", "i", []],
    ["N", "float64", [0.5, 1.5]],
    ["N", "int64", [1, 2, 3]],
    ["S", 1, "x"],
    ["P", 1, ["L", 2]],
    ["D"],
    3, "label", None, ["T", 1, 2],
]

CONFIGS = [
    {},
    {"inst": {"fitness": "fit"}},
    {"inst": {"fitness": "fit", "log": "list"}, "fill": {"log": ["L", 1, ["L", 2]]}},
    {"inst": {"fitness": "fit", "memo": "dict", "seen": "set"},
     "fill": {"memo": ["D", ["a", ["L", 1]]], "seen": ["S", 1, 2]}},
    {"inst": {"fitness": "fit", "strategy": "strategy"}, "fill": {"strategy": ["L", 0.5, 1.5]}},
    {"inst": {"fitness": "fit", "sub": "nested"}, "fill": {"sub": ["L", 1, ["L", 2]]}},
    {"inst": {"fitness": "fit"}, "cattrs": {"shared": ["L", 1, 2], "level": 5, "label": "x"}},
    {"inst": {"fitness": "fit"}, "extra": {"a": ["=", "sh", ["L", 1, ["L", 2]]], "b": ["L", ["@", "sh"]],
                                           "c": ["D", ["k", ["@", "sh"]]]}},
    {"inst": {"fitness": "fit"}, "extra": {"arr": ["N", "float64", [0.5, 1.5]], "arr2": ["A", "d", [1.0]],
                                           "best": ["F", [1.0]], "n": 3}},
    {"inst": {"fitness": "fit", "other": "fit2", "obj": "plainobj"}, "fill": {"obj": ["L", ["L", 1]]},
     "extra": {"kid": ["I", [1, ["L", 2]], ["D", ["z", ["L", 3]]]]}},
]


TREE_TOK = ["add", "ARG0", ["E", "c16_eph_int", 2]]
NESTED_CONFIGS = [
    # examples/pso/basic_numpy.py: part.best = creator.Particle(part); part.speed = array
    {"inst": {"fitness": "fit"}, "aux": ["nd"],
     "extra": {"best": ["SELF", True], "speed": ["C", "nd", [0.5, 1.5], False, [["L", 1]]]}},
    {"inst": {"fitness": "fit", "log": "list"}, "aux": ["tree", "arr", "set"], "fill": {"log": ["L", ["L", 1]]},
     "extra": {"t": ["C", "tree", TREE_TOK, True, [1]], "a": ["C", "arr", [1.0, 2.5], True, []],
               "s": ["C", "set", [1, 2, "x"], False, [["L", 2]]]}},
    {"inst": {"fitness": "fit"}, "aux": ["dict", "list", "nd"],
     "extra": {"dd": ["C", "dict", [["k", ["L", 1]]], True, []],
               "l": ["C", "list", [["L", 1], ["C", "nd", [1, 2], True, []]], True, [3]],
               "both": ["L", ["SELF", True], ["SELF", False]]}},
]


def nested_content(b, rng):
    """Non-atomic top-level content: nested lists (Individual([[1,2],[3]])), trees inside a list individual (ADF
    individuals), dicts; frozen items for set bases."""
    if b == "set":
        return [["T", 1, 2], ["FS", 3, 4], 5, ["T", "a", ["T", 1]]][:rng.randint(1, 4)]
    pool = [["L", 1, 2], ["L", 3], ["L"], ["D", ["a", ["L", 1]]], ["C", "tree", TREE_TOK, True, []],
            ["C", "tree", ["ARG1"], False, [1]], ["C", "list", [1, ["L", 2]], True, []], 7, ["S", 1, 2]]
    return [rng.choice(pool) for _ in range(rng.randint(1, 4))]


def with_fit(cfg, nobj, valid, rng, cfit=False, cv=None, hard=None):
    """hard: None | "rand" (weights/values whose weighted value is not a fixed point of /w*w) | "witness" |
    "bigint" (integer weights, objective above 2**53)."""
    d = {"weights": [rng.choice([1.0, -1.0, 2.0, -0.5]) for _ in range(nobj)], "cfit": cfit}
    hv = None
    if hard == "rand":
        pairs = [hard_pair(rng) for _ in range(nobj)]
        d["weights"], hv = [p[0] for p in pairs], [p[1] for p in pairs]
    elif hard == "witness":
        d["weights"], hv = [WITNESS[0]] + [-7.0] * (nobj - 1), [WITNESS[1]] + [1.0 / 3.0] * (nobj - 1)
    elif hard == "bigint":
        d["weights"], hv, d["intw"] = [1] + [-1] * (nobj - 1), [2 ** 53 + 1] + [3 ** 40] * (nobj - 1), True
    if hard:
        d["hard"] = hard
    fits = {}
    for name, t in cfg.get("inst", {}).items():
        if t == "fit":
            fits[name] = (hv if hv is not None else rand_fit(nobj, rng)) if valid else None
        elif t == "fit2":
            fits[name] = [1.0, 2.0] if rng.random() < 0.5 else None
    d["fits"] = fits
    if cfit:
        d["cv"] = cv
    if any(isinstance(v, list) and v and v[0] == "F" for v in cfg.get("extra", {}).values()):
        cfg = dict(cfg, extra=dict((k, (["F", rand_fit(nobj, rng)] if isinstance(v, list) and v and v[0] == "F" else v))
                                   for k, v in cfg["extra"].items()))
    if "I" in json.dumps(cfg.get("extra", {})) and "nested" not in cfg.get("inst", {}).values():
        cfg = dict(cfg, inst=dict(cfg.get("inst", {}), sub="nested"))
    d.update(cfg)
    return d


def random_config(rng):
    cfg = {"inst": {}, "fill": {}, "extra": {}, "cattrs": {}}
    if rng.random() < 0.85:
        cfg["inst"]["fitness"] = "fit"
    for name, t, fill in (("log", "list", ["L", 1, ["L"]]), ("memo", "dict", ["D", ["q", ["L", 5]]]),
                          ("seen", "set", ["S", 4]), ("strategy", "strategy", ["L", 0.25]),
                          ("sub", "nested", ["L", ["L", 9]]), ("other", "fit2", None), ("obj", "plainobj", ["L", ["S", 1]])):
        if rng.random() < 0.25:
            cfg["inst"][name] = t
            if fill is not None and rng.random() < 0.7:
                cfg["fill"][name] = fill
    names = ["a", "b", "c", "d"]
    defined = False
    for nme in names:
        if rng.random() < 0.4:
            v = rng.choice(NESTED_VALUES)
            if defined and rng.random() < 0.4:
                v = rng.choice([["@", "al"], ["L", ["@", "al"], 1], ["D", ["r", ["@", "al"]]]])
            elif not defined and rng.random() < 0.4 and isinstance(v, list) and v[0] in "LDSAN":
                v = ["=", "al", v if "@" not in json.dumps(v) and "=" not in json.dumps(v) else ["L", 1]]
                defined = True
            if "@" in json.dumps(v) and not defined:
                v = ["L", 7]
            cfg["extra"][nme] = v
    if rng.random() < 0.3:
        cfg["cattrs"]["shared"] = rng.choice([["L", 1], ["D", ["a", 1]], 4, "txt", ["N", "int64", [1, 2]]])
    if rng.random() < 0.2:
        cfg["cattrs"]["level"] = rng.randint(0, 9)
    return dict((k, v) for k, v in cfg.items() if v)


FIT_CONTAINERS = [
    ({"notes": "list"}, {"notes": ["L", 4]}),
    ({"notes": "list", "meta": "dict"}, {"notes": ["L", 1, ["L", 2]], "meta": ["D", ["gen", ["L", 7]]]}),
    ({"seen": "set", "notes": "list"}, {"seen": ["S", 1, 2]}),
    ({"meta": "dict"}, {}),
]


def obj_case(b, size, cfg, nobj, valid, rng, chain=1, cfit=False, cv=None, hard=None):
    d = with_fit(cfg, nobj, valid, rng, cfit, cv, hard)
    d.update({"k": "obj", "base": b, "content": content_for(b, size, rng), "chain": chain,
              "clash": rng.choice(["values", "values", "names"])})
    return d


def with_fit_containers(d, rng):
    """The fitness class itself gets per-instance containers (creator.create("Fit", base.Fitness, weights=..., notes=list))."""
    if "fitness" in d.get("inst", {}) and not d.get("fitextra"):
        fi, ff = rng.choice(FIT_CONTAINERS)
        d["fitinst"], d["fitfill"] = dict(fi), dict(ff)
    return d


def structured(rng, thorough):
    out = []
    for b in BASES:
        for ci, cfg in enumerate(CONFIGS):
            for valid in (False, True):
                for nobj in (1, 2, 3):
                    if not thorough and rng.random() < 0.55:
                        continue
                    for size in ((0, 1, 3) if thorough else (rng.choice([0, 1, 3]),)):
                        out.append(obj_case(b, size, cfg, nobj, valid, rng, chain=rng.choice([1, 1, 2, 3])))
    # fitness values whose weighted value is NOT reproduced by values -> wvalues (non power-of-two weights, big ints)
    for b in BASES:
        for hard in ("witness", "bigint", "rand", "rand"):
            out.append(obj_case(b, 2, rng.choice(CONFIGS[1:6]), rng.randint(1, 3), True, rng,
                                chain=rng.choice([1, 2]), hard=hard))
    # created instances nested inside the individual; non-atomic top-level content
    for b in BASES:
        for cfg in NESTED_CONFIGS:
            out.append(obj_case(b, rng.choice([1, 3]), cfg, rng.randint(1, 3), rng.random() < 0.7, rng,
                                chain=rng.choice([1, 2])))
    for b in ("list", "set"):
        for cfg in (CONFIGS[1], CONFIGS[2], CONFIGS[7], NESTED_CONFIGS[1]):
            for rep in range(2):
                d = obj_case(b, 0, cfg, rng.randint(1, 2), True, rng, chain=rng.choice([1, 2]))
                d["content"] = nested_content(b, rng)
                d["aux"] = sorted(set(d.get("aux", []) + ["tree", "list"]))
                out.append(d)
    # object-dtype numpy individuals: the elements are mutable objects that a clone must not share (F29)
    for cfg in (CONFIGS[0], CONFIGS[1], CONFIGS[3], CONFIGS[7]):
        for content in ([["D", ["gene", 1]], ["D", ["gene", ["L", 2, 3]]], ["D"]], [["D", ["a", ["D", ["b", ["L"]]]]]],
                        [["D", ["g", 1]], 4, "s"]):
            d = obj_case("list", 0, cfg, rng.randint(1, 2), rng.random() < 0.6, rng, chain=rng.choice([1, 2]))
            d["base"] = "ndarray:object"
            d["content"] = content
            out.append(d)
    # constrained fitness: also a VALID one that still carries its record
    for b in BASES:
        out.append(obj_case(b, 2, CONFIGS[1], 2, True, rng, cfit=True, cv=[False, False]))
        out.append(obj_case(b, 1, CONFIGS[2], 1, True, rng, cfit=True, cv=[True]))
    for b in BASES:
        for cv in (None, [True, False], []):
            out.append(obj_case(b, 2, CONFIGS[1], 2, False, rng, cfit=True, cv=cv))
        out.append(obj_case(b, 2, CONFIGS[2], 1, True, rng, cfit=True))
    # trees over a primitive set whose arguments were renamed (every history in RENAMINGS): name != str(value)
    for ren in RENAMINGS:
        for cfg in (CONFIGS[0], CONFIGS[1], rng.choice(CONFIGS[2:])):
            d = obj_case("tree", 0, cfg, rng.randint(1, 3), rng.random() < 0.5, rng, chain=rng.choice([1, 2]))
            d["content"] = rng.choice([["add", "ARG0", "ARG1"], ["mul", "ARG1", ["E", "c16_eph_int", 2]],
                                       ["ARG0"], ["neg", "ARG1"], ["add", "1", "ARG0"]])
            d["rename"] = ren
            out.append(d)
    # a fitness class with containers of its own: clones / pickles must not share them with the original
    for b in BASES:
        for cfg in (CONFIGS[1], rng.choice(CONFIGS[2:6])):
            out.append(with_fit_containers(obj_case(b, rng.choice([1, 3]), cfg, rng.randint(1, 3), rng.random() < 0.6,
                                                    rng, chain=rng.choice([1, 2, 3])), rng))
    # 2-D numpy individuals (oracle only)
    for kind in ("int", "float"):
        d = obj_case("ndarray:" + kind, 0, CONFIGS[2], 2, True, rng)
        d["content"] = [[1, 2], [3, 4]]
        out.append(d)
    # off-premise (model vs implementation only): deleted per-instance attribute, attributes on a fitness
    for b in BASES:
        d = obj_case(b, 2, CONFIGS[3], 1, True, rng)
        d["del"] = ["seen"]
        out.append(d)
        d = obj_case(b, 2, CONFIGS[3], 1, True, rng)
        d["del"] = ["fitness", "memo", "seen"]
        out.append(d)
        d = obj_case(b, 1, CONFIGS[1], 2, True, rng)
        d["fitextra"] = {"history": ["L", 1, 2], "note": "n"}
        out.append(d)
    return out


def tb_case(rng):
    ks = [1, 2, 3, 4]
    kw = [[k, rng.randint(-5, 5)] for k in rng.sample(ks, rng.randint(0, 3))]
    ckw = [[k, rng.randint(-5, 5)] for k in rng.sample(ks, rng.randint(0, 3))]
    d = {"k": "tb", "args": [rng.randint(-9, 9) for _ in range(rng.randint(0, 3))], "kw": kw,
         "ndec": rng.choice([0, 0, 1, 2, 3]), "cargs": [rng.randint(-9, 9) for _ in range(rng.randint(0, 3))],
         "ckw": ckw}
    if rng.random() < 0.5:       # register an alias / a partial, with keywords clashing with the outer ones
        ik = sorted(set([k for k, _ in kw][:2] + rng.sample(ks, rng.randint(1, 2))))
        d["inner"] = {"via": rng.choice(["alias", "partial"]), "args": [rng.randint(-9, 9) for _ in range(rng.randint(0, 2))],
                      "kw": [[k, rng.randint(10, 20)] for k in ik]}
    return d


def generate(tier, rng, mult):
    thorough = tier == "thorough"
    # 00. creator classes DERIVED FROM creator classes (1-3 levels, redeclaring none / some / all of the inherited per-instance
    #     attributes, every base, parent-first / child-first / interleaved histories): clause 1 on every instance of the chain, clone and
    #     pickle of every level (props/c16_derive.py; Heap.runEvents / createD, theorem derived_create_fresh_attrs)
    from props import c16_derive
    for d in c16_derive.generate(tier, rng, mult):
        yield d
    # 0. individuals built by tools.initRepeat / initCycle / initIterate from creator classes of every base, with counting functions
    #    (props/c16_init.py; theorems initRepeat_calls, initCycle_calls, initIterate_spec, initRepeat_fresh_attrs)
    from props import c16_init
    for d in c16_init.generate(tier, rng, mult):
        yield d
    # 1. class identity across pickling: histories of create / re-create / delete / dump / load over every base
    #    type and every protocol, against Heap.dumpP / loadP / nsRun (theorem pickle_class_independent_of_namespace)
    for rep in range(8 if thorough else 3):
        for b in BASES:
            yield hist_case(b, rng)
    # 2. GP node objects under renameArguments histories (theorem node_pickle_roundtrip)
    for _ in range(300 if thorough else 40):
        yield gp_case(rng)
    st = structured(rng, thorough)
    rng.shuffle(st)
    # 3. fresh-interpreter batches early (so that they are always reached within the budget): the child re-runs the
    #    creates / defines its OWN different classes under the same names (other names; same names, other values) / nothing
    nb = (60 if thorough else 30)
    for i in range(0, min(len(st), nb * (8 if thorough else 4)), nb):
        batch = [dict(s) for s in st[i:i + nb]]
        batch += [tb_case(rng) for _ in range(5)]
        yield {"k": "fresh", "recreate": [True, "clashv", "clash", False][(i // nb) % 4], "cases": batch,
               "hashseed": rng.randint(0, 1000)}
    for _ in range(200 if thorough else 60):
        yield tb_case(rng)
    for b in BASES:
        if b == "tree":
            continue
        for frozen in (False, True):
            for rep in range(3 if thorough else 1):
                yield {"k": "tbcls", "base": b, "weights": [rng.choice([1.0, -1.0]) for _ in range(rng.randint(1, 3))],
                       "content": content_for(b, rng.choice([0, 2, 3]), rng), "frozen": frozen, "fit": None}
                w = [rng.choice([1.0, -1.0, 2.0]) for _ in range(rng.randint(1, 3))]
                yield {"k": "tbcls", "base": b, "weights": w, "content": content_for(b, 2, rng), "frozen": frozen,
                       "fit": rand_fit(len(w), rng)}
    for s in st:
        yield s
    nrand = (12000 if thorough else 2200) * mult
    pend = []
    for i in range(nrand):
        b = rng.choice(BASES)
        cfg = random_config(rng)
        valid = rng.random() < 0.6
        cfit = rng.random() < 0.15
        d = obj_case(b, rng.choice([0, 1, 2, 3, 5]), cfg, rng.randint(1, 3), valid, rng,
                     chain=rng.choice([1, 1, 2, 3, 4]), cfit=cfit,
                     hard=("rand" if (valid and not cfit and rng.random() < 0.3) else None),
                     cv=rng.choice([None, [True], [False, True]]) if cfit else None)
        if b == "tree" and rng.random() < 0.5:
            d["rename"] = rng.choice(RENAMINGS)
        if not cfit and rng.random() < 0.12:
            with_fit_containers(d, rng)
        if b in ("list", "set") and rng.random() < 0.35:
            d["content"] = nested_content(b, rng)
            d["aux"] = sorted(set(d.get("aux", []) + ["tree", "list"]))
        elif rng.random() < 0.15 and "@" not in json.dumps(d.get("extra", {})):
            nc = rng.choice(NESTED_CONFIGS)
            d["aux"] = sorted(set(d.get("aux", []) + nc["aux"]))
            d["extra"] = dict(d.get("extra", {}), **nc["extra"])
        yield d
        pend.append(d)
        if len(pend) == 50 and (thorough or i < 300):
            yield {"k": "fresh", "recreate": rng.choice([True, False, "clash", "clashv"]), "cases": pend,
                   "hashseed": rng.randint(0, 1000)}
        if len(pend) >= 50:
            pend = []
        if i % 25 == 24:            # histories and renamed-argument trees keep coming with the random objects
            yield hist_case(rng.choice(BASES), rng)
            yield gp_case(rng)


def shrink(d):
    if d["k"] == "derive":
        from props import c16_derive
        for e in c16_derive.shrink(d):
            yield e
        return
    if d["k"] == "init":
        from props import c16_init
        for e in c16_init.shrink(d):
            yield e
        return
    if d["k"] == "fresh":
        cs = d["cases"]
        if len(cs) > 1:
            h = len(cs) // 2
            yield dict(d, cases=cs[:h])
            yield dict(d, cases=cs[h:])
            for i in range(len(cs)):
                yield dict(d, cases=cs[:i] + cs[i + 1:])
        elif cs and cs[0].get("k") == "obj":
            for e in shrink(cs[0]):
                yield dict(d, cases=[e])
        return
    if d["k"] == "tbcls":
        if d["content"]:
            yield dict(d, content=d["content"][:-1])
        return
    if d["k"] == "hist":
        if len(d.get("protos", PROTOCOLS)) > 1:
            for p in d.get("protos", PROTOCOLS):
                yield dict(d, protos=[p])
        for i in range(len(d["steps"]) - 1, -1, -1):
            yield dict(d, steps=d["steps"][:i] + d["steps"][i + 1:])
        if d.get("strat"):
            yield dict(d, strat=False)
        return
    if d["k"] == "gp":
        if len(d.get("protos", PROTOCOLS)) > 1:
            for p in d.get("protos", PROTOCOLS):
                yield dict(d, protos=[p])
        for i in range(len(d["rename"])):
            yield dict(d, rename=d["rename"][:i] + d["rename"][i + 1:])
        if len(d["tree"]) > 1:
            yield dict(d, tree=["ARG0"])
            yield dict(d, tree=["ARG1"])
        return
    if d["k"] == "tb":
        for key in ("args", "kw", "cargs", "ckw"):
            for i in range(len(d[key])):
                yield dict(d, **{key: d[key][:i] + d[key][i + 1:]})
        if d["ndec"]:
            yield dict(d, ndec=d["ndec"] - 1)
        return
    if d.get("chain", 1) > 1:
        yield dict(d, chain=1)
    if len(d.get("protos", PROTOCOLS)) > 1:
        for p in d.get("protos", PROTOCOLS):
            yield dict(d, protos=[p])
    for key in ("extra", "cattrs", "fill", "fitextra"):
        for name in sorted(d.get(key, {})):
            e = dict(d)
            e[key] = dict((k, v) for k, v in d[key].items() if k != name)
            if "@" not in json.dumps(e.get("extra", {})) or "=" in json.dumps(e.get("extra", {})):
                yield e
    for name in sorted(d.get("fitinst", {})):
        if name not in d.get("fitfill", {}):
            yield dict(d, fitinst=dict((k, v) for k, v in d["fitinst"].items() if k != name))
    for name in sorted(d.get("fitfill", {})):
        yield dict(d, fitfill=dict((k, v) for k, v in d["fitfill"].items() if k != name))
    if d.get("rename") and len(d["rename"]) > 1:
        yield dict(d, rename=d["rename"][:-1])
    for name in sorted(d.get("inst", {})):
        if name in d.get("fill", {}) or name in d.get("del", []) or (name == "fitness" and d.get("fitinst")):
            continue
        e = dict(d)
        e["inst"] = dict((k, v) for k, v in d["inst"].items() if k != name)
        e["fits"] = dict((k, v) for k, v in d.get("fits", {}).items() if k != name)
        if d["inst"][name] == "nested" and "\"I\"" in json.dumps(d.get("extra", {})):
            continue
        yield e
    if d["base"] != "tree" and len(d["content"]) > 0:
        for i in range(len(d["content"])):
            yield dict(d, content=d["content"][:i] + d["content"][i + 1:])
    if d["base"] == "tree" and len(d["content"]) > 1:
        yield dict(d, content=["ARG0"])
    if len(d["weights"]) > 1 and all(v is None for v in d.get("fits", {}).values()):
        yield dict(d, weights=d["weights"][:1])


def classify(desc, msg, known):
    for k in known:
        key = k.get("match") or ""
        if key and key in msg:
            return k.get("id")
    return None


if __name__ == "__main__":
    if "--child" in sys.argv:
        child_main()
