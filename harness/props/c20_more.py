"""C20, second part: object histories and the remaining public functions of deap/benchmarks.

 * `mpworld`  several MovingPeaks objects built from ONE scenario dictionary / ONE list of peak functions (the
              caller's objects are shared between the constructor calls, as in `MovingPeaks(dim, **SCENARIO)`), each
              with its own (or one shared) random source, and an interleaved history of changePeaks / evaluations /
              counted evaluations.  The model (`MovingPeaks.World`, Core/MovingPeaks.lean) runs the same interleaved
              history on value-semantics objects built by `MovingPeaks.init` (all three `pfunc` paths of `__init__`).
 * `dechist`  one decorated function re-parameterised through `.translate() / .rotate() / .scale()` (alone and
              stacked) with fresh, re-used and in-place-refilled argument objects (lists, tuples, numpy arrays, lists
              of rows); the wrapped function records what it receives (`BenchTools.runHist` / `stackHist`).
 * `mpmax`, `popdiv`   MovingPeaks.globalMaximum / maximums, movingpeaks.diversity.
 * `ind`, `hvpop`      benchmarks.tools.diversity / convergence / igd / hypervolume (quality indicators; not named by
              the statement: model-vs-implementation only, a reference disagreement is a CORRESPONDENCE break).

The oracle clauses are the statement's: evaluation = max of the separately evaluated peak functions, peak count inside
the configured limits after any number of changes (of any object), the wrapped function receives the inverse transform
of the individual under the parameter installed last."""
import math
import random as _pyrandom
import types
from fractions import Fraction as Fr

import numpy

from lib import Case, fbits
from deap.benchmarks import movingpeaks
from deap.benchmarks import tools as btools
from props import c20 as base


# ------------------------------------------------------------------------------------------
# several benchmark objects
# ------------------------------------------------------------------------------------------
class RoutedRandom(object):
    """random-module look-alike; every draw is appended to the list `self.draws` points to (the harness points it
    at the tape of the object that is being operated)"""
    def __init__(self, seed):
        self.r = _pyrandom.Random(seed)
        self.draws = []

    def random(self):
        x = self.r.random(); self.draws.append("r=" + fbits(x)); return x

    def uniform(self, a, b):
        x = self.r.uniform(a, b); self.draws.append("u=" + fbits(x)); return x

    def gauss(self, mu, sigma):
        x = self.r.gauss(mu, sigma); self.draws.append("g=" + fbits(x)); return x

    def randrange(self, n):
        i = self.r.randrange(n); self.draws.append("i=%d" % i); return i

    def choice(self, seq):
        i = self.r.randrange(len(seq)); self.draws.append("c=%d" % i); return seq[i]

    def sample(self, seq, k):
        idx = self.r.sample(range(len(seq)), k)          # ValueError when k > len(seq), as random.sample
        self.draws.append("s=" + (",".join(map(str, idx)) or "-"))
        return [seq[i] for i in idx]


SC = {1: movingpeaks.SCENARIO_1, 2: movingpeaks.SCENARIO_2, 3: movingpeaks.SCENARIO_3}
SCALARS = ("lambda_", "move_severity", "min_height", "max_height", "uniform_height", "min_width", "max_width",
           "uniform_width", "height_severity", "width_severity", "min_coord", "max_coord")


def make_pfunc(spec):
    """the caller's `pfunc` object: one function, or ONE list / tuple object handed to every constructor call"""
    PF = base.PF
    if spec["kind"] == "one":
        return PF[spec["fns"]]
    seq = [PF[c] for c in spec["fns"]]
    return tuple(seq) if spec["kind"] == "tuple" else seq


def world_scenario(d):
    """the ONE dictionary all objects of the world are built from (`MovingPeaks(dim, random=r, **sc)`)"""
    sc = dict(SC[d["scenario"]])
    c = d["common"]
    sc["npeaks"] = c["npeaks"] if not isinstance(c["npeaks"], list) else list(c["npeaks"])
    if isinstance(c["npeaks"], list):
        sc["number_severity"] = c["sev"]
    if c.get("pfunc") is not None:
        sc["pfunc"] = make_pfunc(c["pfunc"])
    if c.get("basis") is not None:
        bval = c["basis"]
        sc["bfunc"] = lambda x: bval
    elif d["scenario"] == 3:
        sc["bfunc"] = lambda x: 10
    sc["period"] = c.get("period", 0)
    for k in SCALARS:
        if k in c:
            sc[k] = c[k]
    return sc


def pf_token(pf):
    PFL = base.PFL
    if callable(pf):
        return "one:" + PFL[pf]
    return "many:" + ("".join(PFL[f] for f in pf) or "-")


def lims_of(npeaks):
    if isinstance(npeaks, list):
        return (npeaks[0], npeaks[2]), npeaks[1]
    return None, npeaks


def snapshot(mp):
    return ([id(f) for f in mp.peaks_function], [list(p) for p in mp.peaks_position], list(mp.peaks_height),
            list(mp.peaks_width), [list(l) for l in mp.last_change_vector], mp.nevals)


def state_error(i, mp, lims, n_fixed):
    """the state clauses of the statement on one object: parallel per-peak lists, count inside the limits"""
    n = len(mp.peaks_function)
    lens = sorted(set(map(len, (mp.peaks_function, mp.peaks_position, mp.peaks_height, mp.peaks_width, mp.last_change_vector))))
    if len(lens) != 1:
        return "object #%d: per-peak lists have different lengths %r" % (i, lens)
    if lims is not None and not (lims[0] <= n <= lims[1]):
        return "object #%d has %d peaks, configured limits [%d, %d]" % (i, n, lims[0], lims[1])
    if lims is None and n != n_fixed:
        return "object #%d: fixed number of peaks changed from %d to %d" % (i, n_fixed, n)
    return None


def final_tokens(mp, unused):
    PFL = base.PFL
    fl = base.fl
    peaks = ";".join("%s,%s,%s,%s,%s" % (PFL[f], fbits(h), fbits(w), fl(p), fl(l)) for f, p, h, w, l in
                     zip(mp.peaks_function, mp.peaks_position, mp.peaks_height, mp.peaks_width, mp.last_change_vector)) or "-"
    pool = "".join(PFL[f] for f in mp.pfunc_pool) or "-"
    try:
        off = fbits(mp.offlineError())
    except ZeroDivisionError:
        off = "none"
    return "%s %s %d %s %s %d" % (peaks, pool, mp.nevals, fbits(mp._offline_error), off, unused)


def ev_mpworld(d):
    fl = base.fl
    sc = world_scenario(d)
    pf_obj = sc.get("pfunc")
    pf_saved = None if callable(pf_obj) else list(pf_obj)
    np_obj = sc["npeaks"]
    np_saved = list(np_obj) if isinstance(np_obj, list) else np_obj
    sc_saved = dict(sc)
    n_inst = d["n"]
    tapes = [[] for _ in range(n_inst)]
    shared = RoutedRandom(d["seeds"][0]) if d.get("sharerng") else None
    rnds, mps, cfgs = [], [], []
    inst_over = d.get("inst") or [{} for _ in range(n_inst)]
    basis = d["common"].get("basis")
    if basis is None and d["scenario"] == 3:
        basis = 10.0
    raised = None
    for i in range(n_inst):
        rnd = shared if shared is not None else RoutedRandom(d["seeds"][i])
        rnd.draws = tapes[i]
        over = inst_over[i]
        sci = sc if not over else dict(sc, **over)      # the values (pfunc list, npeaks list) stay the caller's objects
        lims, n0 = lims_of(sci["npeaks"])
        cfgs.append((sci, lims, n0))
        try:
            mp = movingpeaks.MovingPeaks(dim=d["dim"], random=rnd, **sci)
        except ValueError as e:
            pf = sci["pfunc"]
            if not callable(pf) and len(pf) < n0:
                raised = "ValueError"          # random.sample of more functions than the caller's list holds
                mp = None
            else:
                raise
        rnds.append(rnd); mps.append(mp)

    def inst_tokens(i):
        sci, lims, n0 = cfgs[i]
        return [str(d["dim"]), "none" if lims is None else "%d,%d" % lims, fbits(sci.get("number_severity", 0.0) or 0.0),
                pf_token(sci["pfunc"]), str(n0), fbits(sci["uniform_height"]), fbits(sci["uniform_width"]),
                str(sci["period"]), "none" if basis is None else fbits(basis),
                fbits(sci["min_coord"]), fbits(sci["max_coord"]), fbits(sci["min_height"]), fbits(sci["max_height"]),
                fbits(sci["min_width"]), fbits(sci["max_width"]), fbits(sci["lambda_"]), fbits(sci["move_severity"]),
                fbits(sci["height_severity"]), fbits(sci["width_severity"]), str(len(tapes[i]))] + tapes[i]

    tag = "mpworld/%s/n=%d%s" % (d.get("mode", "-"), n_inst, "/shared-rng" if shared is not None else "")
    if raised:
        toks = ["C20", "mpworld", str(n_inst)]
        for i in range(n_inst):
            toks += inst_tokens(i)
        toks.append("0")
        return Case(d, [" ".join(toks)], ["error"], None, tag=tag + "/rejected", nontrivial=False)

    orc = None
    for i, mp in enumerate(mps):
        _sci, lims, n0 = cfgs[i]
        if len(mp.peaks_function) != n0:
            orc = orc or "object #%d constructed with %d peaks, configured %d" % (i, len(mp.peaks_function), n0)
        orc = orc or state_error(i, mp, lims, n0)
    corr = None          # breaks of the model's frame conditions that the statement does not name
    outs, ops_toks = [], []
    for op in d["ops"]:
        i, kind = op[0], op[1]
        mp = mps[i]
        rnds[i].draws = tapes[i]
        before = [snapshot(m) for m in mps]
        x = [float(v) for v in op[2]] if len(op) > 2 else None
        try:
            if kind == "ch":
                mp.changePeaks()
                outs.append(str(len(mp.peaks_function)))
                ops_toks += [str(i), "ch"]
            elif kind == "e":
                sep = base.mp_values(mp, x)
                v = mp(x, count=False)[0]
                outs.append(fbits(v))
                ops_toks += [str(i), "e", fl(x)]
                if orc is None and not base.is_max(v, sep):
                    orc = "object #%d: evaluation %r is not the maximum %r of its peak functions" % (i, v, max(sep))
            else:
                sep = base.mp_values(mp, x)
                nd = len(tapes[i])
                v = mp(x)[0]
                changed = len(tapes[i]) != nd
                outs.append("%s,%d,%d,%d,%s" % (fbits(v), int(changed), mp.nevals, len(mp.peaks_function), fbits(mp.currentError())))
                ops_toks += [str(i), "c", fl(x)]
                if orc is None and not base.is_max(v, sep):
                    orc = "object #%d: counted evaluation %r is not the maximum %r of its peak functions" % (i, v, max(sep))
        except (ValueError, IndexError, TypeError) as e:
            # zip-truncated / emptied lists end in max() of nothing, pop from an empty list, ...
            bad = None
            for j, m in enumerate(mps):
                bad = bad or state_error(j, m, cfgs[j][1], cfgs[j][2])
            orc = orc or bad or "object #%d: %s raised %s: %s" % (i, kind, type(e).__name__, e)
            return Case(d, [], [], orc, tag=tag + "/exception")
        for j, m in enumerate(mps):
            if orc is None:
                orc = state_error(j, m, cfgs[j][1], cfgs[j][2])
            if j != i and corr is None and snapshot(m) != before[j]:
                corr = "CORRESPONDENCE: %s on object #%d changed object #%d (built from the same arguments)" % (kind, i, j)
        if orc is not None:
            return Case(d, [], [], orc, tag=tag + "/state")
    # the caller's argument objects
    if corr is None:
        if pf_saved is not None and (len(pf_obj) != len(pf_saved) or any(a is not b for a, b in zip(pf_obj, pf_saved))):
            corr = "CORRESPONDENCE: the caller's list of peak functions was modified (%d entries, %d before)" % (len(pf_obj), len(pf_saved))
        elif isinstance(np_obj, list) and np_obj != np_saved:
            corr = "CORRESPONDENCE: the caller's npeaks list was modified"
        elif set(sc) != set(sc_saved) or any(sc[k] is not sc_saved[k] for k in sc):
            corr = "CORRESPONDENCE: the caller's scenario dictionary was modified"
    toks = ["C20", "mpworld", str(n_inst)]
    for i in range(n_inst):
        toks += inst_tokens(i)
    toks += [str(len(d["ops"]))] + ops_toks
    expect = (";".join(outs) or "-") + "".join(" " + final_tokens(m, 0) for m in mps)
    return Case(d, [" ".join(toks)], [expect], orc or corr, tag=tag, tol=base.TOL)


def gen_mpworld(rng, nrun):
    """the mode cycles with the index (never with the seed): which constructor path, what is shared"""
    for i in range(nrun):
        mode = i % 7
        dim = (1, 2, 2, 3, 5)[i % 5]
        scn = (1, 2)[(i // 7) % 2]
        n_inst = (2, 3, 2, 2)[(i // 2) % 4]
        common = {"period": 0}
        inst = None
        if mode == 0:          # F33 family: ONE list of exactly `initial` functions, fluctuating numbers
            lo = rng.choice([1, 1, 2]); n0 = rng.randint(lo, lo + 3); hi = n0 + rng.randint(1, 4)
            common.update(npeaks=[lo, n0, hi], sev=rng.choice([0.5, 1.0, 1.0, 2.0]),
                          pfunc={"kind": "list", "fns": "".join(rng.choice("cf") for _ in range(n0))})
            name = "shared-list/exact"
        elif mode == 1:        # F34 family: a pool longer than the number of peaks -> random.sample
            n0 = rng.randint(1, 4); extra = rng.randint(1, 3)
            lo = rng.randint(1, n0); hi = n0 + rng.randint(0, 3)
            common.update(npeaks=[lo, n0, hi] if i % 2 else n0, sev=rng.choice([0.5, 1.0, 2.0]),
                          pfunc={"kind": ("list", "tuple")[(i // 7) % 2], "fns": "".join(rng.choice("cfs" if i % 3 == 0 else "cf") for _ in range(n0 + extra))})
            name = "shared-pool/sample"
        elif mode == 2:        # one function object, one scenario dictionary, counted evaluations with a short period
            n0 = rng.randint(1, 6)
            common.update(npeaks=n0 if i % 2 else [1, n0, n0 + 3], sev=1.0, period=rng.choice([1, 2, 3, 5]),
                          pfunc={"kind": "one", "fns": rng.choice("cf")})
            name = "one-function/auto-change"
        elif mode == 3:        # a tuple of exactly `initial` functions
            lo = 1; n0 = rng.randint(1, 4); hi = n0 + rng.randint(1, 3)
            common.update(npeaks=[lo, n0, hi], sev=rng.choice([1.0, 2.0, 0.3]),
                          pfunc={"kind": "tuple", "fns": "".join(rng.choice("cf") for _ in range(n0))})
            name = "shared-tuple/exact"
        elif mode == 4:        # the same list taken as-is by one object and sampled from by another
            n0 = rng.randint(2, 5)
            common.update(npeaks=[1, n0, n0 + 2], sev=1.0, pfunc={"kind": "list", "fns": "".join(rng.choice("cf") for _ in range(n0))})
            k = rng.randint(1, n0 - 1)
            inst = [{}, {"npeaks": [1, k, n0 + 1]}] + [{}] * (n_inst - 2)
            name = "shared-list/exact+sample"
        elif mode == 5:        # the module's default function / scenario defaults, several objects of one dictionary
            common.update(npeaks=[1, 3, 6] if i % 2 else 4, sev=0.5, period=rng.choice([0, 4]))
            name = "scenario-defaults"
        else:                  # one object: every constructor path, incl. a list shorter than the number of peaks
            n_inst = 1
            n0 = rng.randint(0, 5)
            k = (n0, n0 + 2, max(0, n0 - 1), n0 + 1)[(i // 7) % 4]
            # (no function at all: only a fixed number of peaks - there is nothing to draw a new peak's function from)
            common.update(npeaks=n0 if (i % 2 or k == 0) else [min(1, n0), n0, n0 + 2], sev=1.0, period=rng.choice([0, 0, 2, 3]),
                          pfunc={"kind": ("list", "tuple")[(i // 14) % 2], "fns": "".join(rng.choice("cfs") for _ in range(k))})
            name = "single/paths"
        if rng.random() < 0.3:
            common["basis"] = rng.choice([10.0, 45.0, -5.0])
        if rng.random() < 0.2:
            common.update(uniform_height=0, uniform_width=0)
        if rng.random() < 0.15:
            common["move_severity"] = rng.choice([0.0, 30.0])
        x = [rng.uniform(0, 100) for _ in range(dim)]
        ops = []
        for _ in range(rng.randint(8, 40)):
            j = rng.randrange(n_inst)
            r = rng.random()
            if r < 0.55:
                ops.append([j, "ch"])
            elif r < 0.8:
                ops.append([j, "e", x if rng.random() < 0.5 else [rng.uniform(0, 100) for _ in range(dim)]])
            else:
                ops.append([j, "c", x])
        if mode == 6 and (common["npeaks"] == 0 or common["npeaks"] == [0, 0, 2]):
            ops = [o for o in ops if o[1] == "ch"]          # no peak at all: evaluation has nothing to take a maximum of
            if "basis" not in common:
                common["basis"] = 10.0
        d = {"k": "mpworld", "mode": name, "scenario": scn, "dim": dim, "n": n_inst, "common": common,
             "seeds": [rng.randrange(1 << 30) for _ in range(n_inst)], "sharerng": (i // 7) % 3 == 2, "ops": ops}
        if inst:
            d["inst"] = inst
        yield d
    # the reproducer of F33 as recorded: two objects of one list [cone, function1, cone], limits [1, 5],
    # number_severity 1.0, 200 alternating changes
    yield {"k": "mpworld", "mode": "F33-reproducer", "scenario": 1, "dim": 2, "n": 2,
           "common": {"npeaks": [1, 3, 5], "sev": 1.0, "period": 0, "pfunc": {"kind": "list", "fns": "cfc"}},
           "seeds": [1, 2], "sharerng": False, "ops": [[j % 2, "ch"] for j in range(2 * (200 if nrun > 500 else 60))]}
    # the reproducer of F34: a pool of three functions, two peaks, all other parameters default
    yield {"k": "mpworld", "mode": "F34-reproducer", "scenario": 1, "dim": 2, "n": 1,
           "common": {"npeaks": 2, "period": 0, "pfunc": {"kind": "list", "fns": "cfs"}},
           "seeds": [3], "sharerng": False, "ops": [[0, "e", [10.0, 20.0]], [0, "ch"], [0, "e", [10.0, 20.0]]]}


# ------------------------------------------------------------------------------------------
# globalMaximum / maximums / diversity(population)
# ------------------------------------------------------------------------------------------
def ev_mpmax(d):
    fl = base.fl
    peaks = d["peaks"]
    dim = len(peaks[0][1]) if peaks else 1
    mp = movingpeaks.MovingPeaks(dim=dim, random=base.RecRandom(0), npeaks=max(1, len(peaks)), period=0)
    mp.peaks_function = [base.PF[p[0]] for p in peaks]
    mp.peaks_position = [list(p[1]) for p in peaks]
    mp.peaks_height = [p[2] for p in peaks]
    mp.peaks_width = [p[3] for p in peaks]
    bval = d.get("basis")
    mp.basis_function = (lambda ind: bval) if bval is not None else None
    toks = ["C20", "mpmax", "none" if bval is None else fbits(bval)]
    for p in peaks:
        toks += [p[0], fl(p[1]), fbits(p[2]), fbits(p[3])]
    if not peaks:
        try:
            mp.globalMaximum()
            return Case(d, [" ".join(toks)], ["?"], "CORRESPONDENCE: globalMaximum() of no peak returned", tag="mp/max/empty")
        except ValueError:
            return Case(d, [" ".join(toks)], ["error -"], None, tag="mp/max/empty", nontrivial=False)
    gv, gp = mp.globalMaximum()
    ms = mp.maximums()
    corr = None
    centre = [base.O_PEAK[p[0]](p[1], p[1], p[2], p[3]) for p in peaks]
    if not base.close(gv, max(centre), 1e-9, 1e-9):
        corr = "CORRESPONDENCE: globalMaximum() = %r, the largest centre value is %r" % (gv, max(centre))
    elif any(not base.close(v, mp(list(p_), count=False)[0], 1e-9, 1e-9) for v, p_ in ms):
        corr = "CORRESPONDENCE: maximums() lists a point whose value is not the landscape's value there"
    elif [v for v, _ in ms] != sorted([v for v, _ in ms], reverse=True):
        corr = "CORRESPONDENCE: maximums() is not sorted with the global maximum first"
    expect = "%s %s" % (fl([gv] + list(gp)), ";".join(fl([v] + list(p_)) for v, p_ in ms) or "-")
    return Case(d, [" ".join(toks)], [expect], corr, tag="mp/max/n=%d" % len(peaks), tol=base.TOL)


def ev_popdiv(d):
    pop = d["pop"]
    if pop and not any(pop):
        # individuals without coordinates cannot be told from an empty population on the protocol line: implementation only
        v = movingpeaks.diversity([list(x) for x in pop])
        return Case(d, [], [], None if v == 0.0 else "CORRESPONDENCE: diversity of individuals without coordinates is %r" % v,
                    tag="mp/diversity/no-coordinates", nontrivial=False)
    line = "C20 popdiv %s" % base.fl2(pop)
    try:
        v = movingpeaks.diversity([list(x) for x in pop])
    except (IndexError, ZeroDivisionError):
        return Case(d, [line], ["error"], None, tag="mp/diversity/error", nontrivial=False)
    n = len(pop)
    m = min(len(x) for x in pop)
    cen = [math.fsum(x[j] for x in pop) / n for j in range(min(m, len(pop[0])))]
    ref = math.sqrt(math.fsum((c - x[j]) ** 2 for x in pop for j, c in enumerate(cen)))
    corr = None
    if len(set(map(len, pop))) == 1 and not base.close(v, ref, 1e-9, 1e-9):
        corr = "CORRESPONDENCE: movingpeaks.diversity = %r, sqrt of the summed squared distances to the centroid is %r" % (v, ref)
    return Case(d, [line], [fbits(v)], corr, tag="mp/diversity", tol=base.TOL)


def gen_mpextra(rng, n):
    hmodes = [(30, 70), (-70, -30), (-5, 5)]
    wmodes = [(0.1, 12), (0.0001, 0.2), (-2, 2)]
    for i in range(n):
        dim = rng.randint(1, 4)
        npk = (0, 1, 2, 3, 5, 8)[i % 6]
        hlo, hhi = hmodes[i % 3]
        wlo, whi = wmodes[(i // 3) % 3]
        fset = ("cf", "c", "f", "csf")[(i // 2) % 4]
        peaks = [[rng.choice(fset), [rng.uniform(0, 100) for _ in range(dim)], rng.uniform(hlo, hhi),
                  0.0 if rng.random() < 0.05 else rng.uniform(wlo, whi)] for _ in range(npk)]
        if npk >= 2 and i % 4 == 0:
            peaks[1] = [peaks[0][0], list(peaks[0][1]), peaks[0][2], peaks[0][3]]        # two identical peaks: ties
        if npk >= 3 and i % 5 == 0:
            peaks[2][1] = [c + rng.uniform(-0.5, 0.5) for c in peaks[0][1]]               # a peak swallowed by its neighbour
        yield {"k": "mpmax", "peaks": peaks, "basis": rng.choice([None, None, 10.0, 60.0, rng.uniform(hlo, hhi)])}
        npop = rng.randint(0, 6) if i % 10 == 0 else rng.randint(1, 12)
        ndim = rng.randint(0, 5) if i % 7 == 0 else rng.randint(1, 8)
        pop = [[rng.uniform(-10, 10) for _ in range(ndim)] for _ in range(npop)]
        if npop and i % 6 == 0:
            pop = [list(pop[0]) for _ in range(npop)]                                     # all equal: diversity 0
        yield {"k": "popdiv", "pop": pop}


# ------------------------------------------------------------------------------------------
# decorator histories
# ------------------------------------------------------------------------------------------
def mkobj(cont, p, two_d):
    if cont == "np":
        return numpy.array(p, dtype=float)
    if cont == "tuple":
        return tuple(tuple(r) for r in p) if two_d else tuple(p)
    return [list(r) for r in p] if two_d else list(p)


def refill(obj, p, two_d, style):
    """give the SAME object new contents"""
    if isinstance(obj, numpy.ndarray):
        obj[...] = numpy.array(p, dtype=float)
    elif two_d:
        if style == "rows":               # the row objects are kept too
            for r_old, r_new in zip(obj, p):
                r_old[:] = list(r_new)
        else:                             # new row objects in the old outer list
            obj[:] = [list(r) for r in p]
    else:
        obj[:] = list(p)


class Holder(object):
    """the caller's argument object for one setter: what is installed, and the object it was passed in"""
    def __init__(self, cont, p, two_d):
        self.cont, self.two_d = cont, two_d
        self.obj = mkobj(cont, p, two_d)
        self.p = p
        self.old = None

    def arg_for(self, how, p, style="outer"):
        """returns the object to pass to the setter (and updates the current parameter)"""
        if how == "reuse":
            return self.obj
        if how == "inplace" and self.cont != "tuple":
            refill(self.obj, p, self.two_d, style)
            self.p = p
            return self.obj
        self.old = self.obj
        self.obj = mkobj(self.cont, p, self.two_d)
        self.p = p
        return self.obj

    def scribble_old(self, rng_vals):
        """overwrite the object that is no longer installed"""
        if self.old is not None and not isinstance(self.old, tuple):
            try:
                refill(self.old, rng_vals, self.two_d, "outer")
            except (ValueError, TypeError):
                pass


def minv_rows(R):
    return numpy.linalg.inv(numpy.array(R, dtype=float)).tolist()


def ev_dechist(d):
    fl, fl2, close = base.fl, base.fl2, base.close
    kind = d["kind"]
    rec = base.Recorder()
    steps = d["steps"]
    calls, orc = [], None
    if kind in ("translate", "scale", "rotate"):
        two_d = kind == "rotate"
        h = Holder(d["cont"], d["p0"], two_d)
        deco = {"translate": btools.translate, "scale": btools.scale, "rotate": btools.rotate}[kind](h.obj)
        fn = deco(rec)
        toks = ["C20", "hist", kind, fl2(minv_rows(d["p0"])) if two_d else fl(d["p0"])]
        holders = {kind: h}
    else:
        ht, hr, hs = Holder(d["cont"], d["t0"], False), Holder(d["rcont"], d["R0"], True), Holder(d["cont"], d["f0"], False)
        fn = btools.translate(ht.obj)(btools.rotate(hr.obj)(btools.scale(hs.obj)(rec)))
        toks = ["C20", "hist", "stack", fl(d["t0"]), fl2(minv_rows(d["R0"])), fl(d["f0"])]
        holders = {"translate": ht, "rotate": hr, "scale": hs}
    ncall = 0
    for st in steps:
        if st["op"] == "set":
            which = st.get("which", kind)
            h = holders[which]
            arg = h.arg_for(st["how"], st.get("p"), st.get("style", "outer"))
            getattr(fn, which)(arg)
            if st.get("scribble") is not None:
                h.scribble_old(st["scribble"])
            cur = h.p
            if kind == "stack":
                toks += [{"translate": "st", "rotate": "sr", "scale": "ss"}[which],
                         fl2(minv_rows(cur)) if which == "rotate" else fl(cur)]
            else:
                toks += ["s", fl2(minv_rows(cur)) if kind == "rotate" else fl(cur)]
            continue
        x = st["x"]
        rec.got = None
        fn(numpy.array(x, dtype=float) if st.get("np") else list(x), *base.EXTRA_ARGS, **base.EXTRA_KARGS)
        got = [float(v) for v in rec.got]
        calls.append(fl(got))
        toks += ["c", fl(x)]
        if orc is None:
            if kind == "translate":
                want = [Fr(a) - Fr(b) for a, b in zip(x, holders[kind].p)]
                bad = len(got) != len(want) or any(Fr(g) != w for g, w in zip(got, want))
                show = [float(w) for w in want]
            elif kind == "scale":
                want = [Fr(a) / Fr(b) for a, b in zip(x, holders[kind].p)]
                bad = len(got) != len(want) or any(Fr(g) != w for g, w in zip(got, want))
                show = [float(w) for w in want]
            else:
                # transform forward what the function received: it must be the individual
                y = numpy.array(got, dtype=float)
                if kind == "stack":
                    y = y * numpy.array(holders["scale"].p, dtype=float)
                R = numpy.array(holders["rotate"].p, dtype=float)
                bad = len(got) != len(x)
                if not bad:
                    back = R.dot(y)
                    if kind == "stack":
                        back = back + numpy.array(holders["translate"].p, dtype=float)
                    nx = max(1.0, max([abs(v) for v in x] + [abs(float(v)) for v in back]))
                    bad = any(abs(a - b) > 1e-9 * nx for a, b in zip(back, x))
                    show = "a list that transforms forward to %r" % ([float(v) for v in back],)
                else:
                    show = "%d values" % len(got)
            if bad:
                orc = ("%s history: call #%d (after %s) handed %r to the function; the inverse transform of %r under the "
                       "parameter installed last %r is %s" % (
                           kind, ncall, ", ".join("%s:%s" % (s_.get("which", kind), s_["how"]) for s_ in steps if s_["op"] == "set") or "no setter call",
                           got, x, {k_: v.p for k_, v in holders.items()}, show))
            else:
                orc = base.passthrough_error(rec)
        ncall += 1
    expect = ";".join(calls) or "-"
    hows = sorted(set(s_["how"] for s_ in steps if s_["op"] == "set"))
    return Case(d, [" ".join(toks)], [expect], orc, tag="dec/hist/%s/%s/%s" % (kind, d["cont"], "+".join(hows) or "none"), tol=base.TOL)


PW = [1.0, 2.0, 0.5, 0.25, 4.0, -2.0, 8.0, 0.125]


def exact_matrix(rng, m):
    """an invertible matrix whose inverse is exact in doubles: signed / scaled permutation, or exact-angle blocks"""
    style = rng.choice(["perm", "perm", "angle", "int"])
    if style == "perm":
        p_ = list(range(m)); rng.shuffle(p_)
        R = [[0.0] * m for _ in range(m)]
        for i_ in range(m):
            R[i_][p_[i_]] = rng.choice([1.0, -1.0, 2.0, 0.5])
        return R
    R = numpy.identity(m)
    if style == "angle":
        for i_ in range(0, m - 1, 2):
            c, s_ = rng.choice([(0.6, 0.8), (0.8, -0.6), (0.0, 1.0), (-1.0, 0.0)])
            R[i_:i_ + 2, i_:i_ + 2] = [[c, -s_], [s_, c]]
    else:
        for _k in range(m):
            i_, j_ = rng.randrange(m), rng.randrange(m)
            if i_ != j_:
                R[i_] += rng.choice([1, -1, 2]) * R[j_]
    return R.tolist()


def qr_matrix(rng, m):
    Q, _r = numpy.linalg.qr(numpy.array([[rng.gauss(0, 1) for _ in range(m)] for _ in range(m)]))
    return Q.tolist()


def gen_dechist(rng, n):
    """kind, container and the pattern of the setter calls cycle with the index"""
    kinds = ["rotate", "translate", "scale", "stack"]
    patterns = [["inplace"], ["fresh", "inplace"], ["reuse", "inplace"], ["fresh"], ["inplace", "inplace"],
                ["fresh", "reuse", "inplace"], ["reuse"], ["inplace", "fresh", "inplace"]]
    for i in range(n):
        kind = kinds[i % 4]
        pat = patterns[(i // 4) % len(patterns)]
        m = (2, 3, 2, 5, 7, 1, 4)[(i // 3) % 7]
        dy = base.dyadic
        mkx = lambda: [dy(rng) for _ in range(m)]
        mkt = lambda: [dy(rng) for _ in range(m)]
        mkf = lambda: [rng.choice(PW) for _ in range(m)]
        qr = (i // 8) % 3 == 2
        mkR = (lambda: qr_matrix(rng, m)) if qr else (lambda: exact_matrix(rng, m))
        mkp = {"translate": mkt, "scale": mkf, "rotate": mkR}
        steps = [{"op": "call", "x": mkx()}]
        for how in pat:
            if kind == "stack":
                which = rng.choice(["translate", "rotate", "scale", "rotate"])
            else:
                which = kind
            st = {"op": "set", "how": how, "which": which, "style": ("rows", "outer")[len(steps) % 2]}
            if how != "reuse":
                st["p"] = mkp[which]()
            if how == "fresh" and rng.random() < 0.5:
                st["scribble"] = mkp[which]()
            steps.append(st)
            for _ in range(rng.randint(1, 2)):
                steps.append({"op": "call", "x": mkx(), "np": rng.random() < 0.3})
        d = {"k": "dechist", "kind": kind, "steps": steps}
        if kind == "rotate":
            d.update(cont=("np", "list", "np", "list", "tuple")[(i // 4) % 5], p0=mkR())
        elif kind == "stack":
            d.update(cont=("list", "np")[(i // 4) % 2], rcont=("np", "list")[(i // 8) % 2], t0=mkt(), R0=mkR(), f0=mkf())
        else:
            d.update(cont=("list", "np", "tuple")[(i // 4) % 3], p0=mkp[kind]())
        yield d


# ------------------------------------------------------------------------------------------
# quality indicators of benchmarks/tools.py
# ------------------------------------------------------------------------------------------
class _Fit(object):
    def __init__(self, values, weights=None):
        self.values = tuple(values)
        if weights is not None:
            self.wvalues = tuple(v * w for v, w in zip(values, weights))


class _Ind(list):
    def __init__(self, values, weights=None):
        list.__init__(self, values)
        self.fitness = _Fit(values, weights)


def np_cdist(A, Z):
    """stand-in for scipy.spatial.distance.cdist (scipy is not installed here): Euclidean distances of the rows"""
    A, Z = numpy.asarray(A, dtype=float), numpy.asarray(Z, dtype=float)
    if A.ndim != 2 or Z.ndim != 2 or A.shape[1] != Z.shape[1]:
        raise ValueError("XA and XB must have the same number of columns")
    return numpy.sqrt(((A[:, None, :] - Z[None, :, :]) ** 2).sum(axis=2))


class cdist_installed(object):
    """`igd` needs scipy.  Where scipy is absent the harness lends the module its own `cdist` (a parameter of the
    model with the contract cdist(A, Z)[i][j] = |A_i - Z_j|, like numpy.linalg.inv for `rotate`); with scipy present
    the real one is used."""
    def __enter__(self):
        self.saved = (getattr(btools, "scipy", None), btools.scipy_imported)
        if not btools.scipy_imported:
            btools.scipy = types.SimpleNamespace(spatial=types.SimpleNamespace(distance=types.SimpleNamespace(cdist=np_cdist)))
            btools.scipy_imported = True
        return self

    def __exit__(self, *a):
        if self.saved[1] is False:
            btools.scipy_imported = False
            if self.saved[0] is None:
                del btools.scipy
            else:
                btools.scipy = self.saved[0]


def ev_ind(d):
    fl, fl2, close = base.fl, base.fl2, base.close
    what = d["what"]
    corr = None
    if what == "diversity":
        front, first, last = d["front"], d["first"], d["last"]
        line = "C20 ind diversity %s %s %s" % (fl2([p[:2] for p in front]), fl(first[:2]), fl(last[:2]))
        try:
            v = btools.diversity([_Ind(p) for p in front], first, last)
        except (IndexError, ZeroDivisionError):
            return Case(d, [line], ["error"], None, tag="ind/diversity/error", nontrivial=False)
        pts = [p[:2] for p in front]
        df, dl = math.dist(pts[0], first[:2]), math.dist(pts[-1], last[:2])
        dt = [math.dist(a, b) for a, b in zip(pts[:-1], pts[1:])]
        if len(pts) == 1:
            ref = df + dl
        else:
            dm = math.fsum(dt) / len(dt)
            ref = (df + dl + math.fsum(abs(x - dm) for x in dt)) / (df + dl + len(dt) * dm)
        if not close(v, ref, 1e-9, 1e-9):
            corr = "CORRESPONDENCE: diversity = %r, the spread metric of the NSGA-II article gives %r" % (v, ref)
        elif v < 0:
            corr = "CORRESPONDENCE: negative diversity %r" % v
        return Case(d, [line], [fbits(v)], corr, tag="ind/diversity/n=%d" % min(len(front), 3), tol=base.TOL)
    if what == "convergence":
        front, opt = d["front"], d["opt"]
        line = "C20 ind convergence %s %s" % (fl2(front), fl2(opt))
        try:
            v = btools.convergence([_Ind(p) for p in front], [list(o) for o in opt])
        except (IndexError, ZeroDivisionError):
            return Case(d, [line], ["error"], None, tag="ind/convergence/error", nontrivial=False)
        if not opt:
            return Case(d, [line], ["error"], None if v == float("inf") else "CORRESPONDENCE: convergence to an empty optimal front is %r" % v,
                        tag="ind/convergence/empty-opt", nontrivial=False)
        ref = math.fsum(min(math.dist(p[:len(o)], o) for o in opt) for p in front) / len(front)
        if not close(v, ref, 1e-9, 1e-9):
            corr = "CORRESPONDENCE: convergence = %r, the mean distance to the nearest optimal point is %r" % (v, ref)
        elif d.get("subset") and v != 0.0:
            corr = "CORRESPONDENCE: every point of the front is on the optimal front, convergence = %r" % v
        return Case(d, [line], [fbits(v)], corr, tag="ind/convergence" + ("/subset" if d.get("subset") else ""), tol=base.TOL)
    if what == "igd":
        A_, Z = d["A"], d["Z"]
        line = "C20 ind igd %s %s" % (fl2(A_), fl2(Z))
        with cdist_installed():
            try:
                v = float(btools.igd([list(a) for a in A_], [list(z) for z in Z]))
            except (ValueError, IndexError):
                return Case(d, [line], ["error"], None, tag="ind/igd/error", nontrivial=False)
        ref = math.fsum(min(math.dist(a, z) for a in A_) for z in Z) / len(Z)
        if not close(v, ref, 1e-9, 1e-9):
            corr = "CORRESPONDENCE: igd = %r, the mean over Z of the distance to the nearest point of A is %r" % (v, ref)
        elif (v == 0.0) != all(any(list(a) == list(z) for a in A_) for z in Z):
            corr = "CORRESPONDENCE: igd = %r although %s reference point is in A" % (v, "every" if v != 0.0 else "not every")
        return Case(d, [line], [fbits(v)], corr, tag="ind/igd" + ("/subset" if d.get("subset") else ""), tol=base.TOL)
    if what == "igd-noscipy":
        # the documented behaviour without scipy: ImportError (only observable where scipy is absent)
        if btools.scipy_imported:
            return Case(d, [], [], None, tag="ind/igd/scipy-present", nontrivial=False)
        try:
            btools.igd([[0.0]], [[0.0]])
        except ImportError:
            return Case(d, [], [], None, tag="ind/igd/no-scipy", nontrivial=False)
        return Case(d, [], [], "CORRESPONDENCE: igd without scipy did not raise ImportError", tag="ind/igd/no-scipy")
    raise ValueError(what)


def ev_hvpop(d):
    w, vals, ref = d["w"], d["vals"], d["ref"]
    sfr = base.sfr
    line = "C20 hvpop %s %s %s" % (",".join(sfr(x) for x in w), ";".join(",".join(sfr(x) for x in v) for v in vals) or "-",
                                  "none" if ref is None else ",".join(sfr(x) for x in ref))
    pop = [_Ind([float(x) for x in v], [float(x) for x in w]) for v in vals]
    import warnings
    try:
        with warnings.catch_warnings():
            warnings.simplefilter("ignore")         # "falling back to the python version of hypervolume"
            got = btools.hypervolume(pop) if ref is None else btools.hypervolume(pop, numpy.array([float(x) for x in ref]))
    except (ValueError, IndexError):
        return Case(d, [line], ["error"], None, tag="ind/hypervolume/error", nontrivial=False)
    return Case(d, [line], [sfr(Fr(float(got)))], None, tag="ind/hypervolume/d=%d" % len(w))


def gen_ind(rng, n):
    for i in range(n):
        # diversity: a front sorted along the first objective, as NSGA-II's first front is
        k = (1, 2, 3, 5, 8, 0)[i % 6]
        xs = sorted(rng.uniform(0, 1) for _ in range(k))
        front = [[x, 1 - math.sqrt(x)] + ([rng.random()] if i % 4 == 0 else []) for x in xs]
        if i % 5 == 0 and k >= 2:       # equally spaced points
            front = [[j / (k - 1.0), 1 - j / (k - 1.0)] for j in range(k)]
        first, last = [0.0, 1.0], [1.0, 0.0]
        if i % 7 == 0 and k:
            first, last = list(front[0][:2]), list(front[-1][:2])
        if i % 11 == 0 and k:           # every distance zero: 0/0
            front = [list(front[0][:2]) for _ in range(k)]
            first = last = list(front[0])
        yield {"k": "ind", "what": "diversity", "front": front, "first": first, "last": last}
        # convergence / igd
        m = rng.randint(1, 4)
        nf, no = rng.randint(0 if i % 9 == 0 else 1, 6), rng.randint(0 if i % 13 == 0 else 1, 8)
        opt = [[rng.uniform(0, 1) for _ in range(m)] for _ in range(no)]
        fr = [[rng.uniform(0, 1) for _ in range(m + (1 if i % 6 == 0 else 0))] for _ in range(nf)]
        subset = i % 3 == 0 and opt and nf
        if subset:
            fr = [list(rng.choice(opt)) for _ in range(nf)]
        if i % 17 == 0 and fr:
            fr[0] = fr[0][:max(0, m - 1)]          # too few fitness values: IndexError
            subset = False
        yield {"k": "ind", "what": "convergence", "front": fr, "opt": opt, "subset": bool(subset)}
        na, nz = rng.randint(1, 6), rng.randint(1, 6)
        A_ = [[rng.uniform(0, 1) for _ in range(m)] for _ in range(na)]
        Z = [[rng.uniform(0, 1) for _ in range(m)] for _ in range(nz)]
        sub = i % 3 == 1
        if sub:
            Z = [list(rng.choice(A_)) for _ in range(nz)]
        elif i % 3 == 2:
            Z[0] = list(A_[0])
        if i % 19 == 0:
            Z = [z + [0.5] for z in Z]              # column mismatch: ValueError
            sub = False
        yield {"k": "ind", "what": "igd", "A": A_, "Z": Z, "subset": sub}
        # hypervolume wrapper on small integers (exact)
        dimh = (2, 3, 2, 4)[i % 4]
        w = [rng.choice([-1, -1, 1, -2]) for _ in range(dimh)]
        vals = [[rng.randint(0, 6) for _ in range(dimh)] for _ in range(rng.randint(1, 5))]
        ref = None
        if i % 2:
            ref = [max(-v[j] * w[j] for v in vals) + rng.randint(0, 2) for j in range(dimh)]
        yield {"k": "hvpop", "w": w, "vals": vals, "ref": ref}
    yield {"k": "ind", "what": "igd-noscipy"}


EV_MORE = {"mpworld": ev_mpworld, "mpmax": ev_mpmax, "popdiv": ev_popdiv, "dechist": ev_dechist, "ind": ev_ind,
           "hvpop": ev_hvpop}
