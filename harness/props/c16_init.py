"""C16, stream `init` — individuals built by `tools.initRepeat` / `tools.initCycle` / `tools.initIterate` from a creator class
(deap/tools/init.py; model lean/DeapModel/Core/Init.lean, protocol op `C16 init`).

The functions handed to the initialisers are COUNTING, side-effecting callables: closures over their own list of values that
return the next value on every call and count their calls.  Several individuals are built one after the other with the same
functions.  Correspondence: the model replays the generator expressions as call sequences on the same value lists and must
arrive at the same containers (content in call order; a set holds each element once, a dict keeps the first position and the last
value of a key), the same freshly instantiated attributes (graph dump with object identities) and the same number of calls per
function.  Oracle (the statement): every individual gets its own freshly constructed instance attributes, of the declared class,
never shared with another individual."""
import warnings

import numpy

from lib import Case
from deap import base, tools

from props import c16 as B

INIT_BASES = ["list", "array:b", "array:i", "array:d", "ndarray:int", "ndarray:float", "set", "dict"]
INIT_CONFIGS = [
    {},
    {"inst": {"fitness": "fit"}},
    {"inst": {"fitness": "fit", "log": "list"}},
    {"inst": {"fitness": "fit", "memo": "dict", "seen": "set"}},
    {"inst": {"fitness": "fit", "strategy": "strategy"}},
    {"inst": {"fitness": "fit", "sub": "nested"}},
    {"inst": {"fitness": "fit"}, "cattrs": {"shared": ["L", 1, 2], "level": 5}},
    {"inst": {"fitness": "fit", "other": "fit2"}},
]


class Fn(object):
    """a zero-argument callable with a side effect: hands out its values one by one and counts its calls"""

    def __init__(self, vals, width=1):
        self.vals, self.calls, self.width, self.pos = list(vals), 0, width, 0

    def __call__(self):
        self.calls += 1
        v = self.vals[self.pos:self.pos + self.width]
        if len(v) < self.width:
            raise IndexError("value list exhausted")
        self.pos += self.width
        return v[0] if self.width == 1 else tuple(v)


def pool(b, rng):
    if b == "list":
        return rng.choice([0, 1, 2, -7, 1.5, "g", True, None])
    if b in ("array:d", "ndarray:float"):
        return rng.choice([0.0, 1.0, -2.5, 0.125, 3.0, 7.75])
    if b == "array:b":
        return rng.randint(-100, 100)
    if b == "set":
        return rng.choice([0, 1, 2, 3, 5, 8, -1, "a", "b"])
    return rng.randint(-1000, 1000)


def evaluate(d):
    uid = B.next_uid()
    try:
        with warnings.catch_warnings():
            warnings.simplefilter("ignore")
            return _run(d, uid)
    finally:
        B.drop_classes(uid)


def _run(d, uid):
    cl = B.build_classes(d, uid)
    Ind = cl["Ind"]
    b, mode, n, count = d["base"], d["mode"], d["n"], d["count"]
    w = 2 if b == "dict" else 1
    fns = [Fn([tuple(v) if isinstance(v, list) else v for v in vals], 1) for vals in d["vals"]]
    if b == "dict":
        fns = [Fn([x for kv in vals for x in kv], 2) for vals in d["vals"]]
    xs = []
    for _ in range(count):
        if mode == "repeat":
            xs.append(tools.initRepeat(Ind, fns[0], n))
        elif mode == "cycle":
            xs.append(tools.initCycle(Ind, fns, n))
        else:
            f0 = fns[0]
            kind = d.get("iterkind", "list")

            def gen():
                f0.calls += 1
                items = [f0.vals[f0.pos + i * w:f0.pos + (i + 1) * w] for i in range(n)]
                if any(len(it) < w for it in items):
                    raise IndexError("value list exhausted")
                f0.pos += n * w
                items = [it[0] if w == 1 else tuple(it) for it in items]
                return items if kind == "list" else tuple(items) if kind == "tuple" else iter(items)
            f0.calls -= 0
            xs.append(tools.initIterate(Ind, gen))
    # ---- oracle: freshly constructed per-instance attributes, never shared
    orc = None
    dct = Ind.reduce_args[2]
    for i, x in enumerate(xs):
        for name, v in sorted(dct.items()):
            if isinstance(v, type) and orc is None:
                if name not in vars(x):
                    orc = "%s: per-instance attribute %r missing on individual %d" % (mode, name, i)
                elif type(vars(x)[name]) is not v:
                    orc = "%s: attribute %r of individual %d is a %r, not a %r" % (mode, name, i, type(vars(x)[name]), v)
                elif B.full_canon(vars(x)[name]) != B.full_canon(v()):
                    orc = "%s: attribute %r of individual %d is not a freshly constructed %r" % (mode, name, i, v)
    for i in range(len(xs)):
        for j in range(i + 1, len(xs)):
            if orc is None and hasattr(xs[i], "__dict__"):
                sh = B.shared_mutables(vars(xs[i]), vars(xs[j]))
                if sh:
                    orc = "%s: individuals %d and %d share mutable attribute state: %s" % (mode, i, j, sh)
    # ---- protocol line and the implementation's answer
    m = B.Modeler()
    c0 = m.cls_id(Ind)

    def tok(v):
        return "a%d" % m.atom(B.atom_key(v))[1]
    tapes = []
    for vals in d["vals"]:
        if b == "dict":
            tapes.append(",".join(tok(x) for kv in vals for x in kv) or "-")
        else:
            tapes.append(",".join(tok(tuple(v) if isinstance(v, list) else v) for v in vals) or "-")
    hdr = "-"
    if b.startswith("ndarray"):
        hdr = "a%d" % m.atom(B.nd_header(xs[0]))[1] if xs else "-"
    shape = "set" if b == "set" else "dict" if b == "dict" else "seq"
    line = "C16 init %s %d %s %s %s %d %s %d" % (m.ct_text(), c0, shape, hdr, mode, n, ";".join(tapes) or "-", count)
    ans = "%s calls=%s left=%s" % (m.graph_dump(xs), ",".join("%d" % f.calls for f in fns) or "-",
                                   ",".join("%d" % (len(f.vals) - f.pos) for f in fns) or "-")
    return Case(d, [line], [ans], orc, tag="init/%s/%s/%s" % (b, mode, "+".join(sorted(d.get("inst", {}))) or "bare"),
                nontrivial=count > 0 and n > 0)


def mk_case(rng, b=None, mode=None, cfg=None):
    b = b or rng.choice(INIT_BASES)
    mode = mode or rng.choice(["repeat", "cycle", "iterate"])
    cfg = dict(cfg if cfg is not None else rng.choice(INIT_CONFIGS))
    n = rng.choice([0, 1, 2, 3, 5])
    count = rng.choice([1, 2, 2, 3])
    nf = 1 if mode != "cycle" else rng.choice([1, 2, 3])
    if b.startswith("ndarray") and n == 0:
        n = 2              # an empty ndarray individual has another dtype header; content streams of C16 cover it
    need = n * count + rng.choice([0, 0, 2])       # some functions have values left over
    vals = []
    for _ in range(nf):
        if b == "dict":
            vals.append([[rng.choice([rng.randint(0, 4), "k%d" % rng.randint(0, 3)]), pool("list", rng)] for _ in range(need)])
        else:
            vals.append([pool(b, rng) for _ in range(need)])
    if b == "set":
        # hashable values whose equality is identity of the atom (1 == True == 1.0 would collapse different atoms)
        vals = [[v for v in vs] for vs in vals]
    if b == "dict":
        for vs in vals:
            for kv in vs:
                if kv[1] is True:
                    kv[1] = 2
    d = {"k": "init", "base": b, "mode": mode, "n": n, "count": count, "vals": vals,
         "weights": [rng.choice([1.0, -1.0]) for _ in range(rng.randint(1, 3))], "cfit": rng.random() < 0.2,
         "iterkind": rng.choice(["list", "tuple", "iter"])}
    d.update(cfg)
    if b == "list":
        for vs in d["vals"]:
            for i, v in enumerate(vs):
                if v is True:
                    vs[i] = 3
    return d


def generate(tier, rng, mult):
    thorough = tier == "thorough"
    for b in INIT_BASES:
        for mode in ("repeat", "cycle", "iterate"):
            for cfg in INIT_CONFIGS:
                for _ in range(3 if thorough else 1):
                    yield mk_case(rng, b, mode, cfg)
    for _ in range((2000 if thorough else 60) * mult):
        yield mk_case(rng)


def shrink(d):
    if d["count"] > 1:
        e = dict(d)
        e["count"] = d["count"] - 1
        yield e
    if d["n"] > 1:
        e = dict(d)
        e["n"] = d["n"] - 1
        yield e
    if d.get("inst"):
        for k in sorted(d["inst"]):
            e = dict(d)
            e["inst"] = {a: v for a, v in d["inst"].items() if a != k}
            yield e
