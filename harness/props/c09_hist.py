"""C09, HISTORY stream: several operator calls in ONE process, on objects the caller keeps, reuses and edits in place.

A case is a list of objects (permutation individuals `P`, integer-coded individuals and `low`/`up` bound lists `G`, strategy
attributes `S`) and 2-6 steps.  A step is a call of an operator of the statement on some of the objects, or the caller
overwriting one of its objects in place (`x[:] = v` / `x[i] = v`).  Some calls are made on inputs the operator rejects
(tour numbered 1..n, a label >= size, bounds shorter than the individual, low > up, too-short individuals, numpy slices of
different lengths): the exception is caught, the process goes on with valid calls of the same and of other operators on the
same sizes and the same objects.

* oracle: EVERY call whose arguments meet the hypotheses of the statement AT CALL TIME (current contents of the
  individuals, current contents of the bound lists) is judged by the statement against those contents; an exception
  there is a failure.
* correspondence: the whole history is one protocol line `C09 hist …` run on the machine `OpHistory`
  (Core/CrossMutBuf.lean; its state is the heaps of the objects and nothing else; theorem
  C09.op_result_history_independent): outcome (`ok:<returned ids>` / `raise:<Exception>`) and contents of the named
  objects after every event - including the partial state an aborted call leaves - and of every object at the end.
"""
import array
import random as _random
from collections import Counter

from lib import fbits

# filled in by c09.py (avoids a circular import)
H = None

PERM_OPS = ("pmx", "upmx", "ox")
GEN2 = ("onepoint", "twopoint", "twopoints", "messy", "uniform")
GEN1 = ("shuffle", "flip", "inversion")
ES = ("es", "ess")
NEUTRAL = 2.0          # a random() answer that never selects (indpb <= 1): fills draws an aborted call never made


def slot_ids(objs):
    """id of every object inside its own heap (creation order)"""
    cnt, out = Counter(), []
    for o in objs:
        out.append(cnt[o[0]])
        cnt[o[0]] += 1
    return out


def build(o, back):
    slot, vals = o[0], list(o[1])
    kind = o[2] if len(o) > 2 else "ind"
    if kind == "bound":
        return list(vals)                      # low / up: plain lists the caller owns
    if slot == "S":
        return list(vals) if back != "array_q" else array.array("q", vals)
    return H.mk(back, vals)


def overwrite(obj, vals, how):
    if how == "items" and len(obj) == len(vals):
        for i, v in enumerate(vals):
            obj[i] = v
    elif isinstance(obj, array.array):
        obj[:] = array.array(obj.typecode, vals)
    else:
        obj[:] = vals


def cur(obj):
    return [H.val(x) for x in obj]


def is_valid(op, pre, back, st):
    """do the arguments meet the hypotheses of the statement NOW?  (None = outside the oracle's domain: compare only)"""
    if op in PERM_OPS:
        a, b = pre
        return len(a) == len(b) and len(a) >= 2 and H.is_perm(a) and H.is_perm(b)
    if op in ("onepoint", "twopoint", "twopoints") or op in ES:
        if back == "numpy":
            return None
        if min(len(pre[0]), len(pre[1])) < 2:
            return False
        if op in ES:
            return len(pre[2]) == len(pre[0]) and len(pre[3]) == len(pre[1])
        return True
    if op == "messy":
        return None if back == "numpy" else True
    if op == "uniform":
        return True
    if op == "shuffle":
        return len(pre[0]) >= 2
    if op == "flip":
        return all(x in (0, 1) for x in pre[0])
    if op == "inversion":
        return None if back == "numpy" else True
    if op == "uniformint":
        n = len(pre[0])
        lo, hi = st["lo_now"], st["hi_now"]
        for b in (lo, hi):
            if isinstance(b, list) and len(b) < n:
                return False
        for i in range(n):
            l_ = lo[i] if isinstance(lo, list) else lo
            h_ = hi[i] if isinstance(hi, list) else hi
            if l_ > h_:
                return False
        return True
    raise ValueError(op)


def judge(op, pre, post, st):
    """the statement, evaluated on one completed call against the contents its arguments had when it was made"""
    if op in PERM_OPS:
        for c in post:
            if not H.is_perm(c):
                return "%s turned the permutations %r %r into %r %r" % (op, pre[0], pre[1], post[0], post[1])
        return None
    if op in GEN2:
        p1, p2, c1, c2 = pre[0], pre[1], post[0], post[1]
        if Counter(c1 + c2) != Counter(p1 + p2):
            return "combined multiset of genes changed: %r %r -> %r %r" % (p1, p2, c1, c2)
        if op != "messy":
            m = H.locus_ok(c1, c2, p1, p2)
            if m:
                return m
        if op == "onepoint" and (len(c1) != len(p2) or len(c2) != len(p1)):
            return "one-point: lengths not exchanged"
        if op in ("twopoint", "twopoints", "uniform") and (len(c1) != len(p1) or len(c2) != len(p2)):
            return "lengths not kept"
        return None
    if op in ES:
        before = [list(zip(pre[0], pre[2])), list(zip(pre[1], pre[3]))]
        after = [list(zip(post[0], post[2])), list(zip(post[1], post[3]))]
        if len(post[0]) != len(post[2]) or len(post[1]) != len(post[3]):
            return "strategy length differs from individual length after crossover"
        if Counter(after[0] + after[1]) != Counter(before[0] + before[1]):
            return "gene/strategy pairs not conserved: %r -> %r" % (before, after)
        m = H.locus_ok(after[0], after[1], before[0], before[1])
        if m:
            return "gene and strategy value did not move together: " + m
        if len(post[0]) != len(pre[0]) or len(post[1]) != len(pre[1]):
            return "lengths not kept"
        return None
    p, c = pre[0], post[0]
    if op in ("shuffle", "inversion"):
        if Counter(c) != Counter(p):
            return "%s: %r is not a permutation of the elements of %r" % (op, c, p)
        return None
    if op == "flip":
        if len(c) != len(p):
            return "length changed"
        for i, (x, y) in enumerate(zip(p, c)):
            if y != x and y != type(x)(not x):
                return "gene %d changed from %r to %r, which is not its complement" % (i, x, y)
        return None
    if op == "uniformint":
        if len(c) != len(p):
            return "length changed"
        lo, hi = st["lo_now"], st["hi_now"]
        for i, (x, y) in enumerate(zip(p, c)):
            l_ = lo[i] if isinstance(lo, list) else lo
            h_ = hi[i] if isinstance(hi, list) else hi
            if not H._is_int(st["ind"][i]):
                return "gene %d became the non-integer %r" % (i, st["ind"][i])
            if y != x and not (l_ <= y <= h_):
                return ("gene %d changed from %r to %r outside [%r,%r], the bounds given to THIS call (low=%r up=%r)"
                        % (i, x, y, l_, h_, lo, hi))
        return None
    raise ValueError(op)


def watch(objs, sids, live, ks):
    return "".join(" %s%d=%s" % (objs[k][0], sids[k], H.tlist(live[k])) for k in ks)


def evaluate(d):
    c = _evaluate(d)
    if c.oracle is not None:
        # Is the history a failing input ON ITS OWN?  Run it once more: a failure that does not come back was caused by
        # something an EARLIER history left behind in the library (state that survives a call and is no argument).  It is a
        # failure of the statement all the same (the call judged met the hypotheses), but this replay alone may pass.
        again = _evaluate(d)
        if again.oracle is None:
            c.oracle += ("  [not reproduced when the same history is run again in this process: the result of this call "
                         "depended on state left in the library by calls of an earlier history - not on its arguments]")
    return c


def _evaluate(d):
    objs, back = d["objs"], d.get("back", "list")
    disc = "v" if back == "numpy" else "c"
    sids = slot_ids(objs)
    live = [build(o, back) for o in objs]
    toks = ["n%s/%s" % (o[0], H.ilist(o[1])) for o in objs]
    segs = ["ok:%d" % sids[k] for k in range(len(objs))]
    orc, tags, changed, tapes = None, [], False, []

    def fail(k, step, msg):
        nonlocal orc
        if orc is None:
            orc = "step %d of the history (%s on objects %s, after %s): %s" % (
                k, step.get("op"), step.get("args"), [s.get("op", s["do"]) for s in d["steps"][:k]] or "nothing", msg)

    for k, s in enumerate(d["steps"]):
        if s["do"] == "store":
            o = s["obj"]
            overwrite(live[o], s["val"], s.get("how", "slice"))
            toks.append("s%s/%d/%s" % (objs[o][0], sids[o], H.ilist(s["val"])))
            segs.append("ok:-")
            continue
        op, args = s["op"], s["args"]
        fn = (getattr(H.tools, {"es": "cxESTwoPoint", "ess": "cxESTwoPoints"}[op]) if op in ES
              else H.tools.mutUniformInt if op == "uniformint" else H.CROSS.get(op) or H.MUT[op])
        st = {}
        ks = list(args)
        if op in ES:
            i1, i2 = live[args[0]], live[args[1]]
            i1.strategy, i2.strategy = live[args[2]], live[args[3]]
            call = lambda: fn(i1, i2)                                                    # noqa: E731
        elif op in ("uniform", "upmx"):
            call = ((lambda: fn(live[args[0]], live[args[1]], indpb=s["indpb"])) if s.get("kw")
                    else (lambda: fn(live[args[0]], live[args[1]], s["indpb"])))
        elif op in PERM_OPS or op in GEN2:
            call = lambda: fn(live[args[0]], live[args[1]])                              # noqa: E731
        elif op in ("shuffle", "flip"):
            call = ((lambda: fn(live[args[0]], indpb=s["indpb"])) if s.get("kw") else (lambda: fn(live[args[0]], s["indpb"])))
        elif op == "inversion":
            call = lambda: fn(live[args[0]])                                             # noqa: E731
        else:
            lo = live[s["low"][1]] if s["low"][0] == "o" else s["low"][1]
            hi = live[s["up"][1]] if s["up"][0] == "o" else s["up"][1]
            st["lo_now"] = list(lo) if isinstance(lo, list) else lo
            st["hi_now"] = list(hi) if isinstance(hi, list) else hi
            st["ind"] = live[args[0]]
            ks += [b[1] for b in (s["low"], s["up"]) if b[0] == "o"]
            call = ((lambda: fn(live[args[0]], low=lo, up=hi, indpb=s["indpb"])) if s.get("kw")
                    else (lambda: fn(live[args[0]], lo, hi, s["indpb"])))
        pre = [cur(live[a]) for a in args]
        valid = is_valid(op, pre, back, st)
        tape = H.VTape(forced=s["tape"]) if "tape" in s else H.VTape(rng=_random.Random(s["tapeseed"]))
        tapes.append(tape)
        raised = ret = None
        with tape:
            try:
                ret = call()
            except (H.TapeExhausted, H.TapeMismatch):
                raise
            except Exception as e:  # noqa
                raised = e
        post = [cur(live[a]) for a in args]
        changed = changed or post != pre
        rs, ints = H.split_draws(tape.draws)
        # ---- the statement, on this call alone
        if valid:
            if raised is not None:
                fail(k, s, "raised %s: %s on arguments that meet the hypotheses now (%r)" % (type(raised).__name__, raised, pre))
            else:
                want = 1 if op in GEN1 or op == "uniformint" else 2
                if not (isinstance(ret, tuple) and len(ret) == want and all(ret[j] is live[args[j]] for j in range(want))):
                    fail(k, s, "returned objects are not the arguments (in place)")
                elif op in ES and (ret[0].strategy is not live[args[2]] or ret[1].strategy is not live[args[3]]):
                    fail(k, s, "strategy objects were replaced, not modified in place")
                else:
                    m = judge(op, pre, post, st)
                    if m:
                        fail(k, s, m)
        # ---- the event for the model
        slot = objs[args[0]][0]
        a_ = [sids[a] for a in args]
        n = len(pre[0])
        tok = None
        if op in ("onepoint", "twopoint", "twopoints", "messy") or op in ES or op in ("pmx", "ox", "inversion"):
            need = 1 if op == "onepoint" else 2
            if op == "inversion" and n == 0 and raised is None:
                ints = [0, 0]
            if raised is not None and len(ints) < need:
                if op == "pmx":
                    ints = [0, 0]                  # raised while filling the position tables, before the cut points are drawn
                else:
                    tok = "rf/%s/%s/%s" % (type(raised).__name__, slot, H.ilist(a_[:2]))
                    if op in ES:
                        ks = ks[:2]
            if tok is None:
                if len(ints) != need:
                    raise H.TapeMismatch("%s made %d integer draws" % (op, len(ints)))
                if op in ES:
                    tok = "%s/%s/%s/%s" % (op, disc, disc, "/".join(str(x) for x in a_ + ints))
                elif op in ("pmx", "ox"):
                    tok = "%s/%s/%s" % (op, disc, "/".join(str(x) for x in a_ + ints))
                else:
                    tok = "%s/%s/%s/%s" % (slot, disc, op, "/".join(str(x) for x in a_ + ints))
        elif op == "uniform":
            tok = "%s/%s/uniform/%d/%d/%s/%s" % (slot, disc, a_[0], a_[1], fbits(s["indpb"]), H.flist(rs))
        elif op == "upmx":
            tok = "upmx/%s/%d/%d/%s/%s" % (disc, a_[0], a_[1], fbits(s["indpb"]), H.flist(rs))
        elif op == "flip":
            tok = "%s/%s/flip/%d/%s/%s" % (slot, disc, a_[0], fbits(s["indpb"]), H.flist(rs))
        elif op in ("shuffle", "uniformint"):
            if raised is not None and isinstance(raised, ValueError) and rs:
                # the integer draw itself raised (empty range): the model meets the same statement with any answer
                ints = ints + [0]
                rs = rs + [NEUTRAL] * (n - len(rs))
            if op == "shuffle":
                tok = "%s/%s/shuffle/%d/%s/%s/%s" % (slot, disc, a_[0], fbits(s["indpb"]), H.flist(rs), H.ilist(ints))
            else:
                bt = ["o:%d" % sids[b[1]] if b[0] == "o" else "s:%d" % b[1] for b in (s["low"], s["up"])]
                tok = "ui/%s/%d/%s/%s/%s/%s/%s" % (disc, a_[0], bt[0], bt[1], fbits(s["indpb"]), H.flist(rs), H.ilist(ints))
        toks.append(tok)
        if raised is not None:
            seg = "raise:" + type(raised).__name__
        elif isinstance(ret, tuple):
            seg = "ok:" + (",".join(next((str(sids[j]) for j in range(len(live)) if live[j] is r), "fresh") for r in ret) or "-")
        else:
            seg = "ok:?"
        segs.append(seg + watch(objs, sids, live, ks))
        tags.append("%s%s" % (op, "!" if raised is not None else ("" if valid else "~")))
    order = sorted(range(len(objs)), key=lambda k: ("PGS".index(objs[k][0]), sids[k]))
    segs.append("end" + watch(objs, sids, live, order))
    bad = [t for t in tapes if t.unreplayable]
    H._last_tape[0] = bad[0] if bad else (tapes[-1] if tapes else None)
    line = "C09 hist " + " ".join(toks)
    nraise = sum(1 for t in tags if t.endswith("!"))
    tag = "hist/%s/%s/%s" % (d.get("fam", "-"), back, "abort" if nraise else "clean")
    return H.Case(d, [line], [" | ".join(segs)], orc, tag=tag, nontrivial=changed)


# ------------------------------------------------------------------------------------------------
# generation
# ------------------------------------------------------------------------------------------------
def _pb(rng):
    r = rng.random()
    return 1.0 if r < 0.45 else (0.5 if r < 0.7 else (0.0 if r < 0.75 else rng.random()))


def _perm(rng, n):
    return rng.sample(range(n), n)


def _bad_tour(rng, n):
    r = rng.random()
    if r < 0.5:
        return [x + 1 for x in _perm(rng, n)]                  # numbered 1..n
    t = _perm(rng, n)
    t[rng.randrange(n)] = n + rng.randint(0, 3)                  # one label >= size
    return t


def _seed(rng):
    return rng.getrandbits(48)


def fam_bounds(rng, back):
    """mutUniformInt with bound lists the caller keeps and edits in place between the calls"""
    n = rng.randint(1, 8)
    nind = rng.randint(1, 3)
    objs = [["G", [rng.randint(-20, 20) for _ in range(n)], "ind"] for _ in range(nind)]

    def window():
        base = rng.choice([-1, 1]) * rng.randint(0, 1 << rng.choice([4, 8, 20, 30]))
        m = n + rng.randint(0, 2)
        lo = [base + rng.randint(-3, 0) for _ in range(m)]
        return lo, [x + rng.randint(0, 4) for x in lo]
    lo0, hi0 = window()
    modes = rng.choice(["oo", "oo", "oo", "os", "so"])
    objs += [["G", lo0, "bound"], ["G", hi0, "bound"]]
    ilo, ihi = nind, nind + 1
    steps = []
    lo_now, hi_now = lo0, hi0
    for c in range(rng.randint(2, 6)):
        if c:
            r = rng.random()
            if r < 0.7:
                # the caller moves / shrinks its search window: same objects, new contents
                lo_now, hi_now = window()
                how = rng.choice(["slice", "items"])
                which = rng.choice(["both", "both", "lo", "hi"])
                if which != "both":
                    # only one list edited: keep low <= up position by position
                    m = min(len(lo_now), len(hi_now))
                    if which == "lo":
                        hi_now = steps_last(objs, steps, ihi)
                        lo_now = [h - rng.randint(0, 4) for h in hi_now]
                    else:
                        lo_now = steps_last(objs, steps, ilo)
                        hi_now = [l_ + rng.randint(0, 4) for l_ in lo_now]
                if which in ("both", "lo"):
                    steps.append({"do": "store", "obj": ilo, "val": lo_now, "how": how})
                if which in ("both", "hi"):
                    steps.append({"do": "store", "obj": ihi, "val": hi_now, "how": how})
            elif r < 0.8 and n >= 1:
                # a call the operator rejects: a bound list shorter than the individual, or low > up somewhere
                if rng.random() < 0.5:
                    steps.append({"do": "store", "obj": rng.choice([ilo, ihi]), "val": lo_now[:n - 1], "how": "slice"})
                else:
                    j = rng.randrange(n)
                    bad = list(steps_last(objs, steps, ilo))
                    hi_c = steps_last(objs, steps, ihi)
                    if j < len(bad) and j < len(hi_c):
                        bad[j] = hi_c[j] + 1 + rng.randint(0, 3)
                        steps.append({"do": "store", "obj": ilo, "val": bad, "how": "items"})
            elif r < 0.9:
                steps.append({"do": "store", "obj": rng.randrange(nind), "val": [rng.randint(-20, 20) for _ in range(n)],
                              "how": rng.choice(["slice", "items"])})
        low = ["o", ilo] if modes[0] == "o" else ["s", min(lo_now or [0]) - 1]
        up = ["o", ihi] if modes[1] == "o" else ["s", max(hi_now or [0]) + 1]
        steps.append({"do": "call", "op": "uniformint", "args": [rng.randrange(nind)], "low": low, "up": up,
                      "indpb": _pb(rng), "kw": rng.random() < 0.4, "tapeseed": _seed(rng)})
        if rng.random() < 0.25:
            steps.append({"do": "call", "op": rng.choice(["flip", "shuffle", "inversion"]), "args": [rng.randrange(nind)],
                          "indpb": _pb(rng), "tapeseed": _seed(rng)})
    return {"objs": objs, "steps": steps}


def steps_last(objs, steps, k):
    """contents the caller last stored into object k (bound lists are never written by an operator)"""
    for s in reversed(steps):
        if s["do"] == "store" and s["obj"] == k:
            return list(s["val"])
    return list(objs[k][1])


def fam_abort(rng, back):
    """permutation crossovers: an aborted call (labels out of range), then valid calls on the same size"""
    n = rng.randint(2, 9)
    good = rng.randint(2, 4)
    objs = [["P", _perm(rng, n)] for _ in range(good)] + [["P", _bad_tour(rng, n)]]
    ibad = good
    steps = []
    ncall = rng.randint(2, 6)
    abort_at = rng.randrange(ncall - 1)
    main = rng.choice(PERM_OPS)
    for c in range(ncall):
        if c == abort_at or (c > abort_at and rng.random() < 0.15):
            op = main if c == abort_at or rng.random() < 0.5 else rng.choice(PERM_OPS)
            other = rng.randrange(good)
            args = [other, ibad] if rng.random() < 0.5 else [ibad, other]
        else:
            r = rng.random()
            op = main if r < 0.5 else (rng.choice(PERM_OPS) if r < 0.8 else rng.choice(["shuffle", "inversion", "uniform", "twopoint"]))
            args = rng.sample(range(good), 1 if op in GEN1 else 2)
            if rng.random() < 0.2:
                # the caller starts again from fresh tours in the same objects
                for a in args:
                    steps.append({"do": "store", "obj": a, "val": _perm(rng, n), "how": rng.choice(["slice", "items"])})
        s = {"do": "call", "op": op, "args": args, "tapeseed": _seed(rng)}
        if op in ("upmx", "uniform", "shuffle"):
            s["indpb"] = _pb(rng)
            s["kw"] = rng.random() < 0.3
        steps.append(s)
        if c >= abort_at and rng.random() < 0.15:
            # the caller repairs the rejected tour in place and uses it from now on
            steps.append({"do": "store", "obj": ibad, "val": _perm(rng, n), "how": "items"})
    return {"objs": objs, "steps": steps}


def fam_reuse(rng, back):
    """slice / element-wise crossovers and mutations on individuals that are reused, overwritten in place, sometimes too
    short for the operator (refused call) or - numpy - of lengths the slice assignment rejects"""
    n = rng.randint(2, 8)
    k = rng.randint(2, 4)
    binary = rng.random() < 0.4

    def genes(m):
        return [rng.randint(0, 1) for _ in range(m)] if binary else rng.sample(range(-40, 40), m)
    objs = [["G", genes(n if rng.random() < 0.7 else rng.randint(2, 8))] for _ in range(k)]
    short = None
    if rng.random() < 0.5:
        short = len(objs)
        objs.append(["G", genes(rng.randint(0, 1))])
    es = back != "numpy" and rng.random() < 0.4
    strat = {}
    if es:
        for j in range(k):
            strat[j] = len(objs)
            objs.append(["S", [100 + x for x in range(len(objs[j][1]))]])
    steps = []
    ops = ["onepoint", "twopoint", "twopoints", "messy", "uniform", "flip", "shuffle", "inversion"]
    if es:
        ops = ["es", "ess", "twopoint", "uniform", "flip", "shuffle", "inversion", "es"]      # length-preserving only
    for c in range(rng.randint(2, 6)):
        op = rng.choice(ops)
        if op == "flip" and not binary:
            op = "uniform"
        one = op in GEN1
        if short is not None and rng.random() < 0.3 and op not in ES:
            args = [short] if one else rng.sample([short, rng.randrange(k)], 2)
        else:
            args = rng.sample(range(k), 1 if one else 2)
        s = {"do": "call", "op": op, "args": args, "tapeseed": _seed(rng)}
        if op in ES:
            s["args"] = args + [strat[args[0]], strat[args[1]]]
        if op in ("uniform", "flip", "shuffle"):
            s["indpb"] = _pb(rng)
            s["kw"] = rng.random() < 0.3
        steps.append(s)
        if rng.random() < 0.3 and not es:
            a = rng.randrange(k)
            m = len(objs[a][1]) if back == "numpy" or rng.random() < 0.6 else rng.randint(2, 8)
            steps.append({"do": "store", "obj": a, "val": genes(m), "how": "slice" if back != "numpy" else rng.choice(["slice", "items"])})
    return {"objs": objs, "steps": steps}


def fam_mixed(rng, back):
    """everything in one process: permutation objects, integer individuals and bound lists of the same size"""
    n = rng.randint(2, 7)
    objs = [["P", _perm(rng, n)], ["P", _perm(rng, n)], ["P", _perm(rng, n)], ["P", _bad_tour(rng, n)],
            ["G", [rng.randint(0, 1) for _ in range(n)]], ["G", [rng.randint(0, 1) for _ in range(n)]],
            ["G", [rng.randint(-5, 0) for _ in range(n)], "bound"], ["G", [rng.randint(1, 6) for _ in range(n)], "bound"]]
    steps = []
    for c in range(rng.randint(3, 6)):
        r = rng.random()
        if r < 0.4:
            op = rng.choice(PERM_OPS)
            args = rng.sample(range(4 if rng.random() < 0.35 else 3), 2)
        elif r < 0.55:
            op = rng.choice(["shuffle", "inversion"])
            args = [rng.randrange(3)]
        elif r < 0.75:
            op, args = "uniformint", [rng.choice([4, 5])]
        else:
            op = rng.choice(["uniform", "twopoint", "onepoint", "flip", "messy"])
            args = [rng.choice([4, 5])] if op == "flip" else rng.sample([4, 5], 2)
        s = {"do": "call", "op": op, "args": args, "tapeseed": _seed(rng)}
        if op in ("upmx", "uniform", "shuffle", "flip", "uniformint"):
            s["indpb"] = _pb(rng)
        if op == "uniformint":
            s["low"], s["up"] = ["o", 6], ["o", 7]
        steps.append(s)
        if rng.random() < 0.35:
            base = rng.randint(-50, 50)
            m = n if rng.random() < 0.85 else n - 1
            steps.append({"do": "store", "obj": 6, "val": [base - rng.randint(0, 2) for _ in range(m)], "how": "slice"})
            steps.append({"do": "store", "obj": 7, "val": [base + rng.randint(0, 2) for _ in range(n)], "how": "slice"})
    return {"objs": objs, "steps": steps}


FAMS = (("bounds", fam_bounds), ("abort", fam_abort), ("reuse", fam_reuse), ("mixed", fam_mixed))
BACKS = ("list", "list", "array_q", "numpy")


def cases(tier, rng, mult):
    """the same families, backings and operators for every seed; the seed only varies the inputs inside them"""
    # every permutation crossover x (aborted call first, valid call second) on every small size: the fixed skeleton
    for op in PERM_OPS:
        for n in range(2, 8):
            for _ in range(3 * mult):
                for bad in ([x + 1 for x in _perm(rng, n)], None):
                    t = bad or _bad_tour(rng, n)
                    objs = [["P", _perm(rng, n)], ["P", _perm(rng, n)], ["P", t]]
                    steps = [{"do": "call", "op": op, "args": [0, 2] if rng.random() < 0.5 else [2, 0], "tapeseed": _seed(rng)},
                             {"do": "call", "op": op, "args": [0, 1], "tapeseed": _seed(rng)},
                             {"do": "call", "op": op, "args": [1, 0], "tapeseed": _seed(rng)}]
                    for s in steps:
                        if op == "upmx":
                            s["indpb"] = rng.choice([0.5, 1.0])
                    yield {"stream": "hist", "op": "hist", "fam": "abort-fixed", "back": "list", "objs": objs, "steps": steps}
    # uniform-int: per-gene bounds, full mutation, the window moved far away between two calls (same objects)
    for n in range(1, 7):
        for _ in range(4 * mult):
            a = rng.randint(-100, 100)
            b = a + rng.choice([-1, 1]) * rng.randint(50, 1000)
            objs = [["G", [0] * n, "ind"], ["G", [a] * n, "bound"], ["G", [a + 2] * n, "bound"]]
            call = {"do": "call", "op": "uniformint", "args": [0], "low": ["o", 1], "up": ["o", 2], "indpb": 1.0}
            steps = [dict(call, tapeseed=_seed(rng)),
                     {"do": "store", "obj": 1, "val": [b] * n, "how": rng.choice(["slice", "items"])},
                     {"do": "store", "obj": 2, "val": [b + 2] * n, "how": rng.choice(["slice", "items"])},
                     dict(call, tapeseed=_seed(rng))]
            yield {"stream": "hist", "op": "hist", "fam": "bounds-fixed", "back": "list", "objs": objs, "steps": steps}
    # random histories of every family on every backing
    per = (70 if tier == "quick" else 600) * mult
    for name, fam in FAMS:
        for back in BACKS:
            for _ in range(per):
                d = fam(rng, back)
                d.update({"stream": "hist", "op": "hist", "fam": name, "back": back})
                yield d


def shrink(d):
    """forced tapes first (the replay then names every draw), then histories with one step less"""
    if any("tapeseed" in s for s in d["steps"]):
        live_d = {k: v for k, v in d.items()}
        try:
            steps = _record(d)
        except Exception:  # noqa
            return
        yield dict(live_d, steps=steps)
        return
    for k in range(len(d["steps"])):
        yield dict(d, steps=d["steps"][:k] + d["steps"][k + 1:])


def _record(d):
    """the history once more, every call's draws turned into a forced tape"""
    out = []
    objs, back = d["objs"], d.get("back", "list")
    live = [build(o, back) for o in objs]
    for s in d["steps"]:
        if s["do"] == "store":
            overwrite(live[s["obj"]], s["val"], s.get("how", "slice"))
            out.append(s)
            continue
        op, args = s["op"], s["args"]
        tape = H.VTape(forced=s["tape"]) if "tape" in s else H.VTape(rng=_random.Random(s["tapeseed"]))
        with tape:
            try:
                if op in ES:
                    live[args[0]].strategy, live[args[1]].strategy = live[args[2]], live[args[3]]
                    getattr(H.tools, {"es": "cxESTwoPoint", "ess": "cxESTwoPoints"}[op])(live[args[0]], live[args[1]])
                elif op == "uniformint":
                    lo = live[s["low"][1]] if s["low"][0] == "o" else s["low"][1]
                    hi = live[s["up"][1]] if s["up"][0] == "o" else s["up"][1]
                    H.tools.mutUniformInt(live[args[0]], lo, hi, s["indpb"])
                elif op in ("uniform", "upmx"):
                    H.CROSS[op](live[args[0]], live[args[1]], s["indpb"])
                elif op in H.CROSS:
                    H.CROSS[op](live[args[0]], live[args[1]])
                elif op in ("shuffle", "flip"):
                    H.MUT[op](live[args[0]], s["indpb"])
                else:
                    H.tools.mutInversion(live[args[0]])
            except (H.TapeExhausted, H.TapeMismatch):
                raise
            except Exception:  # noqa
                pass
        e = {k: v for k, v in s.items() if k != "tapeseed"}
        e["tape"] = [list(x) for x in tape.draws]
        out.append(e)
    return out
