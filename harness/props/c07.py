"""C07 — SPEA2 and NSGA-III select exactly k, best fronts first, niches balanced; reference points
(deap/tools/emo.py: selSPEA2, _randomizedSelect/_randomizedPartition/_partition, selNSGA3,
selNSGA3WithMemory, associate_to_niche, niching, uniform_reference_points)."""
import itertools
import math
import random as _random
import sys
from fractions import Fraction as Fr

import numpy

from lib import Case, fbits
import tape as tapemod
from deap import base, tools
from deap.tools import emo

ANCHORS = [("deap/tools/emo.py", ["selSPEA2", "_randomizedSelect", "_randomizedPartition", "_partition",
                                  "selNSGA3", "selNSGA3WithMemory", "find_extreme_points", "find_intercepts",
                                  "associate_to_niche", "niching", "uniform_reference_points"])]
LEVEL = "proof"
RULE = ("spea2: exhaustive 1-objective/2-objective tiny populations (n<=4, values in {0,1}) x every k, plus "
        "structured random populations n<=14, 2-5 objectives of mixed sign, small integer values, every "
        "branch (archive exact / too small / too large); nsga3: populations n<=14 (grid, continuous, "
        "single point, collinear, chain, two-level, one cut front with mixed-sign non-unit weights, axis-hugging "
        "rows at the 1e6 ASF weight, fronts scaled to the 1e-6 intercept guard, shared objective prefixes "
        "for the log-time sort; four populations of 180-220 individuals in 46-70 small fronts with niche counts "
        "beyond 127), called as selNSGA3(pop,k,refs) / (…,nd) / (…,nd=,return_memory=True) / through the class, "
        "three-to-five-objective grids of 200-300 individuals with more than 128 distinct fitnesses through the "
        "log-time sort; 430-470 individuals x 495 reference points (5 objectives, p=8), also on associate_to_niche "
        "directly; SPEA2 populations with one objective at 1e16..1e18 next to unit-scale ones, dominated before "
        "dominator; individuals are list-based with genomes unrelated to the fitness (equal genomes, different "
        "fitnesses); SPEA2 at extreme magnitudes (values j*1e150..j*1e300 mixed with ordinary ones: some or all squared "
        "distances overflow to +inf, mostly more than k non-dominated individuals); every SPEA2 case whose float "
        "arithmetic is exact is also run end to end (spea2e: strengths, raw fitness, distances, quick-select with the "
        "recorded pivot draws and densities computed by the model); every selNSGA3 call without a near-tie is also run "
        "with the model's own non-dominated sort (nsga3e); "
        "NSGA-III fronts with unit-spaced values on a common offset of 1e14..2^50; k in 1..n, both nd back-ends, generator reference "
        "points M=nobj, p in 1..8, scaling none or 1/2, plain and with memory over 3 consecutive calls; "
        "niching/associate/find_intercepts also driven directly on synthetic inputs; refs: every M in 1..6 x p in 1..8 x "
        "scaling in {none,1/2,1/4,3/4,1/3}; qsel: random arrays with duplicates. Non-trivial = distinct case that "
        "is not a k=n / single-individual call")
EXHAUSTIVE = {"quick": False, "thorough": False}
TIME_BUDGET = {"quick": 60, "thorough": 900}
MIN_CASES = 2000
CASE_TIMEOUT = 60
TRUSTED = ["translator tie: harness/py2lean_c07.py (the rendering rules in its docstring: imperative sub-language, lists by value in "
           "state-passing style, random.randint read from the tape as Spea2.randomizedPartition reads it, while-loop bounds and "
           "parameter types from the tables of harness/props/c07_translate.py, recursion with fuel) and "
           "lean/DeapModel/Core/GenPreludeC07.lean; it covers _partition, _randomizedPartition, _randomizedSelect, "
           "gen_refs_recursive and the deletion loop of selSPEA2 — everything else of the C07 surface is refused by the "
           "translator (reasons in evidence/C07.translated.json) and is tied by the differential correspondence only",
           "nsga3e lines: the fronts come from the model's own sort (Core/NDSort.lean, proved in C04) on the exact "
           "values of the weighted values; the older nsga3/nsga3f/niching lines still replay the later stages on the "
           "implementation's captured fronts; the front-priority oracle recomputes the ranks by brute force",
           "numpy.linalg.solve (LAPACK) is not modelled: it is the model's `solve` parameter; in the selNSGA3 "
           "streams its answer comes from the HARNESS's own call on the harness's own matrix (the oracle's "
           "normalisation is the harness's own numpy code: ideal/worst point, ASF extreme points, hyperplane "
           "intercepts with the fallbacks; no DEAP function is called), in the find_intercepts stream from the "
           "implementation's call (incl. answers perturbed by the harness to miss the contract A.x = b)",
           "numpy elementwise arithmetic/argmin/unique/flatnonzero semantics; Lean Float = IEEE binary64 "
           "(association compared with relative tolerance 1e-9)",
           "spea2e lines: nothing is read from the implementation (weights, weighted values and the recorded "
           "random.randint pivot draws go in, the selection comes out; exact rationals, emitted only when a check "
           "on the INPUT shows that every float operation of selSPEA2 is exact on it).  spea2 lines (all magnitudes, "
           "incl. inexact and overflowing ones): the model is driven with the squared distances as the code's float "
           "operations yield them (recomputed by the harness, compared with the matrix left in the implementation's "
           "frame; an overflowed sum is the entry `inf`) and, in the archive-too-small branch, with the line-759 "
           "values read from the frame; the theorems hold for every value of both"]
ASSUMPTIONS = ["1 <= k <= n, fitness values finite (no NaN).  SPEA2 squared distances may overflow to +inf: the "
               "spea2V_* theorems hold for every matrix of computed entries (finite or inf); only "
               "spea2_to_remove_distinct (no position removed twice) needs finite entries, with inf entries position 0 "
               "can repeat in to_remove (spea2_to_remove_overflow) and the deletion loop still removes one element per entry",
               "the end-to-end SPEA2 model (spea2e) is exact arithmetic: compared only on inputs whose float arithmetic "
               "is exact; K = sqrt(N) is represented by its integer part (quickselect_floor)",
               "selNSGA3 theorems take the pareto_fronts as given with len(all fronts but the last) < k <= total "
               "(what sortNondominated(individuals, k) returns) and niche numbers < len(ref_points)",
               "association theorems are over the reals, relative to the normalised point the code computed; "
               "binary64 rounding can only matter for reference directions whose distances differ by ~1e-16",
               "reference points: nobj >= 1, p >= 1; non-negativity under scaling for 0 <= scaling <= 1, "
               "distinctness for scaling != 0"]
EXPLANATION = ("Theorems C07.* hold for every population, every distance/density value (overflowed ones included), "
               "every shuffle / pivot tape; the correspondence ties Core/Spea2.lean and Core/Nsga3.lean to "
               "deap.tools.emo by running the same inputs through both and comparing the selected objects: end to "
               "end (selSPEA2E from weights and weighted values, selNSGA3E with the model's own non-dominated sort, "
               "normalisation and association) and stage by stage (with the implementation's own fronts, association, "
               "distances and densities).")

EPS = float(numpy.finfo(float).eps)


# ----------------------------------------------------------------------------------------------
# formatting
# ----------------------------------------------------------------------------------------------

def sfr(q):
    q = Fr(q)
    return str(q.numerator) if q.denominator == 1 else "%d/%d" % (q.numerator, q.denominator)


def ilist(xs):
    xs = list(xs)
    return ",".join(str(int(x)) for x in xs) if xs else "-"


def ilist2(xss):
    xss = list(xss)
    return ";".join(ilist(xs) for xs in xss) if xss else "-"


def rlist(xs):
    xs = list(xs)
    return ",".join(sfr(x) for x in xs) if xs else "-"


def rlist2(xss):
    xss = list(xss)
    return ";".join(rlist(xs) for xs in xss) if xss else "-"


def flist(xs):
    xs = list(xs)
    return ",".join(fbits(x) for x in xs) if xs else "-"


def flist2(xss):
    xss = list(xss)
    return ";".join(flist(xs) for xs in xss) if xss else "-"


def tape_tok(draws):
    return ";".join(ilist(d) for d in draws) if draws else "none"


# ----------------------------------------------------------------------------------------------
# individuals
# ----------------------------------------------------------------------------------------------

_classes = {}


def fit_class(weights):
    key = tuple(weights)
    if key not in _classes:
        _classes[key] = type("Fit", (base.Fitness,), {"weights": tuple(float(Fr(w)) for w in weights)})
    return _classes[key]


class Ind(list):
    pass


def make_pop(weights, vals, geno=None):
    """individuals are list-based (`==` compares genomes).  geno: genome of each individual; genomes are
    unrelated to the fitness (noisy / re-evaluated objectives): equal genomes with different fitnesses and
    different genomes with equal fitnesses both occur.  Identity is what the statement speaks about."""
    F = fit_class(weights)
    pop = []
    for i, v in enumerate(vals):
        ind = Ind(v if geno is None else geno[i % len(geno)])
        ind.fitness = F(tuple(float(x) for x in v))
        pop.append(ind)
    return pop


def gen_geno(rng, n):
    """genomes from a small pool (1..3 distinct genomes, or all distinct)"""
    pool = rng.choice([1, 2, 3, n + 1])
    return [[rng.randrange(pool), 1] for _ in range(n)]


def dominates(a, b):
    return all(x >= y for x, y in zip(a, b)) and any(x > y for x, y in zip(a, b))


def brute_ranks(wv):
    """Pareto depth of each individual (independent of DEAP): 0 for the non-dominated ones, otherwise one
    more than the largest depth among its dominators (= the round in which peeling removes it)."""
    n = len(wv)
    order = sorted(range(n), key=lambda i: tuple(wv[i]), reverse=True)   # dominators come first
    rank = [0] * n
    for a, i in enumerate(order):
        r = 0
        for j in order[:a]:
            if rank[j] >= r and dominates(wv[j], wv[i]):
                r = rank[j] + 1
        rank[i] = r
    return rank


def positions(pop, sel):
    """Identity of each returned object: position in the input or None (fresh object)."""
    idx = {id(x): i for i, x in enumerate(pop)}
    return [idx.get(id(x)) for x in sel]


def common_oracle(pop, sel, k, what):
    pos = positions(pop, sel)
    if len(sel) != k:
        return "%s returned %d individuals for k=%d (n=%d)" % (what, len(sel), k, len(pop)), pos
    if any(p is None for p in pos):
        return "%s returned an object that is not an input object" % what, pos
    if len(set(pos)) != len(pos):
        return "%s returned an input object twice: positions %s" % (what, pos), pos
    return None, pos


# ----------------------------------------------------------------------------------------------
# numpy shuffle recording
# ----------------------------------------------------------------------------------------------

class NpShuffle(object):
    """Replaces numpy.random.shuffle inside the harness process; every call is one draw carrying the
    resulting array."""

    def __init__(self, rng):
        self.rng, self.draws = rng, []

    def __enter__(self):
        self.saved = numpy.random.shuffle
        numpy.random.shuffle = self._shuffle
        return self

    def __exit__(self, *a):
        numpy.random.shuffle = self.saved
        return False

    def _shuffle(self, x):
        n = len(x)
        perm = list(range(n))
        self.rng.shuffle(perm)
        old = x.copy()
        for j in range(n):
            x[j] = old[perm[j]]
        self.draws.append([int(v) for v in x])


class Capture(object):
    """Wraps the helper functions selNSGA3 calls (module globals of emo) to see its intermediate data."""
    NAMES = ("sortNondominated", "sortLogNondominated", "associate_to_niche", "niching",
             "find_extreme_points", "find_intercepts")

    def __init__(self):
        self.calls = []
        self.cur = None

    def __enter__(self):
        self.saved = {n: getattr(emo, n) for n in self.NAMES}
        cap = self

        def wrap_sort(name):
            f = self.saved[name]

            def g(individuals, k, *a, **kw):
                fronts = f(individuals, k, *a, **kw)
                cap.cur = {"nd": name, "fronts": [list(fr) for fr in fronts]}
                cap.calls.append(cap.cur)
                return fronts
            return g

        def assoc(fitnesses, reference_points, best_point, intercepts):
            niches, dist = self.saved["associate_to_niche"](fitnesses, reference_points, best_point, intercepts)
            if cap.cur is not None:
                cap.cur.update(fitnesses=numpy.array(fitnesses), refs=numpy.array(reference_points),
                               best=numpy.array(best_point), intercepts=numpy.array(intercepts),
                               niches=numpy.array(niches), dist=numpy.array(dist))
            return niches, dist

        def nich(individuals, k, niches, distances, niche_counts):
            if cap.cur is not None:
                cap.cur.update(n_individuals=list(individuals), n_k=k, n_niches=numpy.array(niches),
                               n_dist=numpy.array(distances), n_counts0=numpy.array(niche_counts))
            sel = self.saved["niching"](individuals, k, niches, distances, niche_counts)
            if cap.cur is not None:
                cap.cur.update(n_sel=list(sel), n_counts1=numpy.array(niche_counts))
            return sel
        def fext(fitnesses, best_point, extreme_points=None):
            res = self.saved["find_extreme_points"](fitnesses, best_point, extreme_points)
            if cap.cur is not None:
                cap.cur["extreme"] = numpy.array(res)
            return res

        def ficpt(extreme_points, best_point, current_worst, front_worst):
            res = self.saved["find_intercepts"](extreme_points, best_point, current_worst, front_worst)
            if cap.cur is not None:
                cap.cur["worst"] = numpy.array(current_worst).reshape(-1)
            return res
        emo.find_extreme_points = fext
        emo.find_intercepts = ficpt
        emo.sortNondominated = wrap_sort("sortNondominated")
        emo.sortLogNondominated = wrap_sort("sortLogNondominated")
        emo.associate_to_niche = assoc
        emo.niching = nich
        return self

    def __exit__(self, *a):
        for n, f in self.saved.items():
            setattr(emo, n, f)
        return False


# ----------------------------------------------------------------------------------------------
# oracles written from the statement
# ----------------------------------------------------------------------------------------------

def perp_distances(fn, refs):
    """distance of the point fn to the line through 0 and each reference point (independent formula:
    fn minus its orthogonal projection on the unit direction)."""
    U = refs / numpy.sqrt(numpy.sum(refs * refs, axis=1))[:, None]
    t = U.dot(fn)
    return numpy.sqrt(numpy.sum((fn[None, :] - t[:, None] * U) ** 2, axis=1))


def assoc_oracle(fitnesses, refs, best, intercepts, niches, dist):
    """every candidate is associated with a reference direction of smallest perpendicular distance in
    the normalised objective space; returns (message or None, has_near_tie)."""
    near = False
    denom = intercepts - best + EPS
    refs = numpy.asarray(refs, dtype=float)
    for i in range(len(fitnesses)):
        fn = (fitnesses[i] - best) / denom
        if not numpy.all(numpy.isfinite(fn)):
            continue
        ds = perp_distances(fn, refs)
        m = float(numpy.min(ds))
        scale = max(1.0, float(numpy.max(numpy.abs(fn))))
        tol = 1e-9 * scale
        j = int(niches[i])
        if not (0 <= j < len(refs)):
            return "individual %d associated with niche %r outside the reference set" % (i, j), near
        if ds[j] > m + tol:
            return ("individual %d associated with reference %d at perpendicular distance %.12g although "
                    "reference %d is at %.12g" % (i, j, ds[j], int(numpy.argmin(ds)), m)), near
        if abs(float(dist[i]) - ds[j]) > tol:
            return "individual %d: reported distance %.12g, perpendicular distance %.12g" % (i, float(dist[i]), ds[j]), near
        if int(numpy.sum(ds <= m + 1e-7 * scale)) > 1:
            near = True
    return None, near


def balance_oracle(niche_of, counts_total, last_members, selected_set):
    """a niche that received a last-front member never ends more than one above a niche that still has a
    last-front candidate left.  niche_of: position -> niche, counts_total: niche -> selected count."""
    received = set(niche_of[p] for p in last_members if p in selected_set)
    left = set(niche_of[p] for p in last_members if p not in selected_set)
    for a in sorted(received):
        for b in sorted(left):
            if counts_total.get(a, 0) > counts_total.get(b, 0) + 1:
                return ("niche %d received a last-front member and ends with %d members while niche %d "
                        "ends with %d and still had a candidate left" % (a, counts_total.get(a, 0), b, counts_total.get(b, 0)))
    return None


def own_extreme_points(rows, best):
    """Deb & Jain, extreme point of axis j: the row minimising the achievement scalarising function
    max_m (f_m - z_m) / w_m with w = 1 on the axis and 1e-6 elsewhere (first row on ties)."""
    ft = rows - best
    M = len(best)
    ext = []
    for j in range(M):
        wts = numpy.full(M, 1e6)
        wts[j] = 1.0
        ext.append(rows[int(numpy.argmin(numpy.max(ft * wts, axis=1)))])
    return numpy.array(ext)


def own_intercepts(extreme, best, worst, front_worst):
    """intercepts of the hyperplane through the extreme points (measured from the ideal point, returned as
    absolute coordinates); degenerate cases fall back on the worst points.  The linear system is solved
    HERE, by the harness, on the harness's own matrix.  Returns (intercepts, solve answer or 'sing', branch)."""
    A = extreme - best
    b = numpy.ones(len(best))
    try:
        x = numpy.linalg.solve(A, b)
    except numpy.linalg.LinAlgError:
        return numpy.array(worst, dtype=float), "sing", "sing"
    if numpy.any(x == 0):
        return numpy.array(front_worst, dtype=float), x, "frontworst/zero"
    ic = 1.0 / x
    if not numpy.allclose(numpy.dot(A, x), b):
        return numpy.array(front_worst, dtype=float), x, "frontworst/residual"
    if numpy.any(ic <= 1e-6) or numpy.any(ic + best > worst):
        return numpy.array(front_worst, dtype=float), x, "frontworst/guard"
    return ic + best, x, "hyperplane"


def independent_normalisation(F, mem):
    """Ideal point, extreme points and intercepts computed by the harness's own numpy code from the
    minimised objective matrix F that the harness built itself from the individuals (nothing here comes
    from inside selNSGA3, and no DEAP function is called).  mem = None (plain selNSGA3) or the harness's
    own copy of the memory {best, worst, extreme}; returns (best, intercepts, new mem, solve answer, branch)."""
    if mem is not None:
        best = numpy.min(numpy.concatenate((F, mem["best"].reshape(1, -1)), axis=0), axis=0)
        worst = numpy.max(numpy.concatenate((F, mem["worst"].reshape(1, -1)), axis=0), axis=0)
        rows = F if mem["extreme"] is None else numpy.concatenate((F, mem["extreme"]), axis=0)
    else:
        best, worst, rows = numpy.min(F, axis=0), numpy.max(F, axis=0), F
    extreme = own_extreme_points(rows, best)
    intercepts, sol, branch = own_intercepts(extreme, best, worst, numpy.max(F, axis=0))
    return best, intercepts, {"best": best, "worst": worst, "extreme": extreme}, sol, branch


def min_matrix(pop, wv, cap):
    """the minimised objective matrix, built by the harness from the individuals: -(value * weight), in the
    order of the flattened fronts (only the *order* comes from the sort; the numbers do not)."""
    flat = positions(pop, [x for fr in cap["fronts"] for x in fr])
    return flat, numpy.array([[-x for x in wv[p]] for p in flat], dtype=float)


def nsga3_call_oracle(pop, wv, sel, k, cap, refs, flat, F, indep):
    """wv: weighted values computed by the harness from the case description.  Returns
    (message, positions, near_tie)."""
    msg, pos = common_oracle(pop, sel, k, "selNSGA3")
    if msg:
        return msg, pos, False
    rank = brute_ranks(wv)
    selset = set(pos)
    worst_sel = max(rank[p] for p in pos)
    for q in range(len(pop)):
        if q not in selset and rank[q] < worst_sel:
            x = next(p for p in pos if rank[p] > rank[q])
            return ("individual %d of front %d is left out although individual %d of front %d is selected"
                    % (q, rank[q], x, rank[x])), pos, False
    best, intercepts = indep[0], indep[1]
    # the normalisation must never divide by a non-positive number (line 627: intercepts - best + eps),
    # neither with the implementation's own ideal point / intercepts nor with the rebuilt ones
    for what, b_, i_ in (("implementation's", numpy.array(cap["best"]).reshape(-1), numpy.array(cap["intercepts"]).reshape(-1)),
                         ("rebuilt", best, intercepts)):
        den = i_ - b_ + EPS
        if not numpy.all(den > 0):
            return ("normalisation: %s denominators intercepts - ideal + eps = %s are not positive (ideal %s, "
                    "intercepts %s)" % (what, den.tolist(), b_.tolist(), i_.tolist())), pos, False
    # (a) the association the implementation used, judged in the independently normalised space
    if len(cap["niches"]) != len(flat):
        return "association covers %d individuals, %d were sorted" % (len(cap["niches"]), len(flat)), pos, False
    msg, near = assoc_oracle(F, refs, best, intercepts, cap["niches"], cap["dist"])
    if msg:
        return ("association (normalised space rebuilt from -wvalues): " +
                msg.replace("individual", "flattened-front position")), pos, near
    # (b) niche balance of the returned selection w.r.t. that (now validated) association
    niche_of = {p: int(cap["niches"][t]) for t, p in enumerate(flat)}
    counts = {}
    for p in pos:
        counts[niche_of[p]] = counts.get(niche_of[p], 0) + 1
    last = [q for q in range(len(pop)) if rank[q] == worst_sel]
    msg = balance_oracle(niche_of, counts, last, selset)
    return msg, pos, near


# ----------------------------------------------------------------------------------------------
# evaluate
# ----------------------------------------------------------------------------------------------

def ref_points(M, p, scaling):
    return tools.uniform_reference_points(M, p, None if scaling is None else float(Fr(scaling)))


def nsga3_lines(pop, cap, k, sel_pos, near, memory, F, Fid, imem, indep, wv=None):
    """protocol lines + expected answers for one captured selNSGA3 call.  F / Fid: the harness-built
    minimised objective matrix in flattened-front order / in input order; imem: the harness's copy of the
    memory before the call; indep: the harness's own normalisation (its solve answer feeds the model)."""
    lines, expect = [], []
    fronts = [positions(pop, fr) for fr in cap["fronts"]]
    nref = len(cap["refs"])
    lines.append("C07 nsga3 %s %d %s %s %d %s" % (ilist2(fronts), k, ilist(cap["niches"]), flist(cap["dist"]),
                                                 nref, tape_tok(cap["draws"])))
    expect.append(ilist(sel_pos))
    # niching on its own, with the in-place updated counts
    L = len(cap["n_individuals"])
    if all(int(c) >= 0 for c in cap["n_counts0"]) and all(int(c) >= 0 for c in cap["n_counts1"]):
        lines.append("C07 niching %d %d %d %s %s %s %s" % (L, max(cap["n_k"], 0), nref, ilist(cap["n_niches"]),
                                                         flist(cap["n_dist"]), ilist(cap["n_counts0"]), tape_tok(cap["draws"])))
        lastpos = positions(cap["n_individuals"], cap["n_sel"])
        expect.append("%s %s" % (ilist(lastpos), ilist(cap["n_counts1"])))
    # normalisation + association + selection by the model's own chain, from the harness-built matrix, the
    # harness's copy of the memory and the HARNESS's own answer of numpy.linalg.solve (the model's `solve`)
    sol = indep[3]
    if numpy.all(numpy.isfinite(F)):
        mtoks = ("none", "none", "none") if imem is None else (
            flist(imem["best"]), flist(imem["worst"]), "none" if imem["extreme"] is None else flist2(imem["extreme"]))
        stok = "sing" if isinstance(sol, str) else flist(sol)
        lines.append("C07 norm %s %s %s %s %s" % ((flist2(F),) + mtoks + (stok,)))
        expect.append("%s %s %s %s" % (flist(numpy.array(cap["best"]).reshape(-1)), flist(cap["worst"]),
                                       flist2(cap["extreme"]), flist(numpy.array(cap["intercepts"]).reshape(-1))))
        if numpy.all(numpy.isfinite(cap["dist"])):
            op = "nassocd" if near else "nassoc"
            lines.append("C07 %s %s %s %s %s %s %s" % ((op, flist2(F), flist2(cap["refs"])) + mtoks + (stok,)))
            expect.append(flist(cap["dist"]) if near else "%s %s" % (ilist(cap["niches"]), flist(cap["dist"])))
            if not near:
                lines.append("C07 nsga3f %s %d %s %s %s %s %s %s %s" % ((ilist2(fronts), k, flist2(Fid), flist2(cap["refs"]))
                                                                        + mtoks + (stok, tape_tok(cap["draws"]))))
                expect.append(ilist(sel_pos))
                # the same, with the non-dominated sort done by the model too (C04 model on the exact values of
                # the weighted values): nothing of the implementation's intermediate data is used
                if wv is not None:
                    lines.append("C07 nsga3e %s %s %d %s %s %s %s %s %s" % (
                        ("log" if cap["nd"] == "sortLogNondominated" else "std", rlist2([[Fr(x) for x in t] for t in wv]), k,
                         flist2(cap["refs"])) + mtoks + (stok, tape_tok(cap["draws"]))))
                    expect.append(ilist(sel_pos))
    if memory is not None:
        b0, w0, mem = memory
        lines.append("C07 mem %s %s %s" % (flist2(cap["fitnesses"]), flist(b0), flist(w0)))
        expect.append("%s %s" % (flist(numpy.array(mem.best_point).reshape(-1)), flist(numpy.array(mem.worst_point).reshape(-1))))
    return lines, expect


def guard_decisions(F):
    """a function of the INPUT only: the outcome of every test of find_intercepts (singular / zero component /
    allclose / 1e-6 guard / `intercepts + ideal > worst`, per component) as the harness's own numpy code
    evaluates them on this objective matrix.  In real arithmetic a translation changes none of them; in binary64
    an intercept that EQUALS the worst point (1/x = 3.0000000000000004 against 3) lands on either side of
    `intercepts + ideal > worst` depending on the magnitude of the ideal point it is added to.  Two matrices that
    are exact translates of each other and still decide differently sit on such a rounding boundary: they say
    nothing about translation invariance (each run still associates correctly in its own normalised space, which
    is what the statement asks and what assoc_oracle checks)."""
    best, worst = numpy.min(F, axis=0), numpy.max(F, axis=0)
    A = own_extreme_points(F, best) - best
    try:
        x = numpy.linalg.solve(A, numpy.ones(len(best)))
    except numpy.linalg.LinAlgError:
        return ("sing",)
    if numpy.any(x == 0):
        return ("zero",)
    ic = 1.0 / x
    return (bool(numpy.allclose(numpy.dot(A, x), numpy.ones(len(best)))), tuple((ic <= 1e-6).tolist()),
            tuple(((ic + best) > worst).tolist()))


def translation_oracle(d, w, vals, k, refs, cap, F, flat):
    """NSGA-III's association lives in the objective space translated to the ideal point, so shifting every
    objective vector by one constant vector must leave it unchanged: run the real selNSGA3 on a translated
    copy of the population with the same shuffles and compare the association it used."""
    trng = _random.Random(d.get("seed", 0) ^ 0x5A17)
    t = [trng.choice([-7, -3, -1, 2, 5, 11, 0.5, -2.5]) for _ in w]
    vals2 = [[x + ti for x, ti in zip(v, t)] for v in vals]
    wv2 = [tuple(float(x) * float(Fr(ww)) for x, ww in zip(v, w)) for v in vals2]
    pop2 = make_pop(w, vals2, d.get("geno"))
    F2all = numpy.array([[-x for x in wv2[p]] for p in flat], dtype=float)
    shift = F2all - F
    if d.get("shape") in ("asf", "tiny") or not numpy.array_equal(F2all - shift[0], F) or not numpy.array_equal(F + shift[0], F2all):
        return None                      # values at the 1e-6 scale: the shift is not exact in binary64
    if not numpy.all(shift == shift[0]) or numpy.max(numpy.abs(F)) > 1e6 or (numpy.max(numpy.abs(F)) < 1e-3 and numpy.max(numpy.abs(F)) > 0):
        return None                      # the shift is not exact in binary64: nothing to compare
    if guard_decisions(F) != guard_decisions(F2all):
        return None                      # the intercept guard is decided by rounding on this input: nothing to compare
    with Capture() as cp2, NpShuffle(_random.Random(d.get("seed", 0))):
        tools.selNSGA3(pop2, k, refs, nd=d["nd"])
    cap2 = cp2.calls[-1]
    flat2 = positions(pop2, [x for fr in cap2["fronts"] for x in fr])
    if flat2 != flat:
        return None                      # (cannot happen for an exact shift; the sort is C04's business)
    n1, n2 = numpy.array(cap["niches"]), numpy.array(cap2["niches"])
    if not numpy.array_equal(n1, n2):
        bad = int(numpy.flatnonzero(n1 != n2)[0])
        return ("association is not translation invariant: shifting every objective vector by %s moves "
                "flattened-front position %d from reference %d to reference %d (ideal %s, intercepts %s; "
                "shifted: ideal %s, intercepts %s)" % (t, bad, n1[bad], n2[bad], numpy.array(cap["best"]).tolist(),
                                                     numpy.array(cap["intercepts"]).tolist(), numpy.array(cap2["best"]).tolist(),
                                                     numpy.array(cap2["intercepts"]).tolist()))
    d1, d2 = numpy.array(cap["dist"]), numpy.array(cap2["dist"])
    if not numpy.allclose(d1, d2, rtol=1e-6, atol=1e-9):
        return "perpendicular distances change under a translation of the objective space: %s vs %s" % (d1.tolist(), d2.tolist())
    return None


def translate(repo):
    """translator tie (lib._translated_obligations): Lean definitions regenerated from `repo`'s current deap/tools/emo.py +
    the committed theorems of lean/DeapModel/GenEq/C07.lean.tmpl (harness/py2lean_c07.py)"""
    from props import c07_translate
    import json
    import os
    import lib
    tr = c07_translate.translate(repo)
    try:
        os.makedirs(os.path.join(lib.OUT, "evidence"), exist_ok=True)
        with open(os.path.join(lib.OUT, "evidence", "C07.translated.json"), "w") as fh:
            json.dump({"definitions": len(tr["definitions"]), "theorems": len(tr["theorems"]),
                       "refused": len(tr["refused"]), "problems": tr["problems"],
                       "functions": [dict(file=f, name=n, lean=l, status=st, detail=d) for f, n, l, st, d in tr["table"]],
                       "theorem_names": tr["theorems"]}, fh, indent=1)
            fh.write("\n")
    except OSError:
        pass
    return tr


def dtok(x):
    """a computed squared distance: exact rational, or `inf` when the float sum of squares overflowed"""
    return "inf" if x == float("inf") else sfr(Fr(x))


def spea2_matrix_check(cap, nd, D):
    """the harness recomputes the distance matrix with the code's float operations; what the implementation
    itself computed is still visible in its frame when it returns: every entry of `distances` outside the
    removed rows / columns (those are overwritten with inf) and off the diagonal.  A difference means the
    model would be driven with another matrix than the code used: a correspondence break."""
    dm, rem = cap.get("distances"), cap.get("to_remove")
    if not isinstance(dm, list) or not isinstance(rem, list) or len(dm) != len(nd):
        return None
    gone = set(rem)
    for a in range(len(nd)):
        for b in range(len(nd)):
            if a != b and a not in gone and b not in gone:
                try:
                    got = float(dm[a][b])
                except (TypeError, ValueError, IndexError):
                    return "CORRESPONDENCE: selSPEA2's distance matrix is not a square float matrix any more"
                if got != D[nd[a]][nd[b]]:
                    return ("CORRESPONDENCE: selSPEA2 computed distance %r for the non-dominated positions %d, %d; "
                            "the harness's transcription of lines 773-777 gives %r" % (got, nd[a], nd[b], D[nd[a]][nd[b]]))
    return None


def spea2_exact_regime(w, vals, wv, D, branch):
    """a function of the INPUT only: may the rational end-to-end model be compared with the float code?  Yes
    when every float operation of selSPEA2 on this input is exact (weighted values, the values read back,
    differences, squares, sums) and, in the archive-too-small branch, the exact keys raw + 1/(kth+2) are equal
    or far further apart than the rounding of the division and the sum."""
    n = len(vals)
    try:
        for v, t in zip(vals, wv):
            for x, ww, y in zip(v, w, t):
                if float(y) != y or Fr(float(y) / float(Fr(ww))) != Fr(x):      # product / read-back exact
                    return False
        for i in range(n):
            for j in range(i + 1, n):
                exact = sum((Fr(a) - Fr(b)) ** 2 for a, b in zip(vals[i], vals[j]))
                if D[i][j] == float("inf") or Fr(D[i][j]) != exact:
                    return False
    except (OverflowError, ValueError):
        return False
    if branch != "small":
        return True
    dom = [[dominates(wv[i], wv[j]) for j in range(n)] for i in range(n)]
    strength = [sum(dom[i]) for i in range(n)]
    raw = [sum(strength[j] for j in range(n) if dom[j][i]) for i in range(n)]
    r = math.isqrt(n)
    keys = []
    for i in range(n):
        row = sorted([Fr(0)] * (i + 1) + [Fr(D[i][j]) for j in range(i + 1, n)])
        keys.append(raw[i] + 1 / (row[r] + 2))
    return all(a == b or abs(a - b) > Fr(1, 10 ** 9) * (1 + abs(a)) for a in keys for b in keys)


def eval_spea2(d):
    w, vals, k = d["w"], d["vals"], d["kk"]
    pop = make_pop(w, vals, d.get("geno"))
    n = len(pop)
    cap = {}
    code = emo.selSPEA2.__code__

    def prof(frame, event, arg):
        if event == "return" and frame.f_code is code:
            cap["fits"] = list(frame.f_locals.get("fits", []))
            cap["chosen"] = list(frame.f_locals.get("chosen_indices", []))
            cap["distances"] = frame.f_locals.get("distances")
            cap["to_remove"] = frame.f_locals.get("to_remove")
    with tapemod.Tape(rng=_random.Random(d.get("seed", 0))) as tp:
        sys.setprofile(prof)
        try:
            sel = tools.selSPEA2(pop, k)
        finally:
            sys.setprofile(None)
    wv = [tuple(Fr(x) * Fr(ww) for x, ww in zip(v, w)) for v in vals]
    msg, pos = common_oracle(pop, sel, k, "selSPEA2")
    nd = [i for i in range(n) if not any(dominates(wv[j], wv[i]) for j in range(n))]
    if msg is None:
        if len(nd) <= k and not set(nd) <= set(pos):
            msg = "non-dominated individuals %s are left out although only %d <= k=%d are non-dominated" % (
                sorted(set(nd) - set(pos)), len(nd), k)
        elif len(nd) >= k and not set(pos) <= set(nd):
            msg = "dominated individuals %s selected although %d >= k=%d individuals are non-dominated" % (
                sorted(set(pos) - set(nd)), len(nd), k)
    branch = "exact" if len(nd) == k else ("small" if len(nd) < k else "large")
    def fdist(a, b):
        acc = 0.0
        for x, y in zip(a, b):
            v = x - y
            acc += v * v
        return acc
    fv = [tuple(ind.fitness.values) for ind in pop]
    # the computed squared distances as the float arithmetic of lines 773-777 yields them (same operations in
    # the same order); a sum that overflowed is the matrix value `inf`
    D = [[fdist(fv[min(i, j)], fv[max(i, j)]) for j in range(n)] for i in range(n)]
    if msg is None and branch == "large":
        msg = spea2_matrix_check(cap, nd, D)
    fits = cap.get("fits", [])
    fits_tok = rlist([Fr(x) for x in fits]) if branch == "small" and len(fits) == n else "-"
    line = "C07 spea2 %s %d %s %s" % (rlist2(wv), k, fits_tok, ";".join(",".join(dtok(x) for x in r) for r in D))
    out = ilist([p if p is not None else 999999 for p in pos])
    ovf = any(x == float("inf") for r in D for x in r)
    lines, expect = [line], [out]
    # end to end: strengths, raw fitness, squared distances, quick-select (pivot draws from the tape) and
    # densities all computed by the model from the weights and the weighted values, in exact rationals
    if spea2_exact_regime(w, vals, wv, D, branch):
        if any(x[0] != "randint" for x in tp.draws):
            if msg is None:
                msg = "TAPE: selSPEA2 drew %s; the model's quick-select reads random.randint pivots only" % (
                    sorted(set(x[0] for x in tp.draws if x[0] != "randint")),)
        else:
            draws = [x[3] - x[1] for x in tp.draws]            # offsets r - begin
            lines.append("C07 spea2e %s %s %d %s" % (rlist([Fr(x) for x in w]), rlist2(wv), k, ilist(draws)))
            expect.append(out)
    return Case(d, lines, expect, msg, tag="spea2/%s/m=%d%s%s" % (branch, len(w), "/overflow" if ovf else "",
                                                               "/e2e" if len(lines) > 1 else ""),
                nontrivial=(1 < k < n), tol=1e-9)


def eval_nsga3(d):
    w, M = d["w"], len(d["w"])
    refs = ref_points(M, d["p"], d.get("scaling"))
    mem_mode = d["k"] == "nsga3mem"
    pops = d["pops"] if mem_mode else [d["vals"]]
    ks = d["kk"] if mem_mode else [d["kk"]]
    call = d.get("call", "kw")
    selector = emo.selNSGA3WithMemory(refs, d["nd"]) if mem_mode else None
    lines, expect, msg = [], [], None
    rng = _random.Random(d.get("seed", 0))
    branch = None
    # the harness's own copy of the memory (selNSGA3WithMemory.__init__: +inf / -inf / None)
    imem = None if selector is None else {"best": numpy.full(M, numpy.inf), "worst": numpy.full(M, -numpy.inf),
                                          "extreme": None}
    for vals, k in zip(pops, ks):
        pop = make_pop(w, vals, d.get("geno"))
        wv = [tuple(float(x) * float(Fr(ww)) for x, ww in zip(v, w)) for v in vals]
        with Capture() as cp, NpShuffle(rng) as sh:
            if selector is not None:
                b0 = numpy.array(selector.best_point).reshape(-1)
                w0 = numpy.array(selector.worst_point).reshape(-1)
                sel = selector(pop, k)
                memory = (b0, w0, emo.NSGA3Memory(selector.best_point, selector.worst_point, selector.extreme_points))
            elif call == "plain":
                sel = tools.selNSGA3(pop, k, refs)                       # the documented plain form
                memory = None
            elif call in ("nd", "plain_nd"):
                sel = tools.selNSGA3(pop, k, refs, d["nd"])
                memory = None
            else:
                sel, _mem = tools.selNSGA3(pop, k, refs, nd=d["nd"], return_memory=True)
                memory = None
        cap = cp.calls[-1]
        cap["draws"] = sh.draws
        flat, F = min_matrix(pop, wv, cap)
        Fid = numpy.array([[-x for x in t] for t in wv], dtype=float)
        indep = independent_normalisation(F, imem)
        if branch is None:
            branch = indep[4]
        m, pos, near = nsga3_call_oracle(pop, wv, sel, k, cap, refs, flat, F, indep)
        if m and msg is None:
            msg = m
        if any(p is None for p in pos):
            break
        if m is None and selector is None and not near and len(pop) <= 40:
            m = translation_oracle(d, w, vals, k, refs, cap, F, flat)
            if m and msg is None:
                msg = m
        l, e = nsga3_lines(pop, cap, k, pos, near, memory, F, Fid, imem, indep, wv)
        lines += l
        expect += e
        imem = indep[2] if imem is not None else None
    n = len(pops[0])
    tag = "%s/%s/%s/m=%d%s/%s/%s" % (d["k"], d.get("shape", "?"), d["nd"], M, "/scaled" if d.get("scaling") else "",
                                   branch, call if not mem_mode else "class")
    return Case(d, lines, expect, msg, tag=tag, nontrivial=(n > 1 and ks[0] < n), tol=1e-9)


def eval_icpt(d):
    """find_intercepts on its own (correspondence only: the statement does not speak about it)."""
    ext = numpy.array(d["extreme"], dtype=float)
    best = numpy.array(d["best"], dtype=float)
    worst = numpy.array(d["worst"], dtype=float)
    fw = numpy.array(d["fw"], dtype=float)
    # correspondence of the logic AROUND the solve: the solve answer is the implementation's own (LAPACK is
    # not bit-reproducible on the ill-conditioned systems used here); the nsga3 streams use the harness's
    # own solve instead
    seen = {}
    real_solve = numpy.linalg.solve

    def solve(A, b):
        try:
            x = real_solve(A, b)
        except numpy.linalg.LinAlgError:
            seen["x"] = "sing"
            raise
        if d.get("perturb"):
            x = x * (1.0 + d["perturb"])        # a solver that misses its contract A.x = b
        seen["x"] = numpy.array(x)
        return x
    numpy.linalg.solve = solve
    try:
        got = numpy.array(emo.find_intercepts(ext.copy(), best.copy(), worst.copy(), fw.copy()), dtype=float).reshape(-1)
    finally:
        numpy.linalg.solve = real_solve
    sol = seen.get("x", "sing")
    if isinstance(sol, str):
        branch = "sing"
    elif numpy.any(sol == 0):
        branch = "frontworst/zero"
    elif not numpy.allclose(numpy.dot(ext - best, sol), numpy.ones(len(best))):
        branch = "frontworst/residual"
    elif numpy.any(1 / sol <= 1e-6) or numpy.any(1 / sol + best > worst):
        branch = "frontworst/guard"
    else:
        branch = "hyperplane"
    stok = "sing" if isinstance(sol, str) else flist(sol)
    line = "C07 icpt %s %s %s %s %s" % (flist2(ext), flist(best), flist(worst), flist(fw), stok)
    return Case(d, [line], [flist(got)], None, tag="icpt/%s/%s" % (d.get("shape", "?"), branch), tol=1e-9)


def eval_niching(d):
    L, k, nref = d["L"], d["kk"], d["nref"]
    niches = numpy.array(d["niches"], dtype=numpy.int64)
    dist = numpy.array([float(x) for x in d["dist"]], dtype=float)
    counts = numpy.array(d["counts"], dtype=numpy.int64)
    c0 = counts.copy()
    with NpShuffle(_random.Random(d.get("seed", 0))) as sh:
        sel = emo.niching(list(range(L)), k, niches, dist, counts)
    msg = None
    if len(sel) != k:
        msg = "niching returned %d individuals for k=%d" % (len(sel), k)
    elif len(set(sel)) != len(sel) or any(not (0 <= p < L) for p in sel):
        msg = "niching returned an individual twice: %s" % (sel,)
    else:
        tot = {j: int(c0[j]) for j in range(nref)}
        for p in sel:
            tot[int(niches[p])] += 1
        msg = balance_oracle({p: int(niches[p]) for p in range(L)}, tot, list(range(L)), set(sel))
        if msg is None and [tot[j] for j in range(nref)] != [int(c) for c in counts]:
            msg = "niche_counts after niching %s differ from the counts of the selection %s" % (list(counts), tot)
    line = "C07 niching %d %d %d %s %s %s %s" % (L, k, nref, ilist(niches), flist(dist), ilist(c0), tape_tok(sh.draws))
    return Case(d, [line], ["%s %s" % (ilist(sel), ilist(counts))], msg, tag="niching/" + d.get("shape", "?"),
                nontrivial=(0 < k < L), tol=1e-9)


def eval_assoc(d):
    refs = ref_points(d["M"], d["p"], d.get("scaling"))
    fits = numpy.array([[float(x) for x in r] for r in d["fits"]], dtype=float)
    best = numpy.array([float(x) for x in d["best"]])
    inter = numpy.array([float(x) for x in d["intercepts"]])
    niches, dist = emo.associate_to_niche(fits, refs, best, inter)
    msg, near = assoc_oracle(fits, refs, best, inter, niches, dist)
    op = "assocd" if near else "assoc"
    line = "C07 %s %s %s %s %s" % (op, flist2(fits), flist2(refs), flist(best), flist(inter))
    exp = flist(dist) if near else "%s %s" % (ilist(niches), flist(dist))
    return Case(d, [line], [exp], msg, tag="assoc/m=%d%s%s" % (d["M"], "/tie" if near else "", "/wide" if d.get("shape") == "wide" else ""), tol=1e-9)


def eval_refs(d):
    M, p, sc = d["M"], d["p"], d.get("scaling")
    pts = ref_points(M, p, sc)
    msg = None
    want = math.comb(M + p - 1, p)
    if len(pts) != want:
        msg = "%d reference points, C(M+p-1,p)=%d" % (len(pts), want)
    elif pts.shape[1] != M:
        msg = "reference points have %d coordinates for %d objectives" % (pts.shape[1], M)
    elif numpy.min(pts) < -1e-12:
        msg = "negative coordinate %r" % float(numpy.min(pts))
    elif numpy.max(numpy.abs(pts.sum(axis=1) - 1.0)) > 1e-9:
        msg = "coordinates do not sum to 1: %r" % pts.sum(axis=1).tolist()
    else:
        keys = set(tuple(int(round(x * 1e9)) for x in r) for r in pts)
        if len(keys) != len(pts):
            msg = "reference points are not pairwise distinct"
    line = "C07 refs %d %d %s" % (M, p, "none" if sc is None else sfr(Fr(sc)))
    return Case(d, [line], [flist2(pts)], msg, tag="refs/M=%d%s" % (M, "/scaled" if sc else ""), nontrivial=(M > 1), tol=1e-9)


def eval_qsel(d):
    arr = [float(x) for x in d["arr"]]
    n = len(arr)
    K = math.sqrt(n) if d.get("i") is None else float(Fr(d["i"]))
    with tapemod.Tape(rng=_random.Random(d.get("seed", 0))) as tp:
        a = list(arr)
        got = emo._randomizedSelect(a, 0, n - 1, K)
    draws = [x[3] - x[1] for x in tp.draws if x[0] == "randint"]      # offsets r - begin
    line = "C07 qsel %s 0 %d %s %s" % (rlist([Fr(x) for x in arr]), n - 1, sfr(Fr(K)), ilist(draws))
    return Case(d, [line], [sfr(Fr(got))], None, tag="qsel/n=%d" % n, nontrivial=(n > 1), tol=1e-9)


def evaluate(d):
    k = d["k"]
    if k == "spea2":
        return eval_spea2(d)
    if k in ("nsga3", "nsga3mem"):
        return eval_nsga3(d)
    if k == "niching":
        return eval_niching(d)
    if k == "icpt":
        return eval_icpt(d)
    if k == "assoc":
        return eval_assoc(d)
    if k == "refs":
        return eval_refs(d)
    if k == "qsel":
        return eval_qsel(d)
    raise ValueError(k)


# ----------------------------------------------------------------------------------------------
# generators
# ----------------------------------------------------------------------------------------------

def rand_weights(rng, m):
    kind = rng.random()
    if kind < 0.25:
        return ["-1"] * m
    if kind < 0.4:
        return ["1"] * m
    return [rng.choice(["1", "-1", "1", "-1", "2", "-1/2"]) for _ in range(m)]


def gen_vals(rng, n, m, shape, integer=True):
    """raw fitness values of n individuals with m objectives."""
    def num(lo, hi):
        return rng.randint(lo, hi) if integer else rng.choice([rng.randint(lo, hi), rng.uniform(lo, hi), rng.randint(2 * lo, 2 * hi) / 2.0])
    if shape == "single":
        v = [num(0, 4) for _ in range(m)]
        return [list(v) for _ in range(n)]
    if shape == "grid":
        hi = rng.choice([1, 2, 3])
        return [[rng.randint(0, hi) for _ in range(m)] for _ in range(n)]
    if shape == "collinear":       # points on one line: a + t*dvec (mutually non-dominated or a chain)
        a = [rng.randint(0, 3) for _ in range(m)]
        dv = [rng.choice([-1, 0, 1, 1, -1, 2]) for _ in range(m)]
        return [[a[j] + t * dv[j] for j in range(m)] for t in [rng.randint(0, 5) for _ in range(n)]]
    if shape == "chain":           # totally ordered: every individual its own front (with duplicates)
        ts = [rng.randint(0, max(1, n - 2)) for _ in range(n)]
        return [[t for _ in range(m)] for t in ts]
    if shape == "twolevel":        # one non-dominated front plus a dominated copy of it
        half = max(1, n // 2)
        s = rng.randint(2, 6)
        front = []
        for _ in range(half):
            cut = sorted(rng.randint(0, s) for _ in range(m - 1))
            front.append([b - a for a, b in zip([0] + cut, cut + [s])])
        sign = 1
        return front + [[x + sign * rng.randint(1, 2) for x in rng.choice(front)] for _ in range(n - half)]
    if shape == "simplex":         # all on the plane sum = s: mutually non-dominated when weights agree
        s = rng.randint(2, 8)
        out = []
        for _ in range(n):
            cut = sorted(rng.randint(0, s) for _ in range(m - 1))
            out.append([b - a for a, b in zip([0] + cut, cut + [s])])
        return out
    # "random"
    return [[num(-4, 9) for _ in range(m)] for _ in range(n)]


SHAPES = ["grid", "random", "single", "collinear", "chain", "twolevel", "simplex"]


def gen_spea2(rng, nmax=14):
    n = rng.randint(1, nmax)
    m = rng.randint(2, 5) if rng.random() < 0.9 else 1
    shape = rng.choice(SHAPES)
    w = rand_weights(rng, m)
    vals = gen_vals(rng, n, m, shape)
    r = rng.random()
    if r < 0.15:
        k = n
    elif r < 0.25:
        k = 1
    elif r < 0.45:
        # aim at the boundary #nd = k, k +- 1
        wv = [tuple(Fr(x) * Fr(ww) for x, ww in zip(v, w)) for v in vals]
        nd = sum(1 for i in range(n) if not any(dominates(wv[j], wv[i]) for j in range(n)))
        k = min(n, max(1, nd + rng.choice([-1, 0, 1])))
    else:
        k = rng.randint(1, n)
    return {"k": "spea2", "w": w, "vals": vals, "kk": k, "shape": shape, "seed": rng.randrange(1 << 30),
            "geno": gen_geno(rng, n)}


def front_vals(rng, n, w):
    """one non-dominated front (points of a simplex in *minimisation* form, optionally plus a dominated
    layer), converted to raw values for the weights w: raw = -min_form / weight (exact dyadics)."""
    m = len(w)
    s = rng.randint(3, 12)
    pts = []
    for _ in range(n):
        cut = sorted(rng.randint(0, s) for _ in range(m - 1))
        pt = [b - a for a, b in zip([0] + cut, cut + [s])]
        if rng.random() < 0.2:
            pt = [x + rng.randint(1, 3) for x in pt]          # a dominated one
        pts.append(pt)
    return [[float(-Fr(x) / Fr(ww)) for x, ww in zip(pt, w)] for pt in pts]


def asf_vals(rng, n, w):
    """rows hugging the axes with off-axis coordinates of the order 1e-6 (in minimisation form), so that the
    1e6 weight of the achievement scalarising function decides which row is the extreme point."""
    m = len(w)
    pts = []
    for _ in range(n):
        j = rng.randrange(m)
        pts.append([rng.choice([1.0, 2.0, 3.0, 3.5, 4.0, 5.0]) if t == j else rng.randint(0, 6) * 1e-6 * rng.choice([1, 1, 0.1])
                    for t in range(m)])
    return [[-x / float(Fr(ww)) for x, ww in zip(pt, w)] for pt in pts]


def gen_nsga3(rng, nmax=14, mem=False, call="kw"):
    # "prefix": >= 3 objectives, log-time sort, individuals that agree on the first objectives and differ
    # only in later ones (the one-element base case of sortNDHelperB)
    prefix = rng.random() < 0.12
    m = rng.randint(3, 5) if prefix else rng.randint(2, 5)
    w = rand_weights(rng, m)
    if rng.random() < 0.35:
        # at least one maximised objective, non-unit magnitudes likely
        w = [rng.choice(["1", "2", "1/2"]) if rng.random() < 0.5 else rng.choice(["-1", "-2", "-1/2"]) for _ in range(m)]
        if all(x.startswith("-") for x in w):
            w[rng.randrange(m)] = rng.choice(["1", "2", "1/2"])
    p = rng.randint(1, 8 if (m <= 3 or rng.random() < 0.08) else (5 if m == 4 else 4))
    scaling = rng.choice([None, None, "1/2", "1/4", "3/4"])
    nd = "log" if prefix else rng.choice(["log", "standard"])
    shape = rng.choice(SHAPES)
    integer = rng.random() < 0.6

    r0 = rng.random()
    if prefix:
        shape = "prefix"
    elif r0 < 0.3:
        shape = "front"
    elif r0 < 0.38:
        shape = "asf"
    elif r0 < 0.46:
        shape = "tiny"          # a front scaled by 2^-23: intercepts around the 1e-6 guard
    elif r0 < 0.56:
        shape = "offset"        # unit-spaced values sharing a common offset of 1e14..2^50 (all exact doubles)

    def one():
        n = rng.randint(1, nmax)
        if shape == "front":
            n = max(n, 3)
            return front_vals(rng, n, w), rng.randint(1, n - 1)     # the last front has to be cut
        if shape == "prefix":
            n = max(n, 3)
            heads = [[rng.randint(0, 1) for _ in range(m - 1)] for _ in range(rng.randint(1, 3))]
            vals = [list(rng.choice(heads)) + [rng.randint(0, 3)] for _ in range(n)]
            for v in vals:
                if rng.random() < 0.3:
                    v[rng.randrange(m)] = rng.randint(0, 2)
            return vals, rng.randint(1, n)
        if shape == "asf":
            n = max(n, 3)
            return asf_vals(rng, n, w), rng.randint(1, n)
        if shape == "offset":
            n = max(n, 4)
            offs = [rng.choice([0.0, 1e14, 1e15, 2.0 ** 50, -1e15]) for _ in range(m)]
            if all(o == 0.0 for o in offs):
                offs[rng.randrange(m)] = 1e15
            span = rng.choice([3, 5, 6, 7, 10, 12])
            pts = []
            for _ in range(n):
                cut = sorted(rng.randint(0, span) for _ in range(m - 1))
                pt = [float(b - a) for a, b in zip([0] + cut, cut + [span])]
                if rng.random() < 0.3:
                    pt = [x + rng.randint(0, 2) for x in pt]
                pts.append([x + o for x, o in zip(pt, offs)])
            return [[float(-Fr(x) / Fr(ww)) for x, ww in zip(pt, w)] for pt in pts], rng.randint(1, n)
        if shape == "tiny":
            n = max(n, 3)
            sc = 2.0 ** -rng.choice([23, 23, 22, 24])
            return [[x * sc for x in row] for row in front_vals(rng, n, w)], rng.randint(1, n)
        vals = gen_vals(rng, n, m, shape, integer)
        r = rng.random()
        k = n if r < 0.12 else (1 if r < 0.2 else rng.randint(1, n))
        return vals, k
    d = {"w": w, "p": p, "scaling": scaling, "nd": nd, "shape": shape, "seed": rng.randrange(1 << 30)}
    if mem:
        calls = [one() for _ in range(3)]
        d.update(k="nsga3mem", pops=[c[0] for c in calls], kk=[c[1] for c in calls])
    else:
        vals, k = one()
        d.update(k="nsga3", vals=vals, kk=k, call=call, geno=gen_geno(rng, len(vals)))
        if call == "plain":
            d["nd"] = "log"              # the documented default
    return d


def gen_big(rng, variant):
    """n = 180..220 individuals in many small fronts: every front holds `dup` copies of a point of ray a and
    one point of ray b (minimisation form a_i = (1+i)(1,2), b_i = (1+i)(2,1)), so that after the fully
    selected fronts one niche counts more than 127 members while the other still has a candidate."""
    dup = 2 + variant % 2
    nfr = (134 // dup) + 1 + rng.randint(0, 3)
    heavy_first = variant % 4 < 2
    w = [["-1", "-1"], ["-1", "2"], ["1/2", "-1"], ["1", "1"]][variant % 4]
    pts = []
    for i in range(nfr):
        a = [(1 + i) * 1.0, (1 + i) * 2.0]
        b = [(1 + i) * 2.0, (1 + i) * 1.0]
        if not heavy_first:
            a, b = b, a
        layer = [list(a) for _ in range(dup)] + [list(b)]
        rng.shuffle(layer)
        pts += layer
    order = list(range(len(pts)))
    rng.shuffle(order)
    pts = [pts[i] for i in order]
    vals = [[float(-Fr(x) / Fr(ww)) for x, ww in zip(pt, w)] for pt in pts]
    k = (dup + 1) * (nfr - 1) + rng.randint(1, dup)
    return {"k": "nsga3", "w": w, "p": rng.choice([1, 2, 4]), "scaling": None, "nd": rng.choice(["log", "standard"]),
            "shape": "big", "seed": rng.randrange(1 << 30), "vals": vals, "kk": k, "call": "kw"}


def gen_spea2_absorb(rng):
    """mixed magnitudes: one objective around 1e16..1e18 (ulp >= 2) next to unit-scale objectives, with
    dominated individuals standing BEFORE their dominators, so that any shortcut through sums, norms or
    other aggregates of the weighted values (which absorb the small objective) is visible."""
    m = rng.randint(2, 4)
    w = [rng.choice(["-1", "1", "-1", "2", "-1/2"]) for _ in range(m)]
    big = rng.randrange(m)
    scale = rng.choice([1e16, 1e17, 1e17, 1e18])
    n = rng.randint(3, 9)
    heads = [scale * (1 + rng.randint(0, 3) * 2.0 ** -40) for _ in range(rng.randint(1, 3))]
    pts = []                    # minimisation form
    for _ in range(n):
        pts.append([rng.choice(heads) if t == big else float(rng.randint(0, 4)) for t in range(m)])
    # put dominated ones first (worse = larger in minimisation form): sort descending by the small parts
    if rng.random() < 0.7:
        pts.sort(key=lambda p: [-x for t, x in enumerate(p) if t != big])
    vals = [[float(-Fr(x) / Fr(ww)) for x, ww in zip(pt, w)] for pt in pts]
    wv = [tuple(Fr(x) * Fr(ww) for x, ww in zip(v, w)) for v in vals]
    nd = sum(1 for i in range(n) if not any(dominates(wv[j], wv[i]) for j in range(n)))
    k = min(n, max(1, nd + rng.choice([-1, 0, 0, 1])))
    return {"k": "spea2", "w": w, "vals": vals, "kk": k, "shape": "absorb", "seed": rng.randrange(1 << 30),
            "geno": gen_geno(rng, n)}


HUGE = [1e150, 1e153, 1e154, 1.5e154, 1e155, 1e160, 1e160, 1e170, 1e200, 1e300]


def gen_spea2_huge(rng, variant):
    """extreme magnitudes (finite): objective values j * 1e150 .. j * 1e300 mixed with ordinary ones, so that
    some or all squared distances `val * val` overflow to +inf (a difference beyond ~1.3e154).  Mostly
    mutually non-dominated individuals with k below their number (archive too large), where a surviving row
    whose neighbours are all infinitely far ties with an already removed row."""
    m = rng.randint(2, 4) if variant % 4 != 0 else 2
    w = rand_weights(rng, m)
    n = rng.randint(3, 10)
    scale = rng.choice(HUGE)
    kind = variant % 4
    pts = []                                        # minimisation form
    if kind == 0:                                   # one widely spread front: every distance overflows
        xs = rng.sample(range(0, 3 * n), n)
        pts = [[x * scale, (3 * n - x) * scale] for x in xs]
    elif kind == 1:                                 # clusters of ordinary spacing, infinitely far from each other
        centres = [[float(rng.randint(0, 3)) * scale for _ in range(m)] for _ in range(rng.randint(2, 3))]
        for _ in range(n):
            c = rng.choice(centres)
            cut = sorted(rng.randint(0, 6) for _ in range(m - 1))
            pts.append([cc + float(b - a) for cc, a, b in zip(c, [0] + cut, cut + [6])])
    elif kind == 2:                                 # a simplex front, some individuals / objectives scaled up
        s_ = rng.randint(3, 9)
        big_obj = rng.randrange(m)
        for _ in range(n):
            cut = sorted(rng.randint(0, s_) for _ in range(m - 1))
            pt = [float(b - a) for a, b in zip([0] + cut, cut + [s_])]
            if rng.random() < 0.6:
                pt[big_obj] = -pt[big_obj] * scale if rng.random() < 0.5 else pt[big_obj] * scale
            pts.append(pt)
    else:                                           # random values at several magnitudes, duplicates included
        scales = [rng.choice([1.0, scale, rng.choice(HUGE)]) for _ in range(m)]
        pts = [[float(rng.randint(-4, 9)) * sc for sc in scales] for _ in range(n)]
        if rng.random() < 0.4:
            pts[rng.randrange(n)] = list(pts[rng.randrange(n)])
    order = list(range(len(pts)))
    rng.shuffle(order)
    pts = [pts[i] for i in order]
    vals = [[float(-Fr(x) / Fr(ww)) for x, ww in zip(pt, w)] for pt in pts]
    wv = [tuple(Fr(x) * Fr(ww) for x, ww in zip(v, w)) for v in vals]
    nd = sum(1 for i in range(n) if not any(dominates(wv[j], wv[i]) for j in range(n)))
    r = rng.random()
    if nd > 1 and r < 0.7:
        k = rng.randint(1, nd - 1)                  # archive too large
    elif r < 0.85:
        k = min(n, max(1, nd + rng.choice([0, 1, 2])))
    else:
        k = rng.randint(1, n)
    return {"k": "spea2", "w": w, "vals": vals, "kk": k, "shape": "huge", "seed": rng.randrange(1 << 30),
            "geno": gen_geno(rng, n)}


def gen_wide(rng, direct):
    """many individuals x many reference points (n * M * |refs| well above 2^20): 5 objectives, p = 8
    (495 directions), 430..470 individuals spread over the directions."""
    M, p = 5, 8
    n = rng.randint(430, 470)
    pts = []
    for _ in range(n):
        cut = sorted(rng.randint(0, 8) for _ in range(M - 1))
        pt = [(b - a) / 8.0 for a, b in zip([0] + cut, cut + [8])]
        if rng.random() < 0.3:
            pt = [x + rng.randint(0, 2) / 64.0 for x in pt]
        pts.append(pt)
    if direct:
        return {"k": "assoc", "M": M, "p": p, "scaling": None, "fits": pts, "best": [0.0] * M, "intercepts": [1.0] * M,
                "shape": "wide"}
    w = [rng.choice(["-1", "2", "-1/2", "1"]) for _ in range(M)]
    vals = [[float(-Fr(x) / Fr(ww)) for x, ww in zip(pt, w)] for pt in pts]
    return {"k": "nsga3", "w": w, "p": p, "scaling": None, "nd": rng.choice(["log", "standard"]), "shape": "wide",
            "seed": rng.randrange(1 << 30), "vals": vals, "kk": rng.randint(n - 6, n - 1), "call": "plain_nd"}


def gen_loggrid(rng, v):
    """200..300 individuals with far more than 128 distinct fitnesses on a coarse grid (many tied objective
    values), 3..5 objectives, log-time sort: the recursive helpers A/B and both sweeps are all exercised."""
    M = 3 + v % 3
    levels = rng.choice([6, 7, 8])
    n = rng.randint(200, 300)
    w = [rng.choice(["-1", "-1", "1", "2", "-1/2"]) for _ in range(M)]
    pts = [[float(rng.randrange(levels)) for _ in range(M)] for _ in range(n)]
    vals = [[float(-Fr(x) / Fr(ww)) for x, ww in zip(pt, w)] for pt in pts]
    return {"k": "nsga3", "w": w, "p": rng.choice([2, 3, 4]), "scaling": None, "nd": "log", "shape": "loggrid",
            "seed": rng.randrange(1 << 30), "vals": vals, "kk": rng.randint(n // 4, (2 * n) // 3), "call": "plain"}


def gen_icpt(rng, shape):
    M = 2 if shape in ("ill", "ill2") else rng.randint(2, 4)
    best = [float(rng.randint(-2, 3)) for _ in range(M)]
    if shape == "ok":
        A = [[float(rng.randint(3, 6)) if i == j else float(rng.randint(0, 1)) for j in range(M)] for i in range(M)]
    elif shape == "sing":
        row = [float(rng.randint(1, 4)) for _ in range(M)]
        A = [[x * (i + 1) for x in row] for i in range(M)]
    elif shape == "zero":
        A = [[1.0 if (j == 0 or j == i) else 0.0 for j in range(M)] for i in range(M)]     # x = (1, 0, ..., 0)
    elif shape == "tiny":
        A = [[rng.choice([1e-7, 5e-7, 2e-6]) if i == j else 0.0 for j in range(M)] for i in range(M)]
    elif shape == "ill":
        e = 2.0 ** -rng.choice([50, 51, 49, 44])
        s1 = float(rng.randint(1, 3))
        A = [[s1, s1], [2 * s1, 2 * s1 * (1 + e)]]          # nearly parallel, inconsistent right-hand side
    elif shape == "ill2":
        e = 2.0 ** -rng.choice([40, 45, 50])
        A = [[1.0 + e, 1.0], [3.0, 3.0 + 7 * e]]
    elif shape == "resid":
        # a well-conditioned system whose `solve` answer is perturbed by the harness (see eval_icpt): the
        # contract A.x = b is missed by a relative 3e-5 / 1e-3 (rejected by allclose) or 3e-6 (accepted)
        A = [[float(rng.randint(3, 6)) if i == j else float(rng.randint(0, 1)) for j in range(M)] for i in range(M)]
    else:   # "exceeds": the hyperplane leaves the box of the worst point
        A = [[float(rng.randint(3, 6)) if i == j else 0.0 for j in range(M)] for i in range(M)]
    extreme = [[a + b for a, b in zip(row, best)] for row in A]
    hi = [max(r[j] for r in extreme) for j in range(M)]
    worst = [h + (0.0 if shape == "exceeds" and rng.random() < 0.7 else rng.choice([0.0, 1.0, 50.0])) - (1.0 if shape == "exceeds" else 0.0)
             for h in hi]
    fw = [h + rng.choice([0.0, 0.5]) for h in hi]
    if shape == "resid":
        worst = [h + 50.0 for h in hi]
        return {"k": "icpt", "shape": shape, "extreme": extreme, "best": best, "worst": worst, "fw": fw,
                "perturb": rng.choice([3e-5, -3e-5, 1e-3, 3e-6])}
    return {"k": "icpt", "shape": shape, "extreme": extreme, "best": best, "worst": worst, "fw": fw}


def gen_niching(rng):
    L = rng.randint(1, 14)
    nref = rng.randint(1, 8)
    shape = rng.choice(["few", "spread", "onezero", "ties"])
    if shape == "few":
        used = rng.sample(range(nref), min(nref, rng.randint(1, 2)))
    else:
        used = list(range(nref))
    niches = [rng.choice(used) for _ in range(L)]
    if shape == "ties":
        dist = [rng.randint(0, 2) / 2.0 for _ in range(L)]
    else:
        dist = [rng.choice([rng.random(), rng.randint(0, 4) / 4.0]) for _ in range(L)]
    if shape == "onezero":
        counts = [0] * nref
    else:
        counts = [rng.choice([0, 0, 1, 1, 2, 3]) for _ in range(nref)]
    r = rng.random()
    k = L if r < 0.15 else (0 if r < 0.2 else rng.randint(1, L))
    return {"k": "niching", "L": L, "kk": k, "nref": nref, "niches": niches, "dist": dist, "counts": counts,
            "shape": shape, "seed": rng.randrange(1 << 30)}


def gen_assoc(rng):
    M = rng.randint(2, 6)
    p = rng.randint(1, 8 if M <= 3 else (4 if M <= 5 else 3))
    scaling = rng.choice([None, "1/2", "1/3", "3/4"])
    n = rng.randint(1, 8)
    kind = rng.choice(["unit", "shifted", "onaxis", "int"])
    if kind == "unit":
        best, inter = [0.0] * M, [1.0] * M
        fits = [[rng.random() for _ in range(M)] for _ in range(n)]
    elif kind == "shifted":
        best = [rng.uniform(-2, 2) for _ in range(M)]
        inter = [b + rng.uniform(0.5, 3) for b in best]
        fits = [[b + rng.uniform(0, 3) for b in best] for _ in range(n)]
    elif kind == "onaxis":
        best, inter = [0.0] * M, [1.0] * M
        fits = []
        for _ in range(n):
            j = rng.randrange(M)
            fits.append([rng.choice([0.0, 1.0, 0.5]) if t == j else 0.0 for t in range(M)])
    else:
        best = [float(rng.randint(-1, 1)) for _ in range(M)]
        inter = [b + rng.randint(1, 3) for b in best]
        fits = [[b + rng.randint(0, 3) for b in best] for _ in range(n)]
    return {"k": "assoc", "M": M, "p": p, "scaling": scaling, "fits": fits, "best": best, "intercepts": inter}


def gen_qsel(rng):
    n = rng.randint(1, 14)
    hi = rng.choice([1, 3, 20])
    arr = [rng.randint(0, hi) for _ in range(n)]
    if rng.random() < 0.4:
        t = rng.randrange(n)
        arr = [0] * (t + 1) + arr[t + 1:]        # as in selSPEA2: entries j <= i stay 0.0
    return {"k": "qsel", "arr": arr, "seed": rng.randrange(1 << 30)}


def generate(tier, rng, mult):
    thorough = tier == "thorough"
    # reference points: the whole stated range, scalings away from the fixed point 1/2
    for M in range(1, 7):
        for p in range(1, 9):
            for sc in (None, "1/2", "1/4", "3/4", "1/3") + (("1", "1/8") if thorough else ()):
                if math.comb(M + p - 1, p) <= (1300 if thorough else (500 if sc in (None, "1/2") else 130)):
                    yield {"k": "refs", "M": M, "p": p, "scaling": sc}
    # large populations in many small fronts (niche counts beyond 127)
    for v in range(8 if thorough else 4):
        yield gen_big(rng, v)
    # many individuals x many reference points; > 128 distinct fitnesses through the log-time sort
    yield gen_wide(rng, direct=True)
    yield gen_wide(rng, direct=False)
    for v in range(9 if thorough else 4):
        yield gen_loggrid(rng, v)
    # find_intercepts on its own: every branch incl. the failing allclose test
    for shape in ("ok", "sing", "zero", "tiny", "ill", "ill2", "resid", "exceeds"):
        for _ in range(40 if thorough else 8):
            yield gen_icpt(rng, shape)
    # SPEA2 exhaustive tiny populations
    for m in (1, 2):
        for n in range(1, 5 if thorough else 4):
            for vals in itertools.product(itertools.product([0, 1], repeat=m), repeat=n):
                for k in range(1, n + 1):
                    for w in (["-1"] * m, ["1", "-1"][:m]):
                        yield {"k": "spea2", "w": w, "vals": [list(v) for v in vals], "kk": k, "shape": "tiny", "seed": 1}
    # SPEA2 at extreme magnitudes: squared distances that overflow to +inf (to_remove may repeat position 0)
    for v in range(400 if thorough else 80):
        yield gen_spea2_huge(rng, v)
    base_n = (50000 if thorough else 1500) * mult
    for t in range(base_n):
        yield gen_nsga3(rng, mem=False, call=("kw", "plain", "nd")[t % 3])
        if t % 4 == 0:
            yield gen_nsga3(rng, mem=True)
        yield gen_spea2(rng)
        if t % 5 == 0:
            yield gen_spea2_absorb(rng)
        if t % 5 == 1:
            yield gen_spea2_huge(rng, t // 5)
        yield gen_niching(rng)
        if t % 2 == 0:
            yield gen_assoc(rng)
        if t % 3 == 0:
            yield gen_qsel(rng)


# ----------------------------------------------------------------------------------------------
# shrinking
# ----------------------------------------------------------------------------------------------

def shrink(d):
    k = d["k"]
    if k in ("spea2", "nsga3"):
        vals = d["vals"]
        for i in range(len(vals)):
            if len(vals) > 1:
                e = dict(d)
                e["vals"] = vals[:i] + vals[i + 1:]
                if d.get("geno") and len(d["geno"]) == len(vals):
                    e["geno"] = d["geno"][:i] + d["geno"][i + 1:]
                e["kk"] = max(1, min(d["kk"], len(e["vals"])))
                yield e
        if d["kk"] > 1:
            e = dict(d)
            e["kk"] = d["kk"] - 1
            yield e
        m = len(d["w"])
        if m > 2:
            for j in range(m):
                e = dict(d)
                e["w"] = d["w"][:j] + d["w"][j + 1:]
                e["vals"] = [v[:j] + v[j + 1:] for v in vals]
                yield e
        if k == "nsga3" and d["p"] > 1:
            e = dict(d)
            e["p"] = d["p"] - 1
            yield e
        for i, v in enumerate(vals):
            for j, x in enumerate(v):
                if x not in (0, 1):
                    e = dict(d)
                    e["vals"] = [list(r) for r in vals]
                    e["vals"][i][j] = 0 if x < 0.5 else 1
                    yield e
    elif k == "nsga3mem":
        if len(d["pops"]) > 1:
            for i in range(len(d["pops"])):
                e = dict(d)
                e["pops"] = d["pops"][:i] + d["pops"][i + 1:]
                e["kk"] = d["kk"][:i] + d["kk"][i + 1:]
                yield e
        for c, vals in enumerate(d["pops"]):
            if len(vals) > 1:
                for i in range(len(vals)):
                    e = dict(d)
                    e["pops"] = [list(p) for p in d["pops"]]
                    e["pops"][c] = vals[:i] + vals[i + 1:]
                    e["kk"] = list(d["kk"])
                    e["kk"][c] = max(1, min(d["kk"][c], len(vals) - 1))
                    yield e
    elif k == "niching":
        L = d["L"]
        for i in range(L):
            if L > 1:
                e = dict(d)
                e["L"] = L - 1
                e["niches"] = d["niches"][:i] + d["niches"][i + 1:]
                e["dist"] = d["dist"][:i] + d["dist"][i + 1:]
                e["kk"] = min(d["kk"], L - 1)
                yield e
        if d["kk"] > 1:
            e = dict(d)
            e["kk"] = d["kk"] - 1
            yield e
    elif k == "assoc":
        for i in range(len(d["fits"])):
            if len(d["fits"]) > 1:
                e = dict(d)
                e["fits"] = d["fits"][:i] + d["fits"][i + 1:]
                yield e
        if d["p"] > 1:
            e = dict(d)
            e["p"] = d["p"] - 1
            yield e
    elif k == "refs":
        if d["p"] > 1:
            e = dict(d)
            e["p"] = d["p"] - 1
            yield e
        if d["M"] > 1:
            e = dict(d)
            e["M"] = d["M"] - 1
            yield e


def classify(desc, msg, known):
    return None
