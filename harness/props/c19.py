"""C19 — Penalty decorators leave feasible fitness intact and never reward infeasibility
(deap/tools/constraint.py)."""
import array
import copy
import functools
import itertools
import re
import warnings
import zlib

import numpy
from fractions import Fraction as Fr

from lib import Case
from deap import base
from deap import creator
from deap.tools import constraint

ANCHORS = [("deap/tools/constraint.py", ["DeltaPenalty", "ClosestValidPenalty"])]
LEVEL = "proof"
RULE = ("exhaustive: every weight-sign pattern in {+,-,0}^n for n=1..4 (random magnitudes) x {DeltaPenalty, "
        "ClosestValidPenalty} x scalar/per-objective delta x absent/scalar/vector distance, infeasible and feasible, "
        "random dyadic values; representations (first stream): vectors handed over as tuple / list / numpy.ndarray / array.array / range "
        "and scalars as int / float / numpy.float64 for delta x distance x both decorators, feasibility returned as bool / "
        "numpy.bool_ / int / any truthy-falsy object; near-tie weights (+-5e-324, +0.0, -0.0); exact numbers: DeltaPenalty with Python int constants / distances "
        "beyond 2**53 and Fractions (scalar/vector x absent/int/Fraction distance), compared exactly; wrapped functions: the function handed to the decorator "
        "is a functools.wraps wrapper around a different bare function / a partial / a callable object / a function with "
        "cache-style attributes x both decorators; keyword names: every "
        "extra keyword named like an internal identifier (func, self, f_ind, alpha, ...) x both decorators x feasible/infeasible; "
        "sequences: 2-5 calls through ONE decorator object decorating 1-3 different functions "
        "(wrappers called in any and in every order), individuals of different fitness classes (sign pattern, number of "
        "objectives), feasible/infeasible mixed, different extras, individuals carrying a stale stored fitness, closest "
        "points made as repaired deepcopy clones carrying a fitness, re-evaluation of the same individual with other extras "
        "after storing its result; every call compared with the stateless model and checked by the oracle; random: n<=6, extra positional/keyword arguments, closest point identical to the "
        "individual, mis-sized vectors (zip truncation / IndexError guard; model comparison only). "
        "Round 7 (in the first block): FAMILIES - histories over a family of related fitness classes created for the case (parent / overriding child / "
        "inheriting child, grandchildren, siblings plus an unrelated class; class statement or creator.create) x decorator setups (one DeltaPenalty, one "
        "ClosestValidPenalty, two objects of one class, one of each; every object decorates the same 1-2 functions) x every order of first use of the classes, "
        "then random trees of 2-6 classes (a derived class may change the number of objectives) with 2-8 calls; the model resolves the weights from the class table. "
        "KEYWORD NAMES - 75 names (every parameter / local / attribute name of constraint.py's wrappers, typical option names: verbose, debug, ...) x both decorators "
        "x feasible/infeasible, the undecorated function's VALUE depends on its keyword options; the name `individual` (the wrappers' own positional parameter) is "
        "judged against the undecorated function called the same way (both raise TypeError). FIXED WIDTH - distances as numpy int8/16/32/64, uint8/16/32/64 "
        "scalars and arrays x constants (alpha) as Python int / float / numpy same type / numpy.int64 / numpy.float64 / numpy array / numpy constant with a Python-int "
        "distance x magnitudes small / half range / edge of the range / constant beyond the range, both decorators (where doubles do the arithmetic: below 2**44). "
        "Non-trivial = distinct infeasible case, or feasible case with a distance function or extras")
EXHAUSTIVE = {"quick": False, "thorough": False}
TIME_BUDGET = {"quick": 60, "thorough": 900}
TRUSTED = ["IEEE-754: sums and products of the small dyadic inputs used here are exact, so the Rat model and the "
           "float implementation compute the same numbers",
           "CPython zip / itertools.repeat / isinstance(_, Sequence) (modelled by SV.upTo and zip3With in "
           "Core/Penalty.lean, exercised by every line)",
           "translator tie: the rendering rules stated in the docstrings of harness/py2lean_c01.py (expressions, statements, the paragraph `C19 wrapper "
           "shape`) and harness/props/c19_translate.py (the closure is one definition; self.fbty_fct / delta / dist_fct / fbl_fct / alpha and func are "
           "parameters typed by a table; numbers are one scalar type; a call of func is recorded in the call log; `number or vector` and `repeat(c)` are "
           "both Penalty.SV; `if not _is_vector(v): v = repeat(v)` re-types v; an SV operand of zip is cut to the length of the finite operands; "
           "individual.fitness.weights = weights individual) and the prelude Core/GenPreludeC01.lean (zip3). PROPERTY-LEVEL QUANTITIES ONLY: "
           "functools.wraps, the closure cell mechanics, __init__'s wrapping of delta, and iterator state are not rendered"]
ASSUMPTIONS = ["distances and alpha are non-negative finite numbers; constants, weights and fitness values are finite "
               "numbers (no NaN/inf); the distance function returns a number or a vector (a Sequence or a numpy array)",
               "a zero weight is treated by the code as +1; the statement names no worse direction for it, so the "
               "oracle accepts either direction there while the model follows the code",
               "the evaluation functions of the harness name their first parameter `individual`, like the wrappers do: a keyword "
               "of that name is a TypeError with and without decorator",
               "inputs of the known finding F36 (DeltaPenalty, numpy fixed-width integer arithmetic that wraps or is refused by "
               "numpy) are judged by the oracle alone; the model computes in exact numbers and gets no line for them"]
EXPLANATION = ("Theorems C19.* are proved for every linearly ordered ring, every number of objectives and all "
               "feasibility/distance/closest/evaluation functions; the correspondence ties Core/Penalty.lean to "
               "deap.tools.constraint on exactly-representable inputs, including the call log of the wrapped function. "
               "The model decorator is a Lean function of (feasibility, constants, distance, weights of THIS individual, "
               "evaluation function, extras) and of nothing else. C19.decorators_stateless and C19.wrappers_independent are "
               "congruence facts that hold of any Lean function; they only spell out which inputs the model has. That the "
               "IMPLEMENTATION has no other inputs is not proved but TESTED by the sequence streams: every call of a call "
               "sequence through one decorator object (several decorated functions, any order, stale stored fitnesses, "
               "re-evaluation) is compared with the model on its own, so a dependence on earlier calls, on other functions "
               "decorated by the same object or on fitness values stored on the objects is a disagreement and an oracle failure. "
               "C19.penalty_class_isolation (+ _own_weights, _inherits, _later_classes, penalty_history_independent) state that the model's outcome "
               "depends on the world of fitness classes only through the weights the individual's OWN class resolves to (C01's FitClass model); the "
               "family streams test that the implementation has no other per-class input (a value cached on a fitness class and found through "
               "inheritance, seeded change C19-r7m2, is a disagreement and an oracle failure). C19.feasible_passthrough_kwargs states that the whole "
               "keyword map arrives; the keyword-name stream tests it for every identifier the wrappers use themselves. "
               "Translator tie: on every run the two wrapper bodies of deap/tools/constraint.py are re-read and regenerated as Gen19.DeltaPenalty_wrapper / "
               "Gen19.ClosestValidPenalty_wrapper (harness/props/c19_translate.py); the committed theorems of lean/DeapModel/GenEq/C19.lean.tmpl (each "
               "generated definition = Penalty.deltaPenalty / closestValidPenalty: fitness AND call log, at every scalar type) are re-checked by the kernel.")


def translate(repo):
    """translator tie (lib._translated_obligations): the two wrapper bodies regenerated from `repo`'s current
    deap/tools/constraint.py + the committed theorems of lean/DeapModel/GenEq/C19.lean.tmpl"""
    from props import c19_translate
    import json
    import os
    import lib
    tr = c19_translate.translate(repo)
    try:
        os.makedirs(os.path.join(lib.OUT, "evidence"), exist_ok=True)
        with open(os.path.join(lib.OUT, "evidence", "C19.translated.json"), "w") as fh:
            json.dump({"definitions": len(tr["definitions"]), "theorems": len(tr["theorems"]),
                       "refused": len(tr["refused"]), "problems": tr["problems"],
                       "functions": [dict(name=n, status=st, detail=d) for n, st, d in tr["table"]],
                       "theorem_names": tr["theorems"]}, fh, indent=1)
            fh.write("\n")
    except OSError:
        pass
    return tr


def frn(v):
    """exact value of a number the implementation returned (a Fraction built from a numpy integer would keep
    computing in that integer's width)"""
    if isinstance(v, numpy.integer):
        return Fr(int(v))
    if isinstance(v, numpy.floating):
        return Fr(float(v))
    return Fr(v)


def sfr(q):
    q = Fr(q)
    return str(q.numerator) if q.denominator == 1 else "%d/%d" % (q.numerator, q.denominator)


def slist(xs):
    xs = list(xs)
    return ",".join(sfr(x) for x in xs) if xs else "-"


def num(q):
    """the float with exactly this value"""
    q = Fr(q)
    f = float(q)
    assert Fr(f) == q, q
    return f


def sv_tok(v):
    if v is None:
        return "none"
    if "s" in v:
        return "s:" + sfr(Fr(v["s"]))
    return "v:" + slist(Fr(x) for x in v["v"])


NPI_REPS = ["int8", "int16", "int32", "int64", "uint8", "uint16", "uint32", "uint64"]
VEC_REPS = ["tuple", "list", "ndarray", "array", "range"]
SCA_REPS = ["int", "float", "float64"]


def sv_py(v, ints, seqtype, rep=None):
    """the Python object for a scalar-or-vector description.  rep: how a vector is handed over (tuple, list,
    numpy.ndarray, array.array, range when the values allow it) / how a scalar is (int when integral, float,
    numpy.float64); default: tuple/list and int/float as `ints`/`seqtype` say."""
    conv = (lambda q: int(Fr(q)) if ints and Fr(q).denominator == 1 else num(q))
    exact = (lambda q: int(Fr(q)) if Fr(q).denominator == 1 else Fr(q))      # Python int / Fraction: exact arithmetic
    if rep in ("pyint", "fraction"):
        one = exact if rep == "pyint" else (lambda q: Fr(q))
        return one(v["s"]) if "s" in v else tuple(one(x) for x in v["v"])
    if rep in NPI_REPS:
        ty = getattr(numpy, rep)
        return ty(int(Fr(v["s"]))) if "s" in v else numpy.array([int(Fr(x)) for x in v["v"]], dtype=ty)
    if "s" in v:
        if rep == "float64":
            return numpy.float64(num(v["s"]))
        if rep == "float":
            return num(v["s"])
        if rep == "int" and Fr(v["s"]).denominator == 1:
            return int(Fr(v["s"]))
        return conv(v["s"])
    vals = [Fr(x) for x in v["v"]]
    if rep == "ndarray":
        return numpy.array([num(x) for x in vals], dtype=float)
    if rep == "array":
        return array.array("d", [num(x) for x in vals])
    if rep == "range" and len(vals) >= 1 and all(x.denominator == 1 for x in vals):
        step = int(vals[1] - vals[0]) if len(vals) > 1 else 1
        if step != 0 and all(vals[i + 1] - vals[i] == step for i in range(len(vals) - 1)):
            r = range(int(vals[0]), int(vals[0]) + step * len(vals), step)
            assert [Fr(x) for x in r] == vals
            return r
    if rep == "list":
        return [conv(x) for x in vals]
    if rep == "tuple":
        return tuple(conv(x) for x in vals)
    return seqtype(conv(x) for x in vals)


def sv_at(v, i, n):
    """i-th item the code can zip out of the value (None when there is none)"""
    if v is None:
        return Fr(0)
    if "s" in v:
        return Fr(v["s"])
    return Fr(v["v"][i]) if i < len(v["v"]) else None


def sv_add(v, inc):
    if "s" in v:
        return {"s": sfr(Fr(v["s"]) + Fr(inc[0]))}
    return {"v": [sfr(Fr(x) + Fr(inc[i % len(inc)])) for i, x in enumerate(v["v"])]}


def well_sized(v, n):
    return v is None or "s" in v or len(v["v"]) == n


class Ind(list):
    pass


_fit_classes = {}


def fit_class(ws):
    key = tuple(repr(w) for w in ws)          # -0.0 and 0.0 are different fitness classes
    if key not in _fit_classes:
        _fit_classes[key] = type("Fit", (base.Fitness,), {"weights": tuple(ws)})
    return _fit_classes[key]


def tag_of(args, kwargs):
    t = "p" + "_".join(str(a) for a in args) + "k" + "_".join("%s=%s" % (k, kwargs[k]) for k in sorted(kwargs))
    return t


def worse_ok(w, pen, base_v, move):
    """pen is base moved by `move` (>= 0) in the direction that is worse for weight w"""
    if w > 0:
        return pen == base_v - move
    if w < 0:
        return pen == base_v + move
    return pen == base_v - move or pen == base_v + move


_GID = itertools.count(1)


def gkey(individual):
    """the evaluation function is a function of the GENOTYPE (not of the object): a wrapper that memoises by
    genotype is legitimate"""
    return tuple(individual)


class Call(object):
    """one call of the decorated function: its individual, closest point, tables and extras"""

    def __init__(self, d, kind, earlier=(), fam=None):
        self.d = d
        reuse = d.get("reuse")
        if reuse is not None and 0 <= reuse < len(earlier):
            # the SAME individual is evaluated again (with this call's own extras): weights and tables stay
            src = earlier[reuse].d
            d = dict(d, w=src["w"], f0=src["f0"], fc=src.get("fc", src["f0"]), cid=src.get("cid", 1),
                     ints=src.get("ints"))
            self.d = d
        self.ws = [Fr(x) for x in d["w"]]
        self.n = len(self.ws)
        self.ints = bool(d.get("ints"))
        self.seqtype = list if d.get("lists") else tuple
        wpy = tuple(-0.0 if ws_ == "-0.0" else (int(w) if self.ints and w.denominator == 1 else num(w))
                    for w, ws_ in zip(self.ws, d["w"]))
        if reuse is not None and 0 <= reuse < len(earlier):
            self.x = earlier[reuse].x
        else:
            self.x = Ind([next(_GID), 1, 7])        # every individual has its own genotype
            if fam is not None and "cls" in d:
                self.x.fitness = fam[d["cls"]]()         # a member of this case's family of related fitness classes
                assert [Fr(w) for w in self.x.fitness.weights] == self.ws
            else:
                self.x.fitness = fit_class(wpy)()
        cid = d.get("cid", 1)
        self.c = self.x if (kind == "closest" and cid == 0) else Ind([self.x[0], 0, 7])
        self.f0 = [Fr(v) for v in d["f0"]]
        self.fc = self.f0 if self.c is self.x else [Fr(v) for v in d.get("fc", d["f0"])]
        self.feas = bool(d["feas"])
        self.shift = Fr(d.get("shift", "0"))
        self.args = list(d.get("args", []))
        self.kwargs = dict(d.get("kwargs", {}))
        self.shift_mode = d.get("shift_mode", "pos")       # pos | kw | absent
        if self.shift_mode == "absent":
            self.shift, self.args = Fr(0), []
        if self.shift_mode == "kw":
            self.args = []
        self.dist = d.get("dist")
        self.inc = [Fr(v) for v in d.get("inc", ["1"])]
        self.round = 0
        self.fi = d.get("fi", 0)                 # which of the decorated functions is called
        self.di = d.get("di", 0)                 # through which of the decorator objects
        self.xfit = d.get("xfit")                # a (stale) fitness stored on the individual before the call
        self.cfit = d.get("cfit")                # a (stale) fitness stored on the closest point
        self.store = bool(d.get("store"))        # the result is stored as the individual's fitness afterwards
        # how the closest-point function makes its result: plain (an object without fitness), clone (deepcopy of
        # the individual, carrying whatever fitness it has), cstale (clone with its own stored fitness), fresh
        # (clone with the fitness deleted)
        self.cmode = "self" if self.c is self.x else d.get("cmode", "plain")

    def cur_dist(self):
        return self.dist if self.round == 0 else sv_add(self.dist, self.inc)


F36 = "F36-delta-penalty-fixed-width-distance"
F36_MARK = "[F36 numpy fixed-width integer arithmetic]"
_OOB = re.compile(r"Python integer (-?\d+) out of bounds for (u?int\d+)")


def kw_bonus(kw):
    """what the undecorated evaluation functions of this harness add to every objective for their keyword options:
    an evaluation function's result DEPENDS on its options, so an option that does not arrive changes the value"""
    return Fr(sum(v * (1 + zlib.crc32(name.encode()) % 5) for name, v in kw.items()
                  if isinstance(v, int) and not isinstance(v, bool)))


def make_family(classes):
    """a family of fitness classes, made afresh for this case: `p` = index of the concrete fitness class it derives
    from (None = base.Fitness), `w` = the weights entry of its own class body (None = inherited), `via` = class
    statement / type() or creator.create"""
    fam = []
    for i, cl in enumerate(classes):
        parent = base.Fitness if cl.get("p") is None else fam[cl["p"]]
        ns = {}
        if cl.get("w") is not None:
            ns["weights"] = tuple(int(Fr(w)) if cl.get("ints") and Fr(w).denominator == 1 else num(w) for w in cl["w"])
        if cl.get("via") == "creator" or type(parent) is not type:
            # (a class made by creator.create has creator's metaclass: only creator.create can derive from it)
            name = "C19Fam_%d_%d" % (next(_GID), i)
            creator.create(name, parent, **ns)
            fam.append(getattr(creator, name))
            delattr(creator, name)
        else:
            fam.append(type("FamFit%d" % i, (parent,), ns))
    return fam


def resolved(classes, c):
    """the weights class `c` resolves to (its own entry, else its parent's, ...)"""
    while c is not None:
        if classes[c].get("w") is not None:
            return list(classes[c]["w"])
        c = classes[c].get("p")
    return None


def evaluate(d):
    """A SEQUENCE of calls (a single call for the kinds `delta` / `closest`) of decorated functions: one or several
    decorator objects (of one or both decorator classes), each decorating every one of 1-3 evaluation functions, called
    on individuals whose fitness classes are independent classes or (kind `fam`) members of ONE family of related
    classes created for this case.  The model decorator is a pure function of its arguments, so every call is sent to
    the model on its own; any dependence of the implementation on earlier calls, on other objects of the decorator's
    class or on what other fitness classes went through a decorator before shows up as a disagreement and as an
    oracle failure."""
    if d["k"] in ("seq", "fam"):
        call_descs = d["calls"]
        decos = d.get("decos")
        if decos is None:
            decos = [dict((key, d[key]) for key in ("delta", "delta_rep", "alpha", "alias", "ints", "lists") if key in d)]
            decos[0]["kind"] = d["deco"]
            decos[0]["has_dist"] = d["has_dist"]
    else:
        call_descs = [d]
        decos = [dict((key, d[key]) for key in ("delta", "delta_rep", "alpha", "alias", "ints", "lists") if key in d)]
        decos[0]["kind"] = d["k"]
        decos[0]["has_dist"] = d["has_dist"] if "has_dist" in d else (d.get("dist") is not None)
    classes = d.get("classes")
    fam = make_family(classes) if classes else None
    fam_tok = None
    if classes:
        fam_tok = ";".join("%s:%s" % ("b" if cl.get("p") is None else cl["p"],
                                      "none" if cl.get("w") is None else slist(Fr(w) for w in cl["w"])) for cl in classes)
    deco_of = lambda cd: decos[cd.get("di", 0) % len(decos)]
    cs = []
    for cd in call_descs:
        if classes and "cls" in cd:
            cd = dict(cd, w=resolved(classes, cd["cls"]), ints=classes[cd["cls"]].get("ints"))
        cs.append(Call(cd, deco_of(cd)["kind"], cs, fam))
    nf = max(1, int(d.get("nfuncs", 1)))
    foff = [Fr(v) for v in d.get("foff", [])] + [Fr(0)] * nf
    keep = []
    table = {}                  # genotype -> fitness table of the undecorated functions
    for c in cs:
        table[gkey(c.x)] = c.f0
        if c.c is not c.x:
            table[gkey(c.c)] = c.fc
    state = {"cur": None}
    calls, feas_calls, feas_extra = [], [], []

    fwrap = d.get("fwrap")

    def make_func(j):
        """the evaluation function handed to the decorator: a plain function, or (fwrap) what a user's own
        decorator stack produces - a functools.wraps wrapper whose `__wrapped__` is a DIFFERENT function, a
        functools.partial, a callable object, an lru_cache-like wrapper with attributes"""
        def value(individual, shift, kw, poison=0):
            cur = state["cur"]
            return cur.seqtype(num(v + Fr(shift) + foff[j] + kw_bonus(kw) + poison) for v in table[gkey(individual)])

        def func(individual, shift=0, *a, **kw):
            calls.append((individual, shift, a, kw, j))
            return value(individual, shift, kw)
        func.__name__ = "func%d" % j
        if fwrap == "wraps":
            def raw(individual, shift=0, *a, **kw):          # the bare objective the user wrapped: another function
                calls.append((individual, shift, a, kw, "raw%d" % j))
                return value(individual, shift, kw, 4096)
            outer = functools.wraps(raw)(func)               # sets outer.__wrapped__ = raw
            return outer
        if fwrap == "partial":
            def lead(tag_, individual, shift=0, *a, **kw):
                calls.append((individual, shift, a, kw, j))
                return value(individual, shift, kw)
            return functools.partial(lead, "lead")
        if fwrap == "callable":
            class Evaluator(object):
                def __call__(_evaluator_obj, individual, shift=0, *a, **kw):
                    calls.append((individual, shift, a, kw, j))
                    return value(individual, shift, kw)
            return Evaluator()
        if fwrap == "attrs":
            func.__wrapped__ = None                          # attributes a caching / counting decorator leaves behind
            func.cache_info = lambda: None
            func.func = "not a function"
            return func
        return func

    def feasibility(individual, strict=False, *more, **options):
        # a feasibility function with OPTIONAL parameters (bounds, a strictness flag ...): the decorators call it with
        # the individual alone; anything else it receives changes its verdict (seeded change C19-r6m2 forwards the
        # evaluation's extra arguments "if the function accepts them")
        feas_calls.append(individual)
        cur = state["cur"]
        rep = cur.d.get("feas_rep", "bool")
        if strict or more or options:
            feas_extra.append((strict, more, options))
            return not cur.feas
        if rep == "numpy":
            return numpy.bool_(cur.feas)          # e.g. numpy.all(numpy.array(ind) > 0)
        if rep == "int":
            return 1 if cur.feas else 0
        if rep == "truthy":
            return ["ok"] if cur.feas else None   # any truthy / falsy object
        return cur.feas

    def set_fit(obj, vals):
        if vals is not None and len(vals) == len(obj.fitness.weights):
            obj.fitness.values = tuple(num(Fr(v)) for v in vals)

    def closest(individual):
        cur = state["cur"]
        if cur.cmode in ("self", "plain"):
            return cur.c
        c = copy.deepcopy(individual)           # the idiomatic way: clone the individual, repair the clone
        c[:] = [individual[0], 0, 7]            # the repaired genotype
        if cur.cmode == "cstale":
            set_fit(c, cur.cfit)
        elif cur.cmode == "fresh":
            del c.fitness.values
        keep.append(c)
        table[gkey(c)] = cur.fc
        cur.c = c
        return c

    def distance1(individual):
        c = state["cur"]
        return sv_py(c.cur_dist(), c.ints, c.seqtype, c.d.get("dist_rep"))

    def distance2(f_ind, individual):
        cur = state["cur"]
        if f_ind is cur.c and individual is cur.x:
            return sv_py(cur.cur_dist(), cur.ints, cur.seqtype, cur.d.get("dist_rep"))
        # wrong argument order / wrong objects: a visibly different distance of the same shape
        return sv_py(sv_add(cur.cur_dist(), [Fr(1000)]), cur.ints, cur.seqtype, cur.d.get("dist_rep"))

    def build(dd):
        dints = bool(dd.get("ints"))
        dseq = list if dd.get("lists") else tuple
        if dd["kind"] == "delta":
            cls = constraint.DeltaPenality if dd.get("alias") else constraint.DeltaPenalty
            return cls(feasibility, sv_py(dd["delta"], dints, dseq, dd.get("delta_rep")),
                       *([distance1] if dd["has_dist"] else []))
        cls = constraint.ClosestValidPenality if dd.get("alias") else constraint.ClosestValidPenalty
        alpha = Fr(dd["alpha"])
        arep = dd.get("alpha_rep")
        if arep in NPI_REPS or arep == "float64":
            apy = getattr(numpy, arep)(int(alpha) if arep in NPI_REPS else num(alpha))
        else:
            apy = int(alpha) if (dints or arep == "pyint") and alpha.denominator == 1 else num(alpha)
        return cls(feasibility, closest, apy, *([distance2] if dd["has_dist"] else []))

    funcs = [make_func(j) for j in range(nf)]
    # EVERY decorator object decorates every function (toolbox.decorate with the same object more than once; several
    # objects of one decorator class alive together)
    wrappeds = [[deco(f) for f in funcs] for deco in [build(dd) for dd in decos]]

    def call(c, target=None):
        del calls[:]
        state["cur"] = c
        pos = ([num(c.shift)] if c.shift_mode == "pos" else []) + c.args
        kw = dict(c.kwargs)
        if c.shift_mode == "kw":
            kw["shift"] = num(c.shift)
        target = target or wrappeds[c.di % len(decos)][c.fi % nf]
        try:
            if c.d.get("fw"):
                with warnings.catch_warnings():
                    warnings.simplefilter("ignore", RuntimeWarning)      # numpy: "overflow encountered in scalar subtract"
                    return target(c.x, *pos, **kw), None
            return target(c.x, *pos, **kw), None
        except (IndexError, OverflowError) as e:
            return None, e
        except TypeError as e:
            if "individual" in kw:
                return None, e
            raise

    kind = lambda v: "absent" if v is None else ("scalar" if "s" in v else "vector")
    lines, expects, tags = [], [], []
    first_orc = None
    any_nontrivial = False
    for ci, c in enumerate(cs):
        dd = deco_of(c.d)
        k, has_dist = dd["kind"], dd["has_dist"]
        if not has_dist:
            c.dist = None
        elif c.dist is None:
            c.dist = {"s": "0"}
        ws, n, x, feas, shift, args, kwargs = c.ws, c.n, c.x, c.feas, c.shift, c.args, c.kwargs
        dist_desc = c.dist
        fi = c.fi % nf
        off = foff[fi] + kw_bonus(kwargs)       # what THIS undecorated function adds for THIS call's options
        set_fit(x, c.xfit)
        if "individual" in kwargs:
            # a keyword named like the wrapper's own positional parameter: the call `evaluate(ind, individual=...)` is
            # a TypeError for the undecorated function of this harness (its first parameter has that name too); the
            # statement asks for what the undecorated function does when called the same way
            und, und_exc = call(c, funcs[fi])
            res, exc = call(c)
            orc = None
            if feas and (type(exc) is not type(und_exc) or (exc is None and res != und)):
                orc = "feasible individual, keyword `individual`: undecorated %r / %r, decorated %r / %r" % (und, und_exc, res, exc)
            if orc is not None and first_orc is None:
                first_orc = orc
            tags.append("%s/keyword-individual" % k)
            del feas_calls[:]
            continue
        res, exc = call(c)
        calls1 = list(calls)
        ident = lambda o: 0 if o is x else (1 if o is c.c else 9)
        call_tok = ",".join("%d:%s:%s%s" % (ident(i), sfr(Fr(s_)), tag_of(a, kw), "" if j == fi else "!%s" % (j if isinstance(j, str) else "func%d" % j))
                            for (i, s_, a, kw, j) in calls1) or "-"
        badres = None
        if exc is None:
            try:
                res_tok = slist(frn(v) for v in res)
            except (TypeError, ValueError):
                res_tok = "<%r>" % (res,)
                badres = "decorated function returned %r: not one number per objective" % (res,)
                res = tuple(0 for _ in res)
        else:
            res_tok = "raise"
        tag_sent = tag_of(args, kwargs)
        wtok = "@" if fam_tok else slist(ws)
        if k == "delta":
            line = "delta %d %s %s %s %s %s %s" % (feas, wtok, sv_tok(dd["delta"]), sv_tok(dist_desc),
                                                    slist(v + off for v in c.f0), sfr(shift), tag_sent)
        else:
            line = "closest %d %s %s %s %d %s %s %s %s" % (
                feas, wtok, sfr(Fr(dd["alpha"])), sv_tok(dist_desc), 0 if c.c is x else 1,
                slist(v + off for v in c.f0), slist(v + off for v in c.fc), sfr(shift), tag_sent)
        line = ("C19 fam %s %d " % (fam_tok, c.d["cls"]) if fam_tok else "C19 ") + line

        # ---------------- oracle: the statement itself, on the implementation's outputs ----------------
        orc = None
        f36 = False
        if badres is not None and first_orc is None:
            first_orc = badres
        extras_ok = lambda cl: (Fr(cl[1]) == shift and list(cl[2]) == args and cl[3] == kwargs and cl[4] == fi)
        premise = True
        if feas:
            plain = c.seqtype(num(v + shift + off) for v in c.f0)      # what THIS undecorated function returns
            if exc is not None:
                orc = "feasible individual: decorated function raised %r" % (exc,)
            elif res != plain or type(res) is not type(plain):
                orc = "feasible individual: decorated function returned %r, undecorated returns %r" % (res, plain)
            elif len(calls1) != 1 or calls1[0][0] is not x or not extras_ok(calls1[0]):
                orc = "feasible individual: the wrapper's own evaluation function was not called exactly once on the individual with the extras; calls=%s" % call_tok
        elif k == "delta":
            premise = well_sized(dd["delta"], n) and well_sized(dist_desc, n)
            if premise:
                if calls1:
                    orc = "infeasible individual: the evaluation function was called (%d times)" % len(calls1)
                elif exc is not None or len(res) != n:
                    orc = "infeasible individual: expected %d penalised objectives, got %r %r" % (n, res, exc)
                    if isinstance(exc, OverflowError) and len(cs) == 1:
                        # numpy refuses a Python int operand that the fixed-width type of the other operand cannot
                        # hold: the sign -1 next to an unsigned distance, or the constant next to `sign * distance`
                        types = [numpy.iinfo(r) for r in (c.d.get("dist_rep"), dd.get("delta_rep")) if r in NPI_REPS]
                        operands = [-1] + [int(Fr(q)) for q in Penalty_vals(dd["delta"]) if Fr(q).denominator == 1]
                        if c.d.get("dist_rep") == "pyint" and dist_desc is not None:
                            # a Python-int distance next to a numpy fixed-width CONSTANT: `sign * dist` is a Python int
                            operands += [sg * int(Fr(q)) for q in Penalty_vals(dist_desc) for sg in (1, -1) if Fr(q).denominator == 1]
                        if any(not (t.min <= v <= t.max) for t in types for v in operands):
                            orc += " " + F36_MARK
                            f36 = True
                else:
                    pen = [frn(v) for v in res]
                    wraps = []
                    for i in range(n):
                        di, dl = sv_at(dist_desc, i, n), sv_at(dd["delta"], i, n)
                        bad = None
                        if not worse_ok(ws[i], pen[i], dl, di):
                            bad = "objective %d: penalised value %s is not constant %s moved by distance %s in the worse direction for weight %s" % (i, pen[i], dl, di, ws[i])
                        elif ws[i] * pen[i] > ws[i] * dl:
                            bad = "objective %d: penalised value better than the constant" % i
                        exact = dl + di if ws[i] < 0 else dl - di        # what the code computes, in exact numbers
                        if bad is None:
                            if ws[i] == 0 and pen[i] != exact and isinstance(res[i], numpy.integer):
                                # zero weight: the statement names no worse direction, the wrapped value happens to be
                                # the constant moved the other way; same phenomenon, no oracle failure, no model line
                                f36 = True
                            continue
                        if (len(cs) == 1 and isinstance(res[i], numpy.integer) and exact.denominator == 1
                                and (int(res[i]) - int(exact)) % (1 << (8 * res[i].dtype.itemsize)) == 0):
                            wraps.append("%s; computed in numpy.%s: the exact value %s modulo 2**%d %s" % (
                                bad, res[i].dtype.name, exact, 8 * res[i].dtype.itemsize, F36_MARK))
                            continue
                        orc = bad
                        break
                    if orc is None and wraps:
                        orc, f36 = wraps[0], True
        else:
            premise = well_sized(dist_desc, n)
            fc_shifted = [v + shift + off for v in c.fc]
            if len(fc_shifted) != n:
                premise = False          # size guard of the code; model comparison only
            if premise:
                if len(calls1) != 1 or calls1[0][0] is not c.c or not extras_ok(calls1[0]):
                    orc = "infeasible individual: the wrapper's own evaluation function must be called exactly once, on the closest valid point, with this call's extras (whatever fitness is stored on the objects); calls=%s" % call_tok
                elif exc is not None or len(res) != n:
                    orc = "infeasible individual: expected %d penalised objectives, got %r %r" % (n, res, exc)
                else:
                    pen = [frn(v) for v in res]
                    alpha = Fr(dd["alpha"])
                    for i in range(n):
                        di = sv_at(dist_desc, i, n)
                        if not worse_ok(ws[i], pen[i], fc_shifted[i], alpha * di):
                            orc = "objective %d: penalised value %s is not the closest valid fitness %s moved by alpha*distance %s*%s in the worse direction for weight %s" % (i, pen[i], fc_shifted[i], alpha, di, ws[i])
                            break
                        if ws[i] * pen[i] > ws[i] * fc_shifted[i]:
                            orc = "objective %d: penalised value better than the closest valid fitness" % i
                            break
        if not f36:
            # (an input of the known finding F36 is judged by the oracle alone: the model computes in exact numbers)
            lines.append(line)
            expects.append("%s | %s" % (res_tok, call_tok))
        # never improves as the distance grows: same decorated function, larger distance
        if orc is None and premise and not feas and dist_desc is not None and exc is None:
            c.round = 1
            res2, exc2 = call(c)
            if exc2 is not None or len(res2) != len(res):
                orc = "second call with a larger distance failed: %r %r" % (res2, exc2)
            else:
                try:
                    res2 = [frn(v) for v in res2]
                except (TypeError, ValueError):
                    orc = "second call returned %r: not one number per objective" % (res2,)
                    res2 = [frn(v) for v in res]
                for i in range(n):
                    if ws[i] * frn(res2[i]) > ws[i] * frn(res[i]):
                        orc = "objective %d improved (%s -> %s) when the distance grew" % (i, res[i], res2[i])
                        break
            c.round = 0
        if c.store and exc is None and res is not None and len(res) == n and all(w != 0 for w in ws):
            x.fitness.values = tuple(res)
        if orc is None and feas_calls and any(o is not x for o in feas_calls):
            orc = "feasibility function received something else than the individual"
        del feas_calls[:]
        if orc is not None and first_orc is None:
            first_orc = orc if len(cs) == 1 else "call %d of %d through one decorator: %s" % (ci + 1, len(cs), orc)
        tags.append("%s/%s/%s/dist=%s/n=%d%s%s%s" % (
            k, "feasible" if feas else "infeasible",
            ("delta=" + kind(dd["delta"])) if k == "delta" else ("closest=" + ("self" if c.c is x else "other")),
            kind(dist_desc), n, "" if premise else "/missized",
            "/extras" if (args or kwargs) and c.shift_mode != "absent" else "",
            "/fixed-width" if c.d.get("fw") else ""))
        any_nontrivial = any_nontrivial or (not feas) or dist_desc is not None or bool(args or kwargs)
    if len(cs) == 1:
        tag = tags[0]
    else:
        pats = set("".join("+" if w > 0 else "-" if w < 0 else "0" for w in c.ws) for c in cs)
        kinds = sorted(set(dd["kind"] for dd in decos))
        tag = "%s/%s/calls=%d/infeasible=%d/sign-patterns=%d/lengths=%d/funcs=%d%s%s%s" % (
            d["k"], "+".join(kinds), len(cs), sum(1 for c in cs if not c.feas), len(pats), len(set(c.n for c in cs)), nf,
            "/decorators=%d" % len(decos) if len(decos) > 1 else "",
            "/stored-fitness" if any(c.xfit or c.store or c.cmode in ("clone", "cstale") for c in cs) else "",
            "/re-evaluation" if any(c.d.get("reuse") is not None for c in cs) else "")
    return Case(d, lines, expects, first_orc, tag=tag, nontrivial=any_nontrivial)


def Penalty_vals(v):
    return [v["s"]] if "s" in v else list(v["v"])


# ----------------------------------------------------------------------------------------------
# generation
# ----------------------------------------------------------------------------------------------

MAGS = [Fr(1), Fr(1), Fr(2), Fr(1, 2), Fr(3), Fr(10), Fr(1000), Fr(1, 1024), Fr(7, 4)]


def rand_dyadic(rng, nonneg=False, big=False):
    den = rng.choice([1, 1, 1, 2, 4, 8, 1024])
    hi = (1 << 18) if big else 40
    num_ = rng.randint(0 if nonneg else -hi, hi)
    if rng.random() < 0.08:
        num_ = 0
    return sfr(Fr(num_, den))


def rand_sv(rng, kind, n, nonneg=False, big=False):
    if kind == "absent":
        return None
    if kind == "scalar":
        return {"s": rand_dyadic(rng, nonneg, big)}
    return {"v": [rand_dyadic(rng, nonneg, big) for _ in range(n)]}


def rand_extras(rng, d):
    r = rng.random()
    if r < 0.35:
        d["shift_mode"] = "absent"
        return
    d["shift"] = rand_dyadic(rng)
    d["shift_mode"] = "pos" if rng.random() < 0.6 else "kw"
    if d["shift_mode"] == "pos" and rng.random() < 0.6:
        d["args"] = [rng.choice([0, 1, 7, "a", "bc"]) for _ in range(rng.randint(1, 3))]
    if rng.random() < 0.6:
        d["kwargs"] = dict((rng.choice(["u", "v", "w", "func", "self", "alpha", "f_ind", "verbose", "debug"]), rng.choice([0, 2, "z"]))
                           for _ in range(rng.randint(1, 2)))


def progression(rng, n, nonneg):
    """n integers in arithmetic progression (what a `range` object can hold)"""
    step = rng.choice([1, 1, 2, 3, -1, -2])
    lo = rng.randint(0, 9) if nonneg else rng.randint(-9, 9)
    if step < 0:
        lo += -step * (n - 1)
    return [sfr(Fr(lo + i * step)) for i in range(n)]


def set_reps(rng, d, n, force=None):
    """how the constants / the distance / the feasibility status are handed over as Python objects"""
    force = force or {}
    for key, nonneg in (("delta", False), ("dist", True)):
        v = d.get(key)
        if not v:
            continue
        rep = force.get(key) or rng.choice(["default", "default"] + (VEC_REPS if "v" in v else SCA_REPS))
        if rep == "default":
            continue
        if rep == "range" and "v" in v:
            v = d[key] = {"v": progression(rng, len(v["v"]), nonneg)}
        if rep == "int" and "s" in v and Fr(v["s"]).denominator != 1:
            v = d[key] = {"s": sfr(Fr(rng.randint(0, 40)))}
        d[key + "_rep"] = rep
    d["feas_rep"] = force.get("feas") or rng.choice(["bool", "bool", "numpy", "int", "truthy"])


def make(rng, k, signs, feas, dkind, distkind, big=False, missize=False):
    n = len(signs)
    ws = [sfr(s * rng.choice(MAGS)) for s in signs]
    d = {"k": k, "feas": feas, "w": ws, "dist": rand_sv(rng, distkind, n, nonneg=True, big=big),
         "f0": [rand_dyadic(rng, big=big) for _ in range(n)],
         "inc": [rand_dyadic(rng, nonneg=True) for _ in range(rng.randint(1, 2))]}
    if k == "delta":
        d["delta"] = rand_sv(rng, dkind, n, big=big)
    else:
        d["alpha"] = rand_dyadic(rng, nonneg=True)
        d["cid"] = 0 if rng.random() < 0.15 else 1
        d["fc"] = [rand_dyadic(rng, big=big) for _ in range(n)]
    if rng.random() < 0.3:
        d["ints"] = True
    if rng.random() < 0.3:
        d["lists"] = True
    if rng.random() < 0.2:
        d["alias"] = True
    rand_extras(rng, d)
    set_reps(rng, d, n)
    if missize:
        which = rng.random()
        m = rng.choice([0, max(0, n - 1), n + 1, n + 2])
        if k == "delta" and which < 0.4:
            d["delta"] = {"v": [rand_dyadic(rng) for _ in range(m)]}
        elif which < 0.8 or k == "delta":
            d["dist"] = {"v": [rand_dyadic(rng, nonneg=True) for _ in range(m)]}
        else:
            d["fc"] = [rand_dyadic(rng) for _ in range(m)]
            if d["cid"] == 0:
                d["f0"] = d["fc"]
    if k == "closest" and d["cid"] == 0:
        d["fc"] = d["f0"]
    return d


def make_narrow(rng):
    """ClosestValidPenalty with the distance handed over as a numpy integer narrower than 64 bits (a Chebyshev / Hamming
    distance computed on an int8 / int16 genome) and an integer alpha whose product with the distance leaves that dtype:
    the code multiplies with FLOAT signs, so the product is a double (seeded change C19-r6m3 turns the signs into ints and
    the product wraps).  DeltaPenalty is left out: with a Python-int constant outside the dtype numpy 2 itself raises."""
    n = rng.choice([1, 1, 2, 3])
    signs = [rng.choice([1, -1, -1, 0]) for _ in range(n)]
    d = make(rng, "closest", signs, False, None, rng.choice(["scalar", "vector"]))
    rep = rng.choice(["int8", "int16"])
    lo, hi = (50, 127) if rep == "int8" else (9000, 32767)
    if "s" in d["dist"]:
        d["dist"] = {"s": sfr(Fr(rng.randint(lo, hi)))}
    else:
        d["dist"] = {"v": [sfr(Fr(rng.randint(lo, hi))) for _ in range(n)]}
    d["dist_rep"] = rep
    d["alpha"] = sfr(Fr(rng.randint(2, 9)))
    d["ints"] = True
    d["inc"] = [sfr(Fr(0))]
    d.pop("alias", None)
    return d


def make_seq(rng):
    """2-5 calls through ONE decorator object that decorates 1-3 different functions: individuals of different
    fitness classes (sign pattern, magnitudes, number of objectives), feasible and infeasible mixed, different
    extras per call, wrappers called in any order; individuals that already carry a (stale) fitness, closest
    points made as repaired clones carrying a fitness, and re-evaluation of the same individual with other
    extras after its result was stored."""
    k = rng.choice(["delta", "closest"])
    ncalls = rng.randint(2, 5)
    same_len = rng.random() < 0.6
    n0 = rng.randint(1, 4)
    has_dist = rng.random() < 0.7
    dkind = rng.choice(["scalar", "vector"]) if same_len else "scalar"
    nfuncs = rng.choice([1, 1, 2, 2, 3])
    calls, base, signs_of = [], None, []
    for j in range(ncalls):
        reuse = rng.randrange(j) if (j and rng.random() < 0.35) else None
        if reuse is not None:
            signs = signs_of[reuse]
        else:
            n = n0 if same_len else rng.randint(1, 4)
            signs = [rng.choice([1, 1, -1, -1, 0]) for _ in range(n)]
        signs_of.append(signs)
        n = len(signs)
        feas = rng.random() < 0.3
        distkind = rng.choice(["scalar", "vector"]) if has_dist else "absent"
        c = make(rng, k, signs, feas, dkind, distkind)
        if base is None:
            base = c
        c = dict((key, v) for key, v in c.items() if key not in ("k", "delta", "delta_rep", "alpha", "alias"))
        if reuse is not None:
            src = calls[reuse]
            c["reuse"] = reuse
            for key in ("w", "f0", "fc", "cid", "ints"):
                if key in src:
                    c[key] = src[key]
                else:
                    c.pop(key, None)
        if nfuncs > 1:
            c["fi"] = rng.randrange(nfuncs)
        if rng.random() < 0.4:
            c["xfit"] = [rand_dyadic(rng) for _ in range(n)]
        if rng.random() < 0.5:
            c["store"] = True
        if k == "closest" and c.get("cid", 1) != 0:
            c["cmode"] = rng.choice(["plain", "clone", "clone", "cstale", "fresh"])
            if c["cmode"] == "cstale":
                c["cfit"] = [rand_dyadic(rng) for _ in range(n)]
        calls.append(c)
    d = {"k": "seq", "deco": k, "has_dist": has_dist, "calls": calls}
    if rng.random() < 0.25:
        d["fwrap"] = rng.choice(FWRAPS)
    if nfuncs > 1:
        d["nfuncs"] = nfuncs
        d["foff"] = [sfr(Fr(v)) for v in rng.sample([0, 1, -3, 16, Fr(5, 2), Fr(-7, 4), 100], nfuncs)]
    for key in ("delta", "delta_rep", "alpha", "alias", "ints", "lists"):
        if key in base:
            d[key] = base[key]
    return d


def make_reps(rng):
    """every way of handing over a vector / a scalar / a feasibility status, for both decorators (fixed family
    list, random values): vectors as tuple, list, numpy.ndarray, array.array, range; scalars as int, float,
    numpy.float64; feasibility as bool, numpy.bool_, int, any truthy / falsy object"""
    out = []
    for k in ("delta", "closest"):
        for drep in VEC_REPS + SCA_REPS:
            for trep in VEC_REPS + SCA_REPS:
                n = rng.randint(1, 4)
                signs = [rng.choice([1, -1, -1, 0]) for _ in range(n)]
                d = make(rng, k, signs, False, "vector" if drep in VEC_REPS else "scalar",
                         "vector" if trep in VEC_REPS else "scalar")
                for key in ("delta_rep", "dist_rep"):
                    d.pop(key, None)
                set_reps(rng, d, n, {"delta": drep, "dist": trep})
                out.append(d)
        for frep in ("bool", "numpy", "int", "truthy"):
            for feas in (True, False):
                n = rng.randint(1, 3)
                d = make(rng, k, [rng.choice([1, -1]) for _ in range(n)], feas, "scalar", "scalar")
                d["feas_rep"] = frep
                out.append(d)
    return out


BIG = [2 ** 53 + 1, -(2 ** 53 + 1), 2 ** 63 - 1, -(2 ** 63), 10 ** 30 + 7, 2 ** 53 + 3, 12345678901234567891]
# every parameter / local / attribute name used inside constraint.py's wrappers, and typical option names of evaluation
# functions; `individual` is the wrappers' own positional parameter (see evaluate)
KWNAMES = ["func", "self", "f_ind", "f_fbl", "feasible", "feasibility", "distance", "dist", "dists", "alpha", "delta",
           "weights", "args", "kwargs", "valid", "fitness", "wrapper", "cls", "key", "values", "w", "d", "f",
           "fbty_fct", "fbl_fct", "dist_fct", "individual", "wrapped", "__wrapped__",
           "verbose", "debug", "log", "trace", "quiet", "silent", "cache", "copy", "out", "default", "n", "k", "pop",
           "toolbox", "penalty", "strict", "check", "seed", "rng", "scale", "offset", "power", "bounds", "lower", "upper",
           "tol", "eps", "target", "data", "params", "options", "config", "context", "mode", "name", "index", "gen",
           "dry_run", "raw", "x", "i", "a", "kw", "result", "penalized", "signs"]


def make_exact(rng):
    """DeltaPenalty on exact Python numbers: int constants / distances beyond 2**53 and Fractions, for which the
    code's arithmetic (integer signs) is exact - the penalised value must be EXACTLY the constant moved by the
    distance (fixed family list: scalar/vector x int/Fraction x absent/int/Fraction distance; random values)"""
    out = []

    def big(nonneg=False):
        r = rng.random()
        if r < 0.6:
            v = rng.choice(BIG) + rng.randint(-2, 2)
        elif r < 0.8:
            v = rng.randint(-50, 50)
        else:
            v = rng.choice(BIG) * rng.choice([1, 3, 10 ** 6])
        return sfr(Fr(abs(v) if nonneg else v))

    def frac(nonneg=False):
        q = Fr(rng.randint(0 if nonneg else -60, 60), rng.choice([3, 7, 9, 11, 1000003]))
        return sfr(q)

    for dkind in ("scalar", "vector"):
        for drep, dgen in (("pyint", big), ("fraction", frac)):
            for tkind in ("absent", "scalar", "vector"):
                for trep, tgen in (("pyint", big), ("fraction", frac)):
                    n = rng.randint(1, 4)
                    signs = [rng.choice([1, -1, -1, 0]) for _ in range(n)]
                    d = make(rng, "delta", signs, False, dkind, tkind)
                    for key in ("delta_rep", "dist_rep", "ints"):
                        d.pop(key, None)
                    d["delta"] = {"s": dgen()} if dkind == "scalar" else {"v": [dgen() for _ in range(n)]}
                    d["delta_rep"] = drep
                    if tkind != "absent":
                        d["dist"] = {"s": tgen(True)} if tkind == "scalar" else {"v": [tgen(True) for _ in range(n)]}
                        d["dist_rep"] = trep
                        d["inc"] = [rng.choice(["1", "3", "100"])]
                    out.append(d)
    return out


def make_kwnames(rng):
    """extra keyword arguments whose NAMES coincide with identifiers the decorators use internally (`func`, `self`,
    `f_ind`, `alpha` ...): they are the caller's and must reach the evaluation function, for feasible and
    infeasible individuals, through both decorators"""
    out = []
    for k in ("delta", "closest"):
        for name in KWNAMES:
            for feas in (True, False):
                if name == "individual" and not feas:
                    continue
                n = rng.randint(1, 3)
                d = make(rng, k, [rng.choice([1, -1]) for _ in range(n)], feas, "scalar", rng.choice(["absent", "scalar"]))
                d["kwargs"] = {name: rng.choice([1, 2, 3, "z"])}
                if rng.random() < 0.3 and name != "individual":
                    d["kwargs"][rng.choice([nm for nm in KWNAMES if nm != "individual"])] = 5
                d["shift_mode"] = rng.choice(["absent", "kw", "pos"])
                d.setdefault("shift", "3/2")
                out.append(d)
    return out


FWRAPS = ["wraps", "partial", "callable", "attrs"]


def make_wrapped(rng):
    """the function handed to the decorator is itself the product of the user's decorators (fixed family list:
    functools.wraps wrapper around a different bare function, functools.partial, callable object, function with
    cache-style attributes) x both decorators x feasible / infeasible x 1-2 decorated functions"""
    out = []
    strip = lambda c: dict((key, v) for key, v in c.items() if key not in ("k", "delta", "delta_rep", "alpha", "alias"))
    for k in ("delta", "closest"):
        for fw in FWRAPS:
            for nfuncs in (1, 2):
                n = rng.randint(1, 3)
                signs = [rng.choice([1, -1, -1, 0]) for _ in range(n)]
                protos = [make(rng, k, signs, feas, "scalar", rng.choice(["absent", "scalar", "vector"]))
                          for feas in (True, False, False)]
                has_dist = protos[0].get("dist") is not None
                calls = []
                for proto in protos:
                    c = strip(proto)
                    if not has_dist:
                        c["dist"] = None
                        c.pop("dist_rep", None)
                    elif c.get("dist") is None:
                        c["dist"] = {"s": "2"}
                    c["fi"] = rng.randrange(nfuncs)
                    calls.append(c)
                d = {"k": "seq", "deco": k, "has_dist": has_dist, "calls": calls, "nfuncs": nfuncs, "fwrap": fw,
                     "foff": [sfr(Fr(v)) for v in rng.sample([0, 1, -3, 16, 100], nfuncs)]}
                for key in ("delta", "delta_rep", "alpha"):
                    if key in protos[0]:
                        d[key] = protos[0][key]
                out.append(d)
    return out


def make_neartie(rng):
    """weights at the boundary of `w >= 0`: the smallest positive / negative doubles, +0.0 and -0.0"""
    tiny = sfr(Fr(5e-324))
    out = []
    for k in ("delta", "closest"):
        for n in (1, 2, 3):
            for _ in range(6):
                d = make(rng, k, [1] * n, False, rng.choice(["scalar", "vector"]), rng.choice(["scalar", "vector"]))
                d["w"] = [rng.choice([tiny, "-" + tiny, "0", "-0.0"]) for _ in range(n)]
                d.pop("ints", None)
                out.append(d)
    return out


def make_orders(rng):
    """one decorator object decorates 2-3 functions (toolbox.decorate twice with the same object); the wrappers
    are then called in every order, on a feasible and on an infeasible individual"""
    k = rng.choice(["delta", "closest"])
    nfuncs = rng.choice([2, 3])
    n = rng.randint(1, 3)
    signs = [rng.choice([1, -1, -1, 0]) for _ in range(n)]
    proto_f = make(rng, k, signs, True, "scalar", "scalar")
    proto_i = make(rng, k, signs, False, "scalar", "scalar")
    strip = lambda c: dict((key, v) for key, v in c.items() if key not in ("k", "delta", "delta_rep", "alpha", "alias"))
    out = []
    for order in itertools.permutations(range(nfuncs)):
        calls = []
        for fi in order:
            for proto in (proto_f, proto_i):
                c = strip(proto)
                c["fi"] = fi
                calls.append(c)
        d = {"k": "seq", "deco": k, "has_dist": True, "calls": calls, "nfuncs": nfuncs,
             "foff": [sfr(Fr(v)) for v in rng.sample([0, 1, -3, 16, Fr(5, 2), 100], nfuncs)]}
        for key in ("delta", "delta_rep", "alpha"):
            if key in proto_f:
                d[key] = proto_f[key]
        out.append(d)
    return out

DECO_KEYS = ("delta", "delta_rep", "alpha", "alias", "ints", "lists")
FAMILY_SHAPES = [
    # (parent index | None, "own" = first weights, "flip" = the parent's weights with some signs flipped, "inherit")
    [(None, "own"), (0, "flip"), (0, "inherit")],           # parent, overriding child, inheriting child
    [(None, "own"), (0, "flip"), (1, "inherit")],           # parent, overriding child, grandchild inheriting from it
    [(None, "own"), (0, "inherit"), (1, "flip")],           # parent, inheriting child, overriding grandchild
    [(None, "own"), (0, "flip"), (0, "flip"), (None, "own")],   # two overriding siblings and an unrelated class
]
DECO_SETUPS = [["delta"], ["closest"], ["delta", "delta"], ["closest", "closest"], ["delta", "closest"]]


def flip_some(rng, ws):
    """the weights with the sign of at least one objective reversed (other magnitudes may change too)"""
    i0 = rng.randrange(len(ws))
    out = []
    for i, w in enumerate(ws):
        q = Fr(w) if Fr(w) != 0 else Fr(1)
        if i == i0 or rng.random() < 0.3:
            q = -q
        elif rng.random() < 0.3:
            q = q * rng.choice([2, Fr(1, 2), 3])
        out.append(sfr(q))
    return out


def make_family_case(rng, shape, setup, order, n=None, tail=None):
    """a HISTORY in one process over ONE family of related fitness classes created for the case: 1-2 decorator objects
    (of one or of both decorator classes), each decorating the same 1-2 evaluation functions; the first infeasible
    individual of every class arrives in the given order of first use, then a random tail of further calls"""
    n = n or rng.randint(1, 4)
    classes = []
    for (p, what) in shape:
        if what == "own":
            w = [sfr(rng.choice([1, -1]) * rng.choice(MAGS)) for _ in range(n)]
        elif what == "flip":
            w = flip_some(rng, resolved(classes, p))
        else:
            w = None
        cl = {"p": p, "w": w}
        if rng.random() < 0.3:
            cl["via"] = "creator"
        classes.append(cl)
    signs = [1] * n
    decos = []
    for kind in setup:
        proto = make(rng, kind, signs, False, rng.choice(["scalar", "vector"]), "scalar")
        dd = dict((key, proto[key]) for key in DECO_KEYS if key in proto)
        dd["kind"] = kind
        dd["has_dist"] = rng.random() < 0.8
        decos.append(dd)
    nfuncs = rng.choice([1, 1, 2])
    seq = [(c, False) for c in order]
    for _ in range(rng.randint(0, 3) if tail is None else tail):
        seq.append((rng.randrange(len(classes)), rng.random() < 0.3))
    calls = []
    for (c, feas) in seq:
        di = rng.randrange(len(decos))
        cd = make(rng, decos[di]["kind"], signs, feas, "scalar", rng.choice(["scalar", "vector"]))
        cd = dict((key, v) for key, v in cd.items() if key not in ("k", "w") + DECO_KEYS)
        cd["cls"], cd["di"], cd["fi"] = c, di, rng.randrange(nfuncs)
        calls.append(cd)
    d = {"k": "fam", "classes": classes, "decos": decos, "calls": calls}
    if nfuncs > 1:
        d["nfuncs"] = nfuncs
        d["foff"] = [sfr(Fr(v)) for v in rng.sample([0, 1, -3, 16, Fr(5, 2), 100], nfuncs)]
    return d


def make_families(rng):
    """fixed list: every family shape x every decorator setup x orders of first use of the classes (all 6 orders of a
    three-class family; parents before children, children before parents, ...)"""
    out = []
    for shape in FAMILY_SHAPES:
        perms = list(itertools.permutations(range(len(shape))))
        if len(perms) > 6:
            perms = rng.sample(perms, 6)
        for setup in DECO_SETUPS:
            for order in perms:
                out.append(make_family_case(rng, shape, setup, list(order)))
    return out


def make_family_random(rng):
    """a random tree of 2-6 fitness classes (a derived class may change the NUMBER of objectives: scalar constants only
    then), random history of 2-8 calls"""
    n = rng.randint(1, 4)
    shape = [(None, "own")]
    for i in range(1, rng.randint(2, 6)):
        shape.append((None, "own") if rng.random() < 0.15 else (rng.randrange(i), rng.choice(["flip", "flip", "inherit"])))
    setup = rng.choice(DECO_SETUPS)
    d = make_family_case(rng, shape, setup, [], n=n, tail=0)
    ncalls = rng.randint(2, 8)
    proto = make_family_case(rng, shape, setup, [rng.randrange(len(shape)) for _ in range(ncalls)], n=n, tail=0)
    d["calls"] = proto["calls"]
    for c in d["calls"]:
        c["di"] = c["di"] % len(d["decos"])
        c["feas"] = rng.random() < 0.25
        # the call's decorator kind may differ from the one its tables were made for: give it what either needs
        c.setdefault("fc", c["f0"])
        c.setdefault("cid", 1)
    for key in ("nfuncs", "foff"):
        if key in proto:
            d[key] = proto[key]
        else:
            d.pop(key, None)
    for c in d["calls"]:
        c["fi"] = c["fi"] % max(1, d.get("nfuncs", 1))
    return d


FW_CONST = {"delta": ["pyint", "float", "np-same", "int64", "float64", "np-vector-same", "np-const-pydist"],
            "closest": ["pyint", "float", "np-same", "float64"]}
FW_MAGS = ["small", "half", "edge", "beyond"]


def make_fixedwidth(rng):
    """distances handed over as numpy FIXED-WIDTH integers (scalars and arrays of int8 ... uint64: a Hamming / Chebyshev
    distance computed on an integer genome), for both decorators, with Python-int / float / numpy constants (alpha for
    ClosestValidPenalty) and magnitudes on both sides of the width's range (fixed family list, random values).  Wherever
    the arithmetic would be done in doubles (float constants, ClosestValidPenalty's float signs, numpy's int64 x uint64
    promotion) magnitudes stay below 2**48 so that the exact value is a double."""
    out = []
    for k in ("delta", "closest"):
        for rep in NPI_REPS:
            info = numpy.iinfo(rep)
            lo, hi = int(info.min), int(info.max)
            for shape in ("scalar", "vector"):
                for crep in FW_CONST[k]:
                    for mag in FW_MAGS:
                        n = rng.randint(1, 3)
                        signs = [rng.choice([1, -1, -1, 0]) for _ in range(n)]
                        d = make(rng, k, signs, False, "scalar", shape)
                        for key in ("delta_rep", "dist_rep", "ints", "alias"):
                            d.pop(key, None)
                        floaty = k == "closest" or crep in ("float", "float64") or \
                            (crep == "int64" and numpy.result_type(numpy.int64, rep).kind == "f")
                        top = min(hi, 1 << 44) if floaty else hi          # the range the values are drawn around
                        bot = max(lo, -(1 << 44)) if floaty else lo
                        j = lambda: rng.randint(0, 3)
                        if mag == "small":
                            dist = lambda: rng.randint(0, 20)
                            const = lambda: rng.randint(-20, 20)
                        elif mag == "half":
                            dist = lambda: top // 2 + j()
                            const = lambda: rng.choice([top // 2 - j(), -(top // 2) + j(), top // 2 + 1 + j()])
                        elif mag == "edge":
                            dist = lambda: top - j()
                            const = lambda: rng.choice([j(), -j() - 1, top - j(), bot + j()])
                        else:
                            dist = lambda: rng.choice([top - j(), top // 3, j() + 1])
                            const = lambda: rng.choice([top + 1 + j(), bot - 1 - j(), 3 * top + j()])
                        if k == "closest":
                            # ClosestValidPenalty: dist * alpha must stay a double
                            dist0 = dist
                            dist = lambda: min(dist0(), top)
                        d["dist"] = {"s": sfr(Fr(dist()))} if shape == "scalar" else {"v": [sfr(Fr(dist())) for _ in range(n)]}
                        d["dist_rep"] = rep
                        d["inc"] = ["0"]
                        d["fw"] = True
                        if k == "delta":
                            crep_eff = crep
                            clip = None
                            if crep == "np-const-pydist":
                                # the CONSTANT is the numpy fixed-width integer, the distance a Python int
                                clip, crep_eff = (lo, hi), rep
                                d["dist_rep"] = "pyint"
                            elif crep in ("np-same", "np-vector-same"):
                                clip, crep_eff = (lo, hi), rep
                            elif crep == "int64":
                                clip = (-(1 << 63), (1 << 63) - 1)
                            vec = crep == "np-vector-same" or (crep in ("pyint", "float", "float64") and rng.random() < 0.4)

                            def cv():
                                v = const()
                                if clip:
                                    v = max(clip[0], min(clip[1], v))
                                return sfr(Fr(v))
                            d["delta"] = {"v": [cv() for _ in range(n)]} if vec else {"s": cv()}
                            if crep_eff == "float" and vec:
                                crep_eff = "tuple"
                            if crep_eff == "float64" and vec:
                                crep_eff = "ndarray"
                            d["delta_rep"] = crep_eff
                        else:
                            d["alpha"] = sfr(Fr(rng.randint(1, 9)))
                            d["alpha_rep"] = rep if crep == "np-same" else crep
                            if d["alpha_rep"] in NPI_REPS and int(d["alpha"]) > hi:
                                d["alpha"] = "1"
                            big = lambda: sfr(Fr(rng.choice([j(), -j(), top - j(), bot + j()])))
                            d["fc"] = [big() for _ in range(n)]
                            d["f0"] = [big() for _ in range(n)]
                            d["cid"] = 1
                            if rng.random() < 0.5:
                                d["ints"] = True
                        if floaty and d.get("shift_mode") != "absent":
                            d["shift"] = sfr(Fr(rng.randint(-8, 8)))
                        out.append(d)
    return out


def generate(tier, rng, mult):
    thorough = tier == "thorough"
    reps = (8 if thorough else 1) * mult
    for _ in range(reps * 2):
        for d in make_reps(rng):
            yield d
        for d in make_neartie(rng):
            yield d
        for d in make_exact(rng):
            yield d
        for d in make_kwnames(rng):
            yield d
        for d in make_families(rng):
            yield d
        for d in make_fixedwidth(rng):
            yield d
        for _ in range(40):
            yield make_narrow(rng)
        for _ in range(3):
            for d in make_wrapped(rng):
                yield d
    for _ in range(reps):
        for n in range(1, 5):
            for signs in itertools.product([1, -1, 0], repeat=n):
                for distkind in ("absent", "scalar", "vector"):
                    for dkind in ("scalar", "vector"):
                        yield make(rng, "delta", signs, False, dkind, distkind)
                    yield make(rng, "closest", signs, False, None, distkind)
                # feasible: one of each decorator per pattern
                yield make(rng, "delta", signs, True, rng.choice(["scalar", "vector"]),
                           rng.choice(["absent", "scalar", "vector"]))
                yield make(rng, "closest", signs, True, None, rng.choice(["absent", "scalar", "vector"]))
    for _ in range((6000 if thorough else 600) * mult):
        yield make_family_random(rng)
    for _ in range((30000 if thorough else 3000) * mult):
        yield make_seq(rng)
    for _ in range((2000 if thorough else 200) * mult):
        for d in make_orders(rng):
            yield d
    nrand = (60000 if thorough else 4000) * mult
    for _ in range(nrand):
        n = rng.choice([1, 1, 2, 2, 3, 3, 4, 4, 5, 6])
        signs = [rng.choice([1, 1, -1, -1, 0]) for _ in range(n)]
        yield make(rng, rng.choice(["delta", "closest"]), signs, rng.random() < 0.25,
                   rng.choice(["scalar", "vector"]), rng.choice(["absent", "scalar", "vector"]),
                   big=rng.random() < 0.2, missize=rng.random() < 0.12)


def shrink(d):
    if d["k"] in ("seq", "fam"):
        calls = d["calls"]
        if len(calls) > 1:
            for i in range(len(calls)):
                e = dict(d)
                e["calls"] = calls[:i] + calls[i + 1:]
                yield e
        for i, c in enumerate(calls):
            for key in ("args", "kwargs", "ints", "lists"):
                if c.get(key):
                    c2 = dict(c)
                    c2.pop(key)
                    e = dict(d)
                    e["calls"] = calls[:i] + [c2] + calls[i + 1:]
                    yield e
            if c.get("shift_mode", "pos") != "absent":
                c2 = dict(c)
                c2["shift_mode"] = "absent"
                c2.pop("args", None)
                e = dict(d)
                e["calls"] = calls[:i] + [c2] + calls[i + 1:]
                yield e
        return
    n = len(d["w"])
    if n > 1:
        for i in range(n):
            e = dict(d)
            for key in ("w", "f0", "fc"):
                if key in d and len(d[key]) == n:
                    e[key] = d[key][:i] + d[key][i + 1:]
            for key in ("delta", "dist"):
                if d.get(key) and "v" in d[key] and len(d[key]["v"]) == n:
                    e[key] = {"v": d[key]["v"][:i] + d[key]["v"][i + 1:]}
            yield e
    for key in ("args", "kwargs", "ints", "lists", "alias"):
        if d.get(key):
            e = dict(d)
            e.pop(key)
            yield e
    if d.get("shift_mode", "pos") != "absent":
        e = dict(d)
        e["shift_mode"] = "absent"
        e.pop("args", None)
        yield e
    for key in ("f0", "fc", "w"):
        for i, v in enumerate(d.get(key, [])):
            for r in (("1", "-1") if key == "w" else ("0", "1")):
                if v != r and (key != "w" or (Fr(v) > 0) == (Fr(r) > 0) and Fr(v) != 0):
                    e = dict(d)
                    e[key] = d[key][:i] + [r] + d[key][i + 1:]
                    yield e
    for key in ("delta", "dist"):
        v = d.get(key)
        if v and "s" in v and v["s"] not in ("0", "1"):
            for r in ("0", "1"):
                e = dict(d)
                e[key] = {"s": r}
                yield e
        if v and "v" in v:
            for i, xv in enumerate(v["v"]):
                if xv not in ("0", "1"):
                    for r in ("0", "1"):
                        e = dict(d)
                        e[key] = {"v": v["v"][:i] + [r] + v["v"][i + 1:]}
                        yield e
    if d.get("alpha") not in (None, "0", "1"):
        for r in ("1", "0"):
            e = dict(d)
            e["alpha"] = r
            yield e


def classify(desc, msg, known):
    """F36: DeltaPenalty's `d - w * dist` with Python-int signs is carried out in the fixed-width integer type of a numpy
    distance (or constant) and wraps / numpy refuses the Python int operand.  Only the oracle text that `evaluate`
    writes for exactly that input class (single call, DeltaPenalty, infeasible, every wrong objective equal to the
    exact value modulo 2**width of its numpy integer type, or numpy's out-of-bounds OverflowError) carries the mark."""
    if desc.get("k") == "delta" and not desc.get("feas") and msg is not None and msg.endswith(F36_MARK):
        return F36
    return None
