"""C04 / C05 — the translator tie: `translate(repo)` for harness/lib.py::_translated_obligations.

Reads deap/tools/emo.py of `repo` AS IT IS NOW, renders the NSGA-II functions the sub-language of
harness/py2lean_c05.py reaches as Lean definitions `Gen.<name>` and appends the committed theorems of
lean/DeapModel/GenEq/C05.lean.tmpl (`Gen.<name> … = <Model>.<name> …`).  A function that has a theorem block in the
template but is no longer translatable is a PROBLEM (the tie is broken); a function without a block is only listed."""
import os
import re
import sys

HERE = os.path.dirname(os.path.abspath(__file__))
sys.path.insert(0, os.path.normpath(os.path.join(HERE, "..")))
import py2lean_c05 as T                                             # noqa: E402
from py2lean_c05 import F, E, N, I, S, IND, X, L, FN, Refuse        # noqa: E402

TEMPLATE = os.path.normpath(os.path.join(HERE, "..", "..", "lean", "DeapModel", "GenEq", "C05.lean.tmpl"))
REL = "deap/tools/emo.py"
FITS = L(L(F))
SORTER = ("SORTER", [L(IND), I], L(L(IND)))
SORTER_BINDER = "(sortNondominated sortLogNondominated : List (NDSort.Ind α) → Int → Option (List (List (NDSort.Ind α))))"

# parameter / local types: an assumption of the tie (fitness tuples are sequences of floats, objective indices are
# non-negative ints, k is an int, nd a string); order = dependency order (callees first)
SPECS = [
    ("isDominated", {"sig": {"wvalues1": L(F), "wvalues2": L(F)}}),
    ("median", {"sig": {"seq": L(X), "key": FN(X, F)}}),
    ("splitA", {"sig": {"fitnesses": FITS, "obj": N},
                "locals": {n: FITS for n in ("best_a", "worst_a", "best_b", "worst_b")}}),
    ("splitB", {"sig": {"best": FITS, "worst": FITS, "obj": N},
                "locals": {n: FITS for n in ("best1_a", "best2_a", "best1_b", "best2_b",
                                             "worst1_a", "worst2_a", "worst1_b", "worst2_b")}}),
    ("assignCrowdingDist", {"sig": {"individuals": L(L(F))}, "store": "vector", "inds": "individuals",
                            "locals": {"distances": L(E)}}),
    ("selNSGA2", {"sig": {"individuals": L(IND), "k": I, "nd": S}, "store": "assoc", "partial": True,
                  "extra": ["(weights : List α)", SORTER_BINDER],
                  "callees": {"sortNondominated": SORTER, "sortLogNondominated": SORTER}}),
]
# the other target functions: why they are outside the sub-language (listed as refused, no theorem block)
NOT_ATTEMPTED = [
    ("sortNondominated", "defaultdict bookkeeping keyed by Fitness objects, while loop"),
    ("sortLogNondominated", "defaultdict / dict.fromkeys keyed by tuples, in-place call of the recursive helper"),
    ("sortNDHelperA", "recursion, mutation of the dict argument `front`"),
    ("sortNDHelperB", "recursion, mutation of the dict argument `front`"),
    ("sweepA", "bisect, del, list.insert, break, mutation of the dict argument `front`"),
    ("sweepB", "iter / next, while, bisect, del, list.insert, mutation of the dict argument `front`"),
]

HEADER = """import DeapModel.Lemmas.C05Gen

set_option linter.unusedVariables false
set_option linter.unusedSimpArgs false
set_option linter.unusedTactic false
set_option linter.unreachableTactic false
set_option linter.unusedSectionVars false

namespace Gen
variable {α : Type} [LT α] [LE α] [DecidableEq α] [DecidableLT α] [DecidableLE α]
  [Add α] [Sub α] [Mul α] [Div α] [Neg α] [Zero α] [NatCast α] [Inhabited α] {β : Type} [Inhabited β]

"""


def template_blocks():
    src = open(TEMPLATE).read()
    blocks, pre, cur, buf = {}, [], None, []
    for line in src.splitlines():
        m = re.match(r"^--! begin (\S+)\s*$", line)
        if m:
            cur, buf = m.group(1), []
            continue
        if re.match(r"^--! end\s*$", line):
            blocks[cur] = "\n".join(buf)
            cur = None
            continue
        (buf if cur is not None else pre).append(line)
    return "\n".join(pre), blocks


def theorem_names(text):
    return re.findall(r"^theorem\s+([\w.']+)", text, re.M)


def translate(repo):
    problems, defs, refused, table = [], [], [], []
    pre, blocks = template_blocks()
    out = [HEADER]
    done = []
    try:
        mod = T.Module(os.path.join(repo, REL))
    except (OSError, SyntaxError) as e:
        return {"problems": ["%s unreadable: %s" % (REL, e)], "source": None, "theorems": [], "definitions": [],
                "refused": [], "table": []}
    tr = T.Translator(mod)
    for name, spec in SPECS:
        full = "Gen." + name
        try:
            text = tr.translate(name, spec)
        except Refuse as e:
            refused.append("%s:%s (%s)" % (REL, name, e))
            table.append((REL, name, "refused", str(e)))
            if full in blocks:
                problems.append("%s:%s has left the translated sub-language (%s); its theorems %s cannot be checked"
                                % (REL, name, e, theorem_names(blocks[full])))
            continue
        out.append("/-- `%s:%s` (line %d), regenerated from the source -/" % (REL, name, mod.functions[name].lineno))
        out.append(text)
        out.append("")
        defs.append(full)
        done.append(full)
        table.append((REL, name, "translated", "theorem" if full in blocks else "no theorem"))
    for name, why in NOT_ATTEMPTED:
        refused.append("%s:%s (%s)" % (REL, name, why))
        table.append((REL, name, "refused", why))
    out.append("end Gen\n")
    out.append(pre)
    theorems = []
    for full in done:
        if full in blocks:
            out.append(blocks[full])
            theorems += theorem_names(blocks[full])
    return {"problems": problems, "source": "\n".join(out), "theorems": theorems, "definitions": defs,
            "refused": refused, "table": table}


if __name__ == "__main__":
    r = translate(sys.argv[1] if len(sys.argv) > 1 else os.environ.get("DEAP_REPO", "/repo"))
    if len(sys.argv) > 2:
        open(sys.argv[2], "w").write((r["source"] or "") + "\n" + "".join("#print axioms %s\n" % n for n in r["theorems"]))
    for row in r["table"]:
        print("%-20s %-22s %-10s %s" % row)
    print("problems:", r["problems"])
    print(len(r["definitions"]), "definitions,", len(r["theorems"]), "theorems,", len(r["refused"]), "refused")
