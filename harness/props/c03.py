"""C03 — Packaged evolutionary loops keep fitnesses, counts and logs truthful
(deap/algorithms.py eaSimple, eaMuPlusLambda, eaMuCommaLambda, eaGenerateUpdate; deap/gp.py harm).

Trace refinement.  The real loops run with a recording `evaluate`, a `Statistics` object that snapshots the
population at every generation boundary, recording `select` / `clone` / `mate` / `mutate` / `generate` / `update`
and a `HallOfFame` whose `update` is recorded; `random` (and `numpy.random` for CMA-ES) is recorded with
harness/tape.py.  From the chronological trace the decisions of every generation (selected positions, variation
branches, HARM acceptances) are extracted; the Lean machine replays them and must produce the same logbook,
the same evaluate calls (generation, individual), the same hall-of-fame feed, the same population and fitnesses
at EVERY boundary and the same clone/mate/mutate call sequence.  The oracle evaluates the statement itself on
the real objects at every boundary.

Composed replay (second protocol line of every run with a hall of fame): the machine of Core/LoopsCompose.lean runs the
same generations with the C06 MODELS of selBest / selRandom / selTournament as toolbox.select (fed the recorded
random.choice results; the selected positions are the model's, compared with the real ones), the C08 MODEL of
HallOfFame(maxsize) fed by the loop (content compared with the real hall of fame at every boundary), list objects
with identities (is the population the caller's list object?) and, for eaGenerateUpdate, the ask/tell protocol state
(what generate() handed out, what update() was given, with which fitness)."""
import math
import random

import numpy

from lib import Case
import tape as tapemod
from deap import algorithms, base, cma, creator, gp, tools
from props import c02

ANCHORS = [("deap/algorithms.py", ["eaSimple", "eaMuPlusLambda", "eaMuCommaLambda", "eaGenerateUpdate", "varAnd", "varOr"]),
           ("deap/gp.py", ["harm", "staticLimit"]),
           ("deap/tools/support.py", ["HallOfFame.update", "Statistics.compile", "Logbook.record"])]
LEVEL = "proof"
RULE = ("every run with a hall of fame is also replayed through the COMPOSED model (C06 selectors, C08 hall of fame, list "
        "identity, ask/tell state; selection computed by the model for selBest, selRandom, selTournament(2|3); roulette / NSGA-II "
        "selections are read off the trace); families: GA on bit lists (one-/two-point crossover, flip-bit; tournament / roulette / best selection) with "
        "eaSimple, mu+lambda, mu,lambda; mu+lambda with selBest (monotone best); NSGA-II mu+lambda (two objectives); "
        "GP eaSimple and gp.harm (nbrindsmodel small, mincutoff 1/2/20 so that acceptances are really rejected); CMA-ES "
        "eaGenerateUpdate, and eaGenerateUpdate with a particle-swarm-style ask/tell strategy whose persistent individuals "
        "are moved in place and handed back with their old (stale) fitness; ngen 0..6, population 0..8 (partly pre-evaluated, duplicate genotypes), mu <= lambda, "
        "lambda < mu for the assertion of mu,lambda. Non-trivial = distinct run with ngen >= 1")
EXHAUSTIVE = {"quick": False, "thorough": False}
TIME_BUDGET = {"quick": 60, "thorough": 900}
TRUSTED = ["operator contract of mate/mutate (C02/C09/C10/C11) and clone = deepcopy (C16); checked on every recorded call",
           "selectors return members of the list they are given (C05/C06): every returned object is located in the input by identity",
           "HARM-GP's acceptance arithmetic is replayed in IEEE (Lean Float with the operation order of gp.py 1084-1122, libm exp/log): "
           "the model derives every acceptfunc result from the recorded random() draw; a second protocol line replays the same "
           "run with the results read off the trace",
           "CMA-ES strategy update (numpy linear algebra) is outside the model: only the order in which update() leaves the list "
           "and the ask/tell protocol (which objects generate() handed out, which objects update() received, evaluated) are modelled",
           "hall of fame similarity = equality of the genotype (the default operator.eq on list / tree individuals)",
           "translator tie: harness/py2lean_c03.py (its docstring = the rendering rules: the packaged-loop sub-language of Python, state-passing "
           "over heap / operator state / ghost records / per-generation decision tape) and its prelude lean/DeapModel/Core/GenPreludeC03.lean, "
           "on top of C02's translator harness/py2lean_c02.py + Core/GenPreludeC02.lean for the called varAnd / varOr; the parameter types assumed "
           "in harness/props/c03_translate.py (LOOP_SIG); stats / verbose / logbook header are not rendered (they may occur only in three skipped "
           "idioms); the definitions of eaSimple / eaMuPlusLambda / eaMuCommaLambda are regenerated from $DEAP_REPO's deap/algorithms.py on every "
           "run and kernel-checked equal to Loops.eaSimple / eaMuPlusLambda / eaMuCommaLambda (lean/DeapModel/GenEq/C03.lean.tmpl: "
           "Gen.<f>_eq_canon / _eq_model; lemmas Lemmas/C03Gen.lean); eaGenerateUpdate and gp.harm are outside the sub-language (listed as refused)"]
ASSUMPTIONS = ["toolbox.evaluate is a pure function of the genotype returning a non-empty tuple",
               "individuals that come with a fitness carry the value evaluate gives for them (pre-evaluated truthfully)",
               "the initial population consists of distinct objects (the same unevaluated object listed twice would be evaluated "
               "twice in generation 0: invalid_ind lists it twice) — theorem hypothesis Init.distinct",
               "toolbox.select returns exactly k members of its input (mu <= lambda for the mu/lambda loops; population "
               "non-empty for gp.harm; size >= 2 when varOr can take the crossover branch)"]
EXPLANATION = ("Theorems C03.* are proved for the abstract generational machine of Core/Loops.lean for every number of generations "
               "and every decision tape, relative to the operator contract (operators may return their arguments or new objects), and "
               "for its composition with the library components (Core/LoopsCompose.lean: C06 selection models, C08 hall of fame "
               "model, list objects, ask/tell state): hof_best_ge_logged, plus_monotone_selBest, population_updated_in_place, "
               "generate_update_protocol; the correspondence replays recorded runs of the real loops through both machines, "
               "HARM-GP's acceptance test included.")


def translate(repo):
    """translator tie (lib._translated_obligations): Lean definitions of eaSimple / eaMuPlusLambda / eaMuCommaLambda regenerated from
    `repo`'s current deap/algorithms.py (harness/py2lean_c03.py; the called varAnd / varOr by C02's harness/py2lean_c02.py) + the
    committed theorems `Gen.<f>` = model of lean/DeapModel/GenEq/C03.lean.tmpl"""
    import json
    import os
    import lib
    from props import c03_translate
    tr = c03_translate.translate(repo)
    try:
        os.makedirs(os.path.join(lib.OUT, "evidence"), exist_ok=True)
        with open(os.path.join(lib.OUT, "evidence", "C03.translated.json"), "w") as fh:
            json.dump({"definitions": len(tr["definitions"]), "theorems": len(tr["theorems"]), "refused": len(tr["refused"]),
                       "problems": tr["problems"], "callee_definitions": tr.get("callee_definitions", []),
                       "functions": [dict(file=f, name=n, status=st, detail=d) for f, n, st, d in tr["table"]],
                       "theorem_names": tr["theorems"]}, fh, indent=1)
            fh.write("\n")
    except OSError:
        pass
    return tr


# ------------------------------------------------------------------------------------------
# individuals, evaluation functions, toolboxes
# ------------------------------------------------------------------------------------------

def _cls(rep, weights, cons=False):
    # cons: the fitness class derives from base.ConstrainedFitness (feasible individuals: no violation record).  Its
    # `values` deleter is its own, so anything a Fitness remembers besides `wvalues` survives `del fitness.values`
    # unless that deleter clears it too (seeded change C03-r7m1: a varied clone stayed "valid" and was never re-evaluated)
    wname = "_".join(("p" if w > 0 else "m") for w in weights) + ("_c" if cons else "")
    fname = "C03Fit_" + wname
    if not hasattr(creator, fname):
        creator.create(fname, base.ConstrainedFitness if cons else base.Fitness, weights=tuple(float(w) for w in weights))
    name = "C03_%s_%s" % (rep, wname)
    if not hasattr(creator, name):
        creator.create(name, {"list": list, "tree": gp.PrimitiveTree}[rep], fitness=getattr(creator, fname))
    return getattr(creator, name)


def raw_eval(fam, nobj):
    if fam == "ga":
        if nobj == 1:
            return lambda ind: (float(sum(ind) + 1),)
        return lambda ind: (float(sum(ind)), float(next((i for i, x in enumerate(ind) if x), len(ind))))
    if fam == "gp":
        if nobj == 1:
            return lambda ind: (float(3 * sum(1 for n in ind if n.name == "add") - len(ind)),)
        return lambda ind: (float(len(ind)), float(sum(1 for n in ind if n.arity == 0)))
    if fam == "cma":
        return lambda ind: (float(math.floor(16.0 * sum(x * x for x in ind))),)
    if fam == "pso":
        return lambda ind: (float(sum(x * x for x in ind)),)
    raise ValueError(fam)


def wv(fit):
    return ",".join(str(int(v)) for v in fit.wvalues) if fit.valid else "none"


def sl(xs):
    xs = list(xs)
    return ",".join(str(x) for x in xs) if xs else "-"


class Rec3(c02.Recorder):
    """C02's recorder of clone/mate/mutate plus a chronological trace stamped with the number of random draws
    made so far (so that it can be merged with the tape)."""

    def __init__(self, tp, inds):
        c02.Recorder.__init__(self, tp, inds)
        self.trace = []          # (draw index, kind, payload…)
        self.excluded = []       # draw ranges inside select / generate / update (not variation draws)
        self.src_valid = {}      # oid -> was the clone source valid at clone time
        self.table = {}

    def obj3(self, ind):
        return "%s|%s" % (self.gtok(ind), wv(ind.fitness))

    obj = obj3      # the operator script carries objects in the same form as the heap (weighted values)

    def stamp(self, toolbox):
        """call after wrap(): stamps the clone/mate/mutate events"""
        def stamped(f, is_clone=False):
            def g(*a):
                k, at = len(self.events), len(self.tp.draws)
                valid = a[0].fitness.valid if is_clone else None
                r = f(*a)
                self.trace.append((at, "V", self.events[k], self.rets[k]))
                if is_clone:
                    self.src_valid[self.oid[id(r)]] = valid
                return r
            return g
        toolbox.clone = stamped(toolbox.clone, True)
        toolbox.mate = stamped(toolbox.mate)
        toolbox.mutate = stamped(toolbox.mutate)

    def mark(self, kind, *payload):
        self.trace.append((len(self.tp.draws), kind) + payload)

    def chron(self):
        """events and variation draws merged in time order"""
        inside = set()
        for a, b in self.ranges + self.excluded:
            inside.update(range(a, b))
        items = [((at, 0, k), e[1:]) for k, e in enumerate(self.trace) for at in (e[0],)]
        items += [((i, 1, 0), ("D",) + tuple(d)) for i, d in enumerate(self.tp.draws) if i not in inside]
        items.sort(key=lambda x: x[0])
        return [e for _, e in items]


class SnapStats(tools.Statistics):
    """a Statistics object; compile() is called by the loops with the population at every generation boundary"""

    def __init__(self, hook):
        tools.Statistics.__init__(self)
        self.register("size", len)
        self._hook = hook

    def compile(self, data):
        self._hook(data)
        return tools.Statistics.compile(self, data)


def positions_of(chosen, pool):
    out = []
    for c in chosen:
        for i, x in enumerate(pool):
            if x is c:
                out.append(i)
                break
        else:
            raise ValueError("select returned an object that is not in its input")
    return out


def selector(name):
    return {"tourn2": lambda inds, k: tools.selTournament(inds, k, 2),
            "tourn3": lambda inds, k: tools.selTournament(inds, k, 3),
            "roulette": tools.selRoulette, "best": tools.selBest, "random": tools.selRandom,
            "nsga2": tools.selNSGA2}[name]


def excluded(d):
    n = len(d["inds"])
    if d["loop"] == "gu":
        return d["lam"] < (3 if d["fam"] == "cma" else 1)    # cma.Strategy needs mu = lambda/2 >= 1 parents
    if d["loop"] == "harm":
        return n < 1 or (d["nbr"] != -1 and d["nbr"] < n)
    if d["loop"] in ("plus", "comma", "plusbest"):
        if d["mu"] < 1 or n < 1:
            return True
        if d["loop"] != "comma" and d["mu"] > d["lam"]:
            return True
        if d["cxpb"] > 0 and (n < 2 or d["mu"] < 2):
            return True
    return False


# ------------------------------------------------------------------------------------------
# trace -> decisions
# ------------------------------------------------------------------------------------------

class TraceError(ValueError):
    pass


def split_boundaries(ch):
    """[entries before B0, B0], [entries of generation 1, B1], …"""
    out, cur = [], []
    for e in ch:
        if e[0] == "B":
            out.append((cur, e))
            cur = []
        else:
            cur.append(e)
    return out, cur


def bits(bs):
    return "".join("1" if b else "0" for b in bs) or "-"


def dec_simple(entries, cxpb, mutpb):
    S = [e for e in entries if e[0] == "S"]
    if len(S) != 1:
        raise TraceError("eaSimple generation with %d select calls" % len(S))
    pos = S[0][1]
    n = len(pos)
    rn = [e for e in entries if e[0] == "D"]
    if any(e[1] != "random" for e in rn) or len(rn) != n // 2 + n:
        raise TraceError("varAnd made %d random draws for %d individuals" % (len(rn), n))
    xs = [e[2] for e in rn]
    return "%s/%s/%s" % (sl(pos), bits(x < cxpb for x in xs[:n // 2]), bits(x < mutpb for x in xs[n // 2:]))


def dec_mulam(entries, cxpb, mutpb, with_sel):
    ds = [e for e in entries if e[0] == "D"]
    ch, i = [], 0
    while i < len(ds):
        if ds[i][1] != "random" or i + 1 >= len(ds):
            raise TraceError("varOr draw sequence")
        r, nx = ds[i][2], ds[i + 1]
        if r < cxpb:
            if nx[1] != "sample":
                raise TraceError("varOr crossover branch without sample")
            ch.append("x:%d:%d" % tuple(nx[4]))
        elif r < cxpb + mutpb:
            if nx[1] != "choice":
                raise TraceError("varOr mutation branch without choice")
            ch.append("m:%d" % nx[3])
        else:
            if nx[1] != "choice":
                raise TraceError("varOr reproduction branch without choice")
            ch.append("r:%d" % nx[3])
        i += 2
    if not with_sel:
        return sl(ch)
    S = [e for e in entries if e[0] == "S"]
    if len(S) != 1:
        raise TraceError("mu/lambda generation with %d select calls" % len(S))
    return "%s/%s" % (sl(ch), sl(S[0][1]))


def dec_harm(entries, npop, nbr, offspring):
    it = [e for e in entries if e[0] in ("D", "S", "V")]
    pos = [0]

    def nxt(kind):
        if pos[0] >= len(it) or it[pos[0]][0] != kind:
            raise TraceError("HARM trace: expected %s at %d, got %r" % (kind, pos[0], it[pos[0]] if pos[0] < len(it) else None))
        pos[0] += 1
        return it[pos[0] - 1]

    def new_oid(ev):
        if not ev.startswith("c"):
            raise TraceError("HARM trace: expected a clone, got %s" % ev)
        return int(ev.split(">")[1])

    def generate():
        d = nxt("D")
        if d[1] != "random":
            raise TraceError("HARM trace: opRandom")
        s = nxt("S")
        p = s[1]
        if len(p) == 2:
            a, b = new_oid(nxt("V")[1]), new_oid(nxt("V")[1])
            m = nxt("V")
            if m[1] != "m%d&%d" % (a, b):
                raise TraceError("HARM trace: mate event %s" % m[1])
            return "x:%d:%d" % tuple(p), list(m[2])          # the aspirants are what mate RETURNED
        a = new_oid(nxt("V")[1])
        if pos[0] < len(it) and it[pos[0]][0] == "V" and it[pos[0]][1] == "u%d" % a:
            pos[0] += 1
            return "m:%d" % p[0], list(it[pos[0] - 1][2])
        return "r:%d" % p[0], [a]

    natural, nat_turns, nat_turns_r = [], [], []
    while len(natural) < nbr:
        tok, asp = generate()
        for a in asp:
            if len(natural) < nbr:
                natural.append(a)
        nat_turns.append(tok + ":1" * len(asp))
        nat_turns_r.append(tok + ":0" * len(asp))
    offs = set(offspring)
    pick, produced, acc_turns, acc_turns_r = list(natural), [], [], []

    def draw():
        e = nxt("D")
        if e[1] != "random":
            raise TraceError("HARM trace: acceptfunc draw")
        return tapemod.float_bits(e[2])
    while len(produced) < npop:
        if pick:
            r = draw()
            a = pick.pop()
            ok = a in offs
            if ok:
                produced.append(a)
            acc_turns.append("p:%d" % ok)
            acc_turns_r.append("p:%s" % r)
        else:
            tok, asp = generate()
            flags, rs = [], []
            for k, a in enumerate(asp):
                if k == 0 or len(produced) < npop:
                    rs.append(draw())
                    ok = a in offs
                    if ok:
                        produced.append(a)
                    flags.append(int(ok))
                else:
                    flags.append(0)
                    rs.append("0")            # acceptfunc is not called (`len(producedpop) < n and …`)
            acc_turns.append(tok + "".join(":%d" % f for f in flags))
            acc_turns_r.append(tok + "".join(":%s" % x for x in rs))
    if pos[0] != len(it) or produced != list(offspring):
        raise TraceError("HARM trace does not parse: %d of %d entries used, produced %r, offspring %r"
                         % (pos[0], len(it), produced, list(offspring)))
    return "%s/%s" % (sl(nat_turns), sl(acc_turns)), "%s/%s" % (sl(nat_turns_r), sl(acc_turns_r))


SEL_TOKEN = {"best": "b", "random": "r", "tourn2": "t2", "tourn3": "t3"}


def sel_token(name, S):
    """protocol token of one toolbox.select call for the composed model: the operator and the random.choice results
    it consumed (the model computes the selection itself); for operators the composed model does not compute (roulette,
    NSGA-II) the positions chosen, read off the trace"""
    tok = SEL_TOKEN.get(name)
    draws = S[4]
    if tok is None or any(dr[0] != "choice" for dr in draws) or (tok == "b" and draws):
        return "p:%s" % sl(S[1])
    if tok == "b":
        return "b"
    return "%s:%s" % (tok, sl(dr[2] for dr in draws))


def composed_line(d, loop, gens_entries, gens, heap_tok, pops, rec, script, nbr_eff):
    """the run as a protocol line for the COMPOSED machine (Core/LoopsCompose.lean): the selection is not read off the
    trace but computed by the C06 models from the recorded random.choice results; the hall of fame is the C08 model"""
    table = ";".join("%s>%s" % kv for kv in rec.table.items()) or "-"
    hs = d.get("hofsize", 1)
    if hs < 1:
        return None
    if loop == "gu":
        return "C03 c-gu %s %d %s" % (table, hs, "+".join(gens) if gens else "-")
    if loop == "harm":
        return "C03 c-harm %s %s %s %s %d %d %s" % (heap_tok, pops, table, script, nbr_eff, hs, "+".join(gens) if gens else "-")
    out = []
    for (entries, _), g in zip(gens_entries, gens):
        S = [e for e in entries if e[0] == "S"]
        if len(S) != 1:
            return None
        tok = sel_token(d["sel"], S[0])
        f = g.split("/")
        if loop == "simple":
            out.append("%s/%s/%s" % (tok, f[1], f[2]))
        else:
            out.append("%s/%s" % (f[0], tok))
    g = "+".join(out) if out else "-"
    if loop == "simple":
        return "C03 c-simple %s %s %s %s %d %s" % (heap_tok, pops, table, script, hs, g)
    kind = "c-comma" if loop == "comma" else "c-plus"
    return "C03 %s %s %s %s %s %d %d %d %s" % (kind, heap_tok, pops, table, script, d["mu"], d["lam"], hs, g)


# ------------------------------------------------------------------------------------------
# evaluate one case
# ------------------------------------------------------------------------------------------

def evaluate(d):
    loop, fam = d["loop"], d["fam"]
    if excluded(d):
        return Case(d, [], [], None, tag="excluded-domain", nontrivial=False)
    weights = d["weights"]
    raw = raw_eval(fam, len(weights))
    ngen = d["ngen"]
    rng = random.Random(d["seed"])
    rep = "tree" if fam == "gp" else "list"
    cls = _cls(rep, weights, bool(d.get("cons")))
    inds = []
    for s in d["inds"]:
        ind = cls(c02.tree_nodes(s["g"])) if rep == "tree" else cls(int(x) for x in s["g"])
        if s.get("pre"):
            ind.fitness.values = raw(ind)
        inds.append(ind)
    population = list(inds)
    pop_id = id(population)
    n0 = len(population)
    nbr_eff = max(2000, n0) if d.get("nbr") == -1 else d.get("nbr")     # gp.py 1060-1061: the default nbrindsmodel
    tb = base.Toolbox()
    if loop != "gu":
        m, u = c02.operator_pair(d["mate"], d["mutate"], d.get("indpb", 0.5))
        m, u = c02.wrap_ops(m, u, d.get("mwrap"), d.get("uwrap"), d.get("limit", 1))
        tb.register("mate", m)
        tb.register("mutate", u)
    use_hof, use_stats, verbose = d.get("hof", True), d.get("stats", True), d.get("verbose", False)
    hof = tools.HallOfFame(d.get("hofsize", 1))
    cxpb, mutpb = float(d.get("cxpb", 0)), float(d.get("mutpb", 0))

    boundaries = []      # per boundary: dict(pop oids, list id, fits, truthful?, best)
    asktell = []         # generate-update: [oids generate() returned, what update() was handed (oid:fit)]
    ev_calls = []        # (boundary index at call time, oid)

    with tapemod.Tape(rng=rng, numpy_too=(fam == "cma")) as tp:
        rec = Rec3(tp, inds)
        # 2000 natural individuals / big populations: the per-call snapshots of all other objects are quadratic
        rec.check_frame = d.get("nbr") != -1 and len(inds) <= 64 and d.get("lam", 0) <= 64
        heap_tok = ";".join(rec.obj3(x) for x in inds) if inds else "-"
        if loop != "gu":
            rec.wrap(tb)
            rec.stamp(tb)
            sel0 = selector(d["sel"])

            def select(individuals, k):
                at = len(tp.draws)
                res = sel0(individuals, k)
                rec.excluded.append((at, len(tp.draws)))
                rec.trace.append((at, "S", positions_of(res, individuals), k, len(individuals), list(tp.draws[at:])))
                return res
            tb.register("select", select)

        def ev(ind):
            o = rec.of(ind)
            rec.mark("E", o)
            ev_calls.append((len(boundaries), o, id(ind)))
            res = raw(ind)
            rec.table[rec.gtok(ind)] = ",".join(str(int(v * w)) for v, w in zip(res, weights))
            return res
        tb.register("evaluate", ev)

        upd0 = hof.update

        def hof_update(pop_):
            rec.mark("H", [rec.of(x) for x in pop_], ["%d:%s" % (rec.of(x), wv(x.fitness)) for x in pop_])
            return upd0(pop_)
        hof.update = hof_update

        def boundary(data):
            data = list(data) if not isinstance(data, list) else data
            truthful = None
            for k, x in enumerate(data):
                if not x.fitness.valid:
                    truthful = truthful or "individual %d of the population has no valid fitness" % k
                elif tuple(x.fitness.values) != tuple(raw(x)):
                    truthful = truthful or ("individual %d carries fitness %r but evaluate gives %r for its genotype"
                                            % (k, x.fitness.values, raw(x)))
            rec.mark("B", [rec.of(x) for x in data], [wv(x.fitness) for x in data])
            boundaries.append({"n": len(data), "list": id(data), "truthful": truthful,
                               "hof": ";".join("%s>%s" % (rec.gtok(x), wv(x.fitness)) for x in hof) or "-",
                               "best": max((x.fitness.wvalues for x in data), default=None),
                               "fits": [x.fitness.wvalues for x in data]})
        stats = SnapStats(boundary) if use_stats else None
        last_gu = [[]]       # generate-update without Statistics: the list update() was given

        BaseLogbook = tools.Logbook

        class HookLogbook(BaseLogbook):
            """without a Statistics object the boundary is observed when the loop records the generation: the caller's
            population list is read at that moment"""
            def record(self, **kw):
                if not use_stats:
                    boundary(population if loop != "gu" else last_gu[0])
                BaseLogbook.record(self, **kw)

        if loop == "gu":
            if fam == "cma":
                strat = cma.Strategy(centroid=[float(x) for x in d["centroid"]], sigma=float(d["sigma"]), lambda_=d["lam"])
                ask, tell = (lambda: strat.generate(cls)), strat.update
            else:
                # ask/tell strategy with PERSISTENT individuals moved in place (particle-swarm style): generate() hands
                # back the same objects, still carrying the fitness of their previous position unless `delfit`
                parts = []

                def ask():
                    if not parts:
                        parts.extend(cls(random.randint(-3, 3) for _ in range(d["dim"])) for _ in range(d["lam"]))
                    else:
                        for k, p_ in enumerate(parts):
                            if d["renew"] and random.random() < 0.25:
                                parts[k] = cls(random.randint(-3, 3) for _ in range(d["dim"]))
                                continue
                            p_[0] += random.choice([-1, 1])
                            for i in range(1, len(p_)):
                                p_[i] += random.randint(-1, 1)
                            if d["delfit"]:
                                del p_.fitness.values
                    return list(parts) if d["newlist"] else parts

                def tell(pop_):
                    if d["sortupd"]:
                        pop_.sort(key=lambda q: q.fitness, reverse=True)

            def generate():
                at = len(tp.draws)
                pop_ = ask()
                rec.excluded.append((at, len(tp.draws)))
                toks = []
                for x in pop_:
                    o = rec.oid.get(id(x))
                    if o is None:
                        o = rec.new(x)
                    toks.append("%d:%s" % (o, rec.obj3(x)))
                rec.mark("G", toks)
                asktell.append([[rec.of(x) for x in pop_], None])
                return pop_

            def update(pop_):
                before = list(pop_)
                if asktell:
                    asktell[-1][1] = ";".join("%d:%s" % (rec.of(x), wv(x.fitness)) for x in pop_) or "-"
                tell(pop_)
                last_gu[0] = pop_
                rec.mark("U", positions_of(pop_, before))
            tb.register("generate", generate)
            tb.register("update", update)

        asserted = False
        hof_arg = hof if use_hof else None
        import contextlib
        import io
        saved_logbook = tools.Logbook
        tools.Logbook = HookLogbook
        try:
          with contextlib.redirect_stdout(io.StringIO()):
            if loop == "simple":
                res = algorithms.eaSimple(population, tb, cxpb, mutpb, ngen, stats=stats, halloffame=hof_arg, verbose=verbose)
            elif loop in ("plus", "plusbest"):
                res = algorithms.eaMuPlusLambda(population, tb, d["mu"], d["lam"], cxpb, mutpb, ngen, stats=stats,
                                                halloffame=hof_arg, verbose=verbose)
            elif loop == "comma":
                res = algorithms.eaMuCommaLambda(population, tb, d["mu"], d["lam"], cxpb, mutpb, ngen, stats=stats,
                                                 halloffame=hof_arg, verbose=verbose)
            elif loop == "harm":
                res = gp.harm(population, tb, cxpb, mutpb, ngen, alpha=d.get("alpha", 0.05), beta=d.get("beta", 10),
                              gamma=d["gamma"], rho=d.get("rho", 0.9),
                              nbrindsmodel=d["nbr"], mincutoff=d["mincutoff"], stats=stats, halloffame=hof_arg,
                              verbose=verbose)
            elif loop == "gu":
                res = algorithms.eaGenerateUpdate(tb, ngen, halloffame=hof_arg, stats=stats, verbose=verbose)
            else:
                raise ValueError(loop)
        except AssertionError:
            asserted = True
        finally:
            tools.Logbook = saved_logbook

    pops = sl(range(n0))
    script = ";".join(rec.calls) if rec.calls else "-"
    tag = "%s/%s/%s%s%s%s" % (loop, fam, d.get("sel", "-"), "/wrapped" if (d.get("mwrap") or d.get("uwrap")) else "",
                              "" if use_hof else "/nohof", "" if use_stats else "/nostats")

    sfx = "" if use_hof else "-nohof"

    def line_for(gens):
        table = ";".join("%s>%s" % kv for kv in rec.table.items()) or "-"
        g = "+".join(gens) if gens else "-"
        if loop == "simple":
            return "C03 simple%s %s %s %s %s %s" % (sfx, heap_tok, pops, table, script, g)
        if loop in ("plus", "comma", "plusbest"):
            return "C03 %s%s %s %s %s %s %d %d %s" % (loop, sfx, heap_tok, pops, table, script, d["mu"], d["lam"], g)
        if loop == "harm":
            return "C03 harm%s %s %s %s %s %d %s" % (sfx, heap_tok, pops, table, script, nbr_eff, g)
        return "C03 gu%s %s %s" % (sfx, table, g)

    if asserted:
        inside = not (loop == "comma" and d["lam"] < d["mu"])
        return Case(d, [line_for([])], ["assert"], "AssertionError inside the domain" if inside else None,
                    tag=tag + "/assert", nontrivial=False)
    final_pop, logbook = res

    # ---- decisions from the trace --------------------------------------------------------
    ch = rec.chron()
    gens_b, tail = split_boundaries(ch)
    first = 0 if loop == "gu" else 1
    gens, gens_r, trace_err = [], [], None
    try:
        if any(e[0] in ("E", "S", "V", "D", "G", "U") for e in tail):
            raise TraceError("events after the last boundary: %r" % (tail[:5],))
        for entries, b in gens_b[first:]:
            if loop == "simple":
                gens.append(dec_simple(entries, cxpb, mutpb))
            elif loop in ("plus", "comma"):
                gens.append(dec_mulam(entries, cxpb, mutpb, True))
            elif loop == "plusbest":
                gens.append(dec_mulam(entries, cxpb, mutpb, False))
            elif loop == "harm":
                gb, gr = dec_harm(entries, n0, nbr_eff, b[1])       # the offspring are the population afterwards
                gens.append(gb)
                gens_r.append(gr)
            else:
                G = [e for e in entries if e[0] == "G"]
                U = [e for e in entries if e[0] == "U"]
                if len(G) != 1 or len(U) != 1:
                    raise TraceError("generate-update generation with %d generate / %d update calls" % (len(G), len(U)))
                gens.append("%s/%s" % (";".join(G[0][1]) if G[0][1] else "-", sl(U[0][1])))
    except TraceError as e:
        trace_err = str(e)

    # ---- the implementation's canonical answer -------------------------------------------
    log_tok = sl("%d:%d" % (r["gen"], r["nevals"]) for r in logbook)
    evals_tok = sl("%d:%d" % ((b if loop != "gu" else b), o) for b, o, _ in ev_calls)
    shown = [o for e in ch if e[0] == "H" for o in e[1]]
    shown_tok = ";".join(t for e in ch if e[0] == "H" for t in e[2]) or "-"
    bounds = "+".join("%s|%s" % (sl(b[1]), ";".join(b[2]) if b[2] else "-") for _, b in gens_b) or "-"
    ans = "log=%s evals=%s shown=%s bounds=%s vlog=%s" % (log_tok, evals_tok, shown_tok if use_hof else "-", bounds, sl(rec.events))
    if rec.contract:
        ans = "operator-contract-violated: " + rec.contract

    # ---- oracle: the statement at every generation boundary ---------------------------------
    orc = None
    nb = len(boundaries)
    want_nb = ngen if loop == "gu" else ngen + 1
    # one record per generation 0..ngen (0..ngen-1 for generate-update), in order
    gens_col = [r["gen"] for r in logbook]
    if gens_col != list(range(want_nb)):
        orc = "logbook generations %r instead of %r" % (gens_col, list(range(want_nb)))
    if orc is None and nb != want_nb:
        orc = "%d generation boundaries observed for %d generations" % (nb, ngen)
    # truthful fitness at every boundary
    for g, b in enumerate(boundaries):
        if orc is None and b["truthful"]:
            orc = "after generation %d: %s" % (g, b["truthful"])
    # evaluate calls per generation: the logged nevals, and exactly the new-or-changed individuals, once each
    if orc is None:
        hs = [e[1] for e in ch if e[0] == "H"]
        for g in range(want_nb):
            calls = [o for b, o, _ in ev_calls if b == g]
            if len(calls) != logbook[g]["nevals"]:
                orc = "generation %d: evaluate called %d times but the logbook records nevals=%d" % (g, len(calls), logbook[g]["nevals"])
                break
            if len(set(calls)) != len(calls):
                orc = "generation %d: evaluate was called more than once on the same individual: %r" % (g, calls)
                break
            touched_oids = set(rec.oid[i] for i in rec.touched if i in rec.oid)
            if not use_hof:
                # without a hall of fame the list of candidates of the generation is not observable: every evaluated
                # individual must be new or changed (that no new or changed member of the population is skipped follows
                # from the truthfulness check at the boundary)
                if loop != "gu":
                    stale = [o for o in calls if (o < n0 and d["inds"][o].get("pre")) or
                             (o >= n0 and o not in touched_oids and rec.src_valid.get(o, False))]
                    if stale:
                        orc = "generation %d: evaluate was called on #%d, which is neither new nor changed" % (g, stale[0])
                        break
                continue
            if g >= len(hs):
                orc = "generation %d: the hall of fame was not updated" % g
                break
            cand = hs[g]
            unseen = [o for o in calls if o not in cand]
            if unseen:
                orc = ("generation %d: individual #%d was evaluated but is not among the individuals the hall of fame "
                       "was shown in that generation (%r)" % (g, unseen[0], cand))
                break
            if loop == "gu":
                expect = list(cand)
            elif g == 0:
                expect = [o for o in cand if not d["inds"][o].get("pre")]
            else:
                expect = [o for o in cand if o in touched_oids or not rec.src_valid.get(o, False)]
            if sorted(calls) != sorted(expect):
                orc = ("generation %d: evaluate was called on %r but the new or changed individuals are %r"
                       % (g, calls, expect))
                break
        if orc is None and any(b >= want_nb for b, _, _ in ev_calls):
            orc = "evaluate called after the last generation"
    # the caller's list is updated in place and keeps its prescribed size
    if orc is None and loop != "gu":
        if final_pop is not population or id(population) != pop_id:
            orc = "the returned population is not the caller's list object"
        for g, b in enumerate(boundaries):
            if orc is None and use_stats and b["list"] != pop_id:
                orc = "generation %d: statistics were compiled on a list that is not the caller's population" % g
            size = n0 if (loop in ("simple", "harm") or g == 0) else d["mu"]
            if orc is None and b["n"] != size:
                orc = "after generation %d the population has %d individuals instead of %d" % (g, b["n"], size)
        if orc is None and len(population) != (n0 if (loop in ("simple", "harm") or ngen == 0) else d["mu"]):
            orc = "final population size %d" % len(population)
    # hall of fame: shown every evaluated individual; best entry at least as good as any fitness logged
    if orc is None and use_hof:
        shown_set = set(shown)
        for b, o, _ in ev_calls:
            if o not in shown_set:
                orc = "individual #%d evaluated in generation %d was never shown to the hall of fame" % (o, b)
                break
        allfits = [f for b in boundaries for f in b["fits"]]
        if orc is None and allfits:
            if len(hof) == 0 or any(hof[0].fitness.wvalues < f for f in allfits):
                orc = "hall of fame best %r is worse than a logged fitness %r" % (
                    hof[0].fitness.wvalues if len(hof) else None, max(allfits))
    # mu+lambda with truncation selection: the best never gets worse
    if orc is None and loop == "plusbest":
        for g in range(1, nb):
            if boundaries[g]["best"] < boundaries[g - 1]["best"]:
                orc = "best fitness got worse from generation %d (%r) to %d (%r)" % (
                    g - 1, boundaries[g - 1]["best"], g, boundaries[g]["best"])
                break
    # ---- the composed model: library selectors + HallOfFame model + list identity + ask/tell ----------
    extra_lines, extra_ans = [], []
    if use_hof and trace_err is None and not rec.contract and len(boundaries) == len(gens_b):
        comp = composed_line(d, loop, gens_b[first:], gens, heap_tok, pops, rec, script, nbr_eff)
        if comp is not None:
            cb = "+".join("%s|%s|%s|%s" % (sl(b[1]), ";".join(b[2]) if b[2] else "-", boundaries[k]["hof"],
                                            "-" if loop == "gu" else ("same" if boundaries[k]["list"] == pop_id else "other"))
                          for k, (_, b) in enumerate(gens_b)) or "-"
            if loop == "gu":
                tells = "+".join("%s~%s" % (sl(a), t_ if t_ is not None else "none") for a, t_ in asktell) or "-"
                cans = "log=%s evals=%s cb=%s tells=%s" % (log_tok, evals_tok, cb, tells)
            else:
                sels = []
                for entries, _ in gens_b[first:]:
                    S = [e for e in entries if e[0] == "S"]
                    sels.append(sl(S[0][1]) if loop != "harm" and len(S) == 1 else "-")
                cans = "log=%s evals=%s cb=%s sel=%s vlog=%s" % (log_tok, evals_tok, cb, "+".join(sels) or "-", sl(rec.events))
            extra_lines.append(comp)
            extra_ans.append(cans)
    if trace_err is not None:
        # the real run is not a run of the modelled machine (e.g. a different sequence of random draws): a break of the
        # correspondence (CONTRIBUTING, later conventions) unless the oracle already names the violated clause
        # (reported as a protocol line the model cannot answer rather than as a `TAPE:` oracle text, so that lib's
        # shrinker, which accepts any oracle text, cannot drift from a real violation to a mere tape mismatch)
        return Case(d, ["C03 tape-error"], ["TAPE: " + trace_err], orc, tag=tag + "/trace-error", nontrivial=False)
    if loop == "harm":
        # second line: the model derives every acceptance itself from the recorded random() draws
        from lib import fbits
        table = ";".join("%s>%s" % kv for kv in rec.table.items()) or "-"
        line_r = "C03 harmr" + sfx + " %s %s %s %s %d %s %s %s %d %d %s" % (
            heap_tok, pops, table, script, nbr_eff, fbits(float(d.get("alpha", 0.05))), fbits(float(d.get("beta", 10))),
            fbits(float(d["gamma"])), d["mincutoff"], int(n0 * d.get("rho", 0.9) - 1), "+".join(gens_r) if gens_r else "-")
        return Case(d, [line_for(gens), line_r] + extra_lines, [ans, ans] + extra_ans, orc,
                    tag=tag + ("/composed" if extra_lines else ""), nontrivial=ngen >= 1)
    return Case(d, [line_for(gens)] + extra_lines, [ans] + extra_ans, orc,
                tag=tag + ("/composed" if extra_lines else ""), nontrivial=ngen >= 1)


# ------------------------------------------------------------------------------------------
# generation
# ------------------------------------------------------------------------------------------

def mk_inds(rng, fam, n):
    inds = []
    L = rng.randint(2, 6)
    for _ in range(n):
        if inds and rng.random() < 0.2:
            g = inds[rng.randrange(len(inds))]["g"]
        elif fam == "gp":
            g = c02.mk_genome(rng, "tree")
        else:
            g = [rng.randint(0, 1) for _ in range(L)]
        inds.append({"g": g, "pre": False})
    pk = rng.choice(["none", "none", "all", "mixed", "mixed"])
    for s in inds:
        s["pre"] = pk == "all" or (pk == "mixed" and rng.random() < 0.5)
    return inds


def prob(rng):
    r = rng.random()
    return 0.0 if r < 0.15 else 1.0 if r < 0.3 else rng.randint(0, 8) / 8.0


def mk_case(rng, loop=None, ngen=None, big=False):
    loop = loop or rng.choice(["simple", "simple", "plus", "comma", "plusbest", "harm", "gu", "pso", "nsga2", "gpsimple"])
    d = {"seed": rng.getrandbits(32), "ngen": rng.randint(0, 6) if ngen is None else ngen, "hofsize": rng.choice([1, 1, 2, 3]),
         "hof": rng.random() < 0.7, "stats": rng.random() < 0.7, "verbose": rng.random() < 0.2}
    if loop in ("gu", "pso"):
        dim = rng.randint(2, 3)
        if loop == "gu":
            d.update(loop="gu", fam="cma", weights=[-1.0], inds=[], lam=rng.choice([129, 160, 257]) if big else rng.randint(3, 6),
                     centroid=[rng.randint(-4, 4) / 2.0 for _ in range(dim)], sigma=rng.choice([0.5, 1.0, 2.0]))
            d["ngen"] = min(d["ngen"], 4)
        else:
            d.update(loop="gu", fam="pso", weights=[-1.0], inds=[], lam=rng.choice([129, 160, 257]) if big else rng.randint(1, 6), dim=dim,
                     delfit=rng.random() < 0.3, renew=rng.random() < 0.3, newlist=rng.random() < 0.5,
                     sortupd=rng.random() < 0.5)
        return d
    fam = "ga"
    if loop == "gpsimple":
        loop, fam = "simple", "gp"
    if loop == "harm":
        fam = "gp"
    nsga = loop == "nsga2"
    if nsga:
        loop = "plus"
    n = rng.randint(0, 8) if loop == "simple" else rng.randint(1, 8)
    if big:
        n = rng.choice([129, 130, 160, 257])      # beyond the sizes at which library code switches strategy (e.g. 128)
    d.update(loop=loop, fam=fam, inds=mk_inds(rng, fam, n), indpb=rng.choice([0.0, 0.5, 0.5, 1.0]))
    if fam == "gp":
        mates, muts = c02.OPS["tree"]
        d["weights"] = rng.choice([[1.0], [-1.0]])
    else:
        mates, muts = ["cxOnePoint", "cxTwoPoint"], ["mutFlipBit"]
        d["weights"] = rng.choice([[1.0], [1.0], [-1.0]])
    d["mate"], d["mutate"] = rng.choice(mates), rng.choice(muts)
    if rng.random() < 0.3:      # operators that return other objects than they were given (C02's wrappers)
        d["mwrap"] = rng.choice([None, "pure", "swap", "pureswap", "half"] + (["limit", "limit"] if fam == "gp" else []))
        d["uwrap"] = rng.choice([None, "pure"] + (["limit", "limit"] if fam == "gp" else []))
        d["limit"] = rng.choice([0, 1, 2])
    if nsga:
        d["weights"] = rng.choice([[1.0, 1.0], [-1.0, 1.0]])
        d["sel"] = "nsga2"
    elif loop == "plusbest":
        d["sel"] = "best"
    elif loop == "harm":
        d["sel"] = rng.choice(["tourn2", "tourn3", "random"])
    else:
        d["sel"] = rng.choice(["tourn3", "tourn2", "best", "random"] + (["roulette"] if d["weights"] == [1.0] and fam == "ga" else []))
    d["cxpb"] = prob(rng)
    if loop == "simple":
        d["mutpb"] = prob(rng)
    elif loop == "harm":
        d["mutpb"] = prob(rng)
        d["ngen"] = min(d["ngen"], 3)
        d["nbr"] = n + rng.choice([0, 0, 1, 3, n])
        d["gamma"] = rng.choice([0.25, 0.25, 0.05, 2.0])
        d["mincutoff"] = rng.choice([1, 2, 20])
        d["alpha"] = rng.choice([0.05, 0.05, 0.5])
        d["beta"] = rng.choice([10, 10, 1, 2.5])
        d["rho"] = rng.choice([0.9, 0.9, 0.5, 1.0])
    else:
        d["mutpb"] = rng.choice([0.0, 1.0 - d["cxpb"], rng.randint(0, 8) / 8.0 * (1.0 - d["cxpb"])])
        lam = rng.choice([129, 160, 257]) if big else rng.randint(1, 8)
        mu = rng.randint(1, lam)
        if loop == "comma" and rng.random() < 0.08:
            mu = lam + rng.randint(1, 2)          # assertion domain
        if n < 2 or mu < 2:
            d["cxpb"] = 0.0
        d["mu"], d["lam"] = mu, lam
    return d


def generate(tier, rng, mult):
    thorough = tier == "thorough"
    # every loop with ngen = 0, 1, 2 first
    for loop in ["simple", "plus", "comma", "plusbest", "harm", "gu", "pso", "nsga2", "gpsimple"]:
        for k, ngen in enumerate((0, 0, 1, 1, 2, 2, 3, 3)):
            d = mk_case(rng, loop, ngen)
            # every loop with and without hall of fame / Statistics / verbose output
            d["hof"], d["stats"], d["verbose"] = k % 2 == 0, k % 4 < 2, k == 3
            yield d
    # the same loops on individuals whose fitness class derives from ConstrainedFitness
    for loop in ["simple", "plus", "comma", "plusbest", "gu", "gpsimple"]:
        for ngen in (1, 2, 3):
            d = mk_case(rng, loop, ngen)
            d["hof"], d["stats"], d["verbose"] = True, ngen == 2, False
            d["cons"] = 1
            yield d
    # composed clauses first-class: hall of fame + statistics on, library selectors the model computes itself, small and
    # larger halls of fame, partly pre-evaluated populations (the hall of fame must see valid-on-entry individuals)
    for loop in ["plusbest", "plus", "comma", "simple", "gu", "pso", "harm"]:
        for k in range(4):
            d = mk_case(rng, loop, (1, 2, 3, 4)[k] if loop != "harm" else (1, 2, 1, 2)[k])
            d["hof"], d["stats"], d["verbose"] = True, k % 2 == 0, False
            d["hofsize"] = (1, 2, 3, 1)[k]
            if d.get("sel") in ("roulette", "nsga2") or (loop in ("plus", "comma", "simple") and "sel" in d):
                d["sel"] = ("best", "tourn2", "tourn3", "random")[k]
            if d.get("inds"):
                for j, s_ in enumerate(d["inds"]):
                    s_["pre"] = (j + k) % 2 == 0
            yield d
    # big populations / offspring batches (> 128, > 256): minimisation and maximisation, small halls of fame
    for k, loop in enumerate(["simple", "plus", "comma", "plusbest", "gu", "pso", "nsga2", "gpsimple", "harm",
                              "simple", "plus", "gu"]):
        d = mk_case(rng, loop, 1 if k < 9 else 2, big=True)
        d["hof"], d["stats"], d["verbose"] = True, True, False
        d["hofsize"] = (1, 3, 5)[k % 3]
        if len(d["weights"]) == 1:
            d["weights"] = [-1.0] if k % 2 == 0 else [1.0]
            if d.get("sel") == "roulette":
                d["sel"] = "tourn3"
        if loop == "harm":
            d["inds"] = d["inds"][:130]
            d["nbr"] = max(d["nbr"], len(d["inds"]))
        yield d
    # gp.harm with the default nbrindsmodel=-1 (2000 natural individuals per generation)
    for _ in range(10 if thorough else 1):
        d = mk_case(rng, "harm", 1)
        d["inds"] = d["inds"][:4]
        d["nbr"] = -1
        yield d
    for _ in range((40000 if thorough else 2500) * mult):
        yield mk_case(rng)


def shrink(d):
    if d["ngen"] > 0:
        for g in range(d["ngen"]):
            e = dict(d)
            e["ngen"] = g
            yield e
    if d["loop"] != "gu" and len(d["inds"]) > 1:
        for i in range(len(d["inds"])):
            e = dict(d)
            e["inds"] = d["inds"][:i] + d["inds"][i + 1:]
            if e["loop"] == "harm":
                e["nbr"] = max(e["nbr"], len(e["inds"]))
            if not excluded(e):
                yield e
    for key in ("lam", "mu"):
        if d.get(key, 0) > 1:
            e = dict(d)
            e[key] = d[key] - 1
            if e.get("mu", 0) <= e.get("lam", 0) and not excluded(e):
                yield e
    for key in ("cxpb", "mutpb"):
        for v in (0.0, 1.0):
            if key in d and d[key] != v:
                e = dict(d)
                e[key] = v
                if e["loop"] in ("plus", "comma", "plusbest") and e["cxpb"] + e["mutpb"] > 1.0:
                    continue
                if not excluded(e):
                    yield e


def classify(desc, msg, known):
    return None
